"""./check --selftest [ids|Cnn ...] : mutation tests of the checkers (DESIGN.md §7).

Each mutant (selftest/mutants.json) is a small textual edit of the current /repo tree that breaks exactly one rule instance
while still compiling.  The mutant is applied to a scratch copy outside /repo and /verif, the property's check is run with
VERIF_REPO pointing there, and must report a VIOLATION naming the expected rule; the scratch copy is removed afterwards."""
import json
import os
import shutil
import subprocess
import sys
import tempfile

VERIF = os.path.dirname(os.path.dirname(os.path.abspath(__file__)))
REPO = os.path.abspath(os.environ.get('VERIF_REPO', '/repo'))


def load():
    with open(os.path.join(VERIF, 'selftest', 'mutants.json')) as fh:
        ms = json.load(fh)
    # independently seeded changes (seeded/<id>/patch.diff) are replayed as mutants too
    sd = os.path.join(VERIF, 'seeded')
    if os.path.isdir(sd):
        for d in sorted(os.listdir(sd)):
            mp = os.path.join(sd, d, 'meta.json')
            pp = os.path.join(sd, d, 'patch.diff')
            if not (os.path.exists(mp) and os.path.exists(pp)):
                continue
            meta = json.load(open(mp))
            det = meta.get('detected_by', '')
            import re as _re
            m = _re.search(r'(C\d\d) (R\d+\.\d+)', det.split('->')[-1])
            if not m:
                continue
            ms.append({'id': 'seeded-' + d, 'property': m.group(1), 'rule': m.group(2), 'patch': pp, 'desc': meta.get('summary', '')[:120], 'edits': [],
                       'tier': 'thorough' if 'thorough tier' in det else 'quick'})
    # behaviour-preserving refactorings written by independent agents (selftest/benign/*.diff): every check must stay silent
    bd = os.path.join(VERIF, 'selftest', 'benign')
    if os.path.isdir(bd):
        for f in sorted(os.listdir(bd)):
            if f.endswith('.diff'):
                ms.append({'id': 'refactor-' + f[:-5], 'property': '*', 'rule': '-', 'patch': os.path.join(bd, f), 'benign': True, 'edits': [],
                           'desc': 'behaviour-preserving refactoring (see selftest/benign/INDEX-*.md)'})
    return ms


def all_properties():
    with open(os.path.join(VERIF, 'MANIFEST.json')) as fh:
        return [c['property_id'] for c in json.load(fh)['checks']]


def scratch_copy():
    base = tempfile.mkdtemp(prefix='grmverif-mut-')
    dst = os.path.join(base, 'repo')
    shutil.copytree(REPO, dst, ignore=shutil.ignore_patterns('target', '.git'), symlinks=True)
    return base, dst


def apply(dst, m):
    """returns None when applied, or a reason string when the edit no longer applies"""
    if m.get('patch'):
        r = subprocess.run(['patch', '-p1', '-s', '-i', m['patch']], cwd=dst, capture_output=True, text=True)
        if r.returncode != 0:
            return 'patch does not apply: ' + (r.stdout + r.stderr)[:120]
        return None
    for ed in m['edits']:
        p = os.path.join(dst, ed['file'])
        if not os.path.exists(p):
            return 'file %s missing' % ed['file']
        s = open(p).read()
        if s.count(ed['old']) != 1:
            return 'anchor text occurs %d times in %s' % (s.count(ed['old']), ed['file'])
        s = s.replace(ed['old'], ed['new'])
        open(p, 'w').write(s)
    return None


def run_one(m, verbose=True):
    base, dst = scratch_copy()
    try:
        why = apply(dst, m)
        if why:
            return 'skipped', why
        env = dict(os.environ, VERIF_REPO=dst, VERIF_SELFTEST='1')
        if m['property'] == '*':
            alarms = []
            only = [x for x in os.environ.get('VERIF_SELFTEST_PROPS', '').replace(',', ' ').split() if x]
            for prop in [q for q in all_properties() if not only or q in only]:
                r = subprocess.run([os.path.join(VERIF, 'check'), prop, '--tier', 'quick', '--no-evidence'], env=env, capture_output=True, text=True, cwd=VERIF)
                if 'cargo check failed' in r.stdout + r.stderr:
                    return 'broken', 'patched tree does not compile'
                alarms += [prop + ' ' + ln.strip() for ln in r.stdout.splitlines() if '[FAIL]' in ln or '[LOST]' in ln]
                if r.returncode != 0 and not alarms:
                    alarms.append('%s exit=%d' % (prop, r.returncode))
            if alarms:
                return 'false-alarm', alarms[0][:260]
            return 'silent', 'behaviour-preserving refactoring raises no alarm in any of the %d checks' % len(all_properties())
        r = subprocess.run([os.path.join(VERIF, 'check'), m['property'], '--tier', m.get('tier', 'quick'), '--no-evidence'], env=env, capture_output=True, text=True,
                           cwd=VERIF)
        out = r.stdout + r.stderr
        if 'cargo check failed' in out:
            return 'broken', 'mutant does not compile'
        fails = [ln for ln in r.stdout.splitlines() if '[FAIL]' in ln or '[LOST]' in ln]
        if m.get('benign'):
            if r.returncode == 0 and not fails:
                return 'silent', 'behaviour-preserving edit raises no alarm'
            return 'false-alarm', (fails[0].strip()[:260] if fails else 'exit=%d' % r.returncode)
        hit = [ln for ln in fails if m['rule'] in ln and (not m.get('expect') or m['expect'] in ln)]
        if r.returncode == 1 and 'VIOLATION property=%s' % m['property'] in r.stdout and hit:
            return 'caught', hit[0].strip()[:220]
        if r.returncode == 1 and fails:
            return 'caught-other', fails[0].strip()[:220]
        return 'missed', 'exit=%d' % r.returncode
    finally:
        shutil.rmtree(base, ignore_errors=True)


def controls_for(prop, maxn=3):
    return [m for m in load() if m['property'] == prop and m.get('control') and not m.get('benign')][:maxn]


def _worker_init(counter):
    with counter.get_lock():
        k = counter.value
        counter.value += 1
    os.environ['VERIF_CACHE'] = os.path.join(VERIF, '.cache', 'worker%d' % k)


def _worker_run(m):
    return m, run_one(m)


def main(argv):
    jobs = 1
    for a in list(argv):
        if a.startswith('-j'):
            jobs = max(1, int(a[2:] or 4))
            argv.remove(a)
    ms = load()
    if argv:
        ms = [m for m in ms if m['id'] in argv or m['property'] in argv or ('refactorings' in argv and m['property'] == '*')]
    bad = 0

    def report(m, st, msg):
        print('%-12s %-4s %-7s %-28s %s' % (st.upper(), m['property'], m['rule'], m['id'], msg), flush=True)
        return st in ('missed', 'broken', 'false-alarm')
    if jobs == 1:
        for m in ms:
            st, msg = run_one(m)
            bad += report(m, st, msg)
    else:
        # each worker has its own cache directory (cargo target dir, facts): extractions run side by side
        import multiprocessing
        from concurrent.futures import ProcessPoolExecutor
        subprocess.run([os.path.join(VERIF, 'check'), '--setup'], capture_output=True)
        counter = multiprocessing.Value('i', 0)
        with ProcessPoolExecutor(max_workers=jobs, initializer=_worker_init, initargs=(counter,)) as ex:
            for m, (st, msg) in ex.map(_worker_run, ms):
                bad += report(m, st, msg)
    print('%d mutants, %d not caught' % (len(ms), bad))
    return 1 if bad else 0
