"""C09 The lexer does longest match, earliest rule on ties, start states; tiles input (DESIGN.md §4 C09) - partial.

R9.1 maximal munch: strict comparison, forward rule order, match taken at the iteration's start offset
R9.2 applicability table of a rule in a start state (4 rows)
R9.3 tiling: the offset advances only by the longest match (> 0); lexeme = (token of the chosen rule, start offset, longest);
     every error leaves the loop
R9.5 the regex handed to the engine for a rule is `\\A(?:` user text `)`: anchored at the current position and grouped
R9.4 start-state stack operations per StartStateOperation variant
"""
from mirlib import *
from lrstep import is_call, has_call, find_calls, find_variant, widening_walker, loop_assigned

META = {
    'level': 'other',
    'explanation': 'Reads the rule-selection loop and the per-position step of LRNonStreamingLexerDef::lexer as path tables: the '
                   '(longest, rule) pair is updated only under a STRICT "new length > longest" comparison while rules are visited '
                   'in ascending order and matched at the position\'s start offset (earliest rule wins ties); a rule is applicable '
                   'iff its state list is empty and the state is inclusive, or the list contains the state; the offset is advanced '
                   'by exactly the longest match and only if it is > 0, the lexeme emitted is (token id of the chosen rule, start, '
                   'longest) and every pushed error ends lexing; push/pop/replace manipulate the start-state stack as documented. '
                   'NOT decided: what the regexes match; the id synchronisation sets.',
}

L = 'lrlex::lexer::'


def lexer_fn(facts, R):
    bs = [b for b in facts.lib_bodies(['lrlex']) if b.name == 'lexer' and 'LRNonStreamingLexerDef' in (b.impl_of or '')]
    if len(bs) != 1:
        raise AnchorLost(R, 'LRNonStreamingLexerDef::lexer not found')
    return bs[0]


def r91(facts, res):
    R = 'R9.1'
    b = lexer_fn(facts, R)
    loops = b.loops()
    finds = [(bb, t) for bb, t in b.calls_named('find') if 'Regex' in (cpath(t) or '')]
    if len(finds) != 1:
        res.lost(R, 'expected one Regex::find in lexer(), found %d' % len(finds))
        return None
    fb = finds[0][0]
    inner = min([h for h in loops if fb in loops[h]], key=lambda h: len(loops[h]))
    outer = max([h for h in loops if fb in loops[h]], key=lambda h: len(loops[h]))
    # iteration order of the rule loop
    nx = [(bb, t) for bb, t in b.calls_named('next', loops[inner]) if b.dominates(bb, fb)]
    st = (callee_of(nx[0][1]).get('self_ty') or '') if nx else ''
    if st.startswith('core::iter::adapters::enumerate::Enumerate<core::slice::iter::Iter<') and 'rev::Rev' not in st:
        res.ok(R, 'rule-order', loc_of(b, nx[0][0]), 'rules are visited in ascending index order (Enumerate<slice::Iter<Rule>>)')
    else:
        res.bad(R, 'rule-order', loc_of(b, inner), 'rules are iterated as %s: the index recorded for the winner must be the rule\'s position in the rule list '
                'and ties must go to the EARLIEST rule (enumerate directly over the rule slice, ascending, with a strict comparison)' % (st or '?'))
    # the update of (longest, ridx)
    w = Walker(b, facts, max_paths=256)
    ps = [p for p in w.run(inner, stop=lambda x: x == inner or x not in loops[inner]) if p.end in (('loop', inner), ('stop', inner))]
    longest = None
    upd = []
    for p in ps:
        for (l, pj), v in p.env.items():
            if isinstance(l, int) and not pj and b.name_of(l) and b.lty(l) == 'usize' and is_call(strip_ref(v), 'end') and has_call(v, 'find'):
                upd.append((p, l, v))
    # the running maximum is the one that is compared with its own previous value; `let len = m.end()` is not
    with_cmp = [(p, l, v) for p, l, v in upd if any(c[0] == 'bin' and term_has(c, lambda x: x == ('uninit', l)) for c, val in p.conds)]
    if with_cmp:
        keep = {l for p, l, v in with_cmp}
        upd = [(p, l, v) for p, l, v in upd if l in keep]
    else:
        # overwritten unconditionally: pick locals that live across iterations (read before written)
        upd = [(p, l, v) for p, l, v in upd if l in loop_live_in(b, inner)]
    if not upd:
        res.bad(R, 'strict-update', loc_of(b, inner), 'no path stores the end of a regex match into the running maximum')
        return None
    ok = True
    why = ''
    for p, l, v in upd:
        longest = l
        cmpc = [(c, val) for c, val in p.conds if c[0] == 'bin' and c[1] in ('Lt', 'Le') and term_has(c, lambda x: x == ('uninit', l))]
        if not cmpc:
            ok, why = False, 'the maximum is overwritten without comparing with it'
            continue
        c, val = cmpc[-1]
        # need: longest < len  (strict)
        strict_gt = (c[1] == 'Lt' and c[2] == ('uninit', l) and val == 1) or (c[1] == 'Le' and c[3] == ('uninit', l) and val == 0)
        if not strict_gt:
            ok, why = False, 'the maximum is replaced under `%s == %s`: a later rule with an EQUAL match length would win the tie' % (fmt_term(c)[:80], val)
        # match taken on the input from the iteration start offset
        hay = find_calls(v, 'find')[0][2][1]
        rng = find_variant(hay, 'RangeFrom')
        if rng is None or rng[4][0][0] not in ('uninit', 'param'):
            ok, why = False, 'the regex is not matched against the input slice starting at this position\'s offset'
        # ridx stored alongside
        rid = [(l2, v2) for (l2, pj2), v2 in p.env.items() if isinstance(l2, int) and not pj2 and b.name_of(l2) and l2 != l and b.lty(l2) == 'usize'
               and isinstance(v2, tuple) and v2[0] == 'field' and has_call(v2, 'next')]
        if not rid:
            ok, why = False, 'the index of the matching rule is not recorded together with the new maximum'
    if ok:
        res.ok(R, 'strict-update', loc_of(b, fb), '(longest, rule) is replaced only when the new match is strictly longer; match taken at the start offset')
    else:
        res.bad(R, 'strict-update', loc_of(b, fb), why)
    # non-updating paths leave the maximum alone
    return b, inner, outer, longest


def loop_live_in(b, h):
    """named locals assigned in the loop but defined outside it as well (carried across iterations)"""
    blocks = b.loops()[h]
    out = set()
    for l, ds in b.defs().items():
        if b.name_of(l) and any(d[0] in blocks for d in ds) and any(d[0] not in blocks for d in ds):
            out.add(l)
    return out


def r92(facts, res):
    R = 'R9.2'
    bs = [b for b in facts.lib_bodies(['lrlex']) if b.name == 'state_matches']
    if len(bs) != 1:
        res.lost(R, 'state_matches not found')
        return
    b = bs[0]
    rows = {}
    for p in Walker(b, facts).run():
        if p.end[0] != 'return':
            continue
        emp = [v for c, v in p.conds if is_call(c, 'is_empty')]
        # `[] =>` / `len() == 0`
        for c, v in p.conds:
            if c[0] == 'bin' and c[1] in ('Eq', 'Ne') and isinstance(v, int) and (c[2] == ('const', 0) or c[3] == ('const', 0)) \
                    and term_has(c, lambda x: isinstance(x, tuple) and x and (x[0] == 'len' or is_call(x, 'len'))):
                emp.append(v if c[1] == 'Eq' else 1 - v)
        r = p.end[1]
        if emp == [1]:
            neg = r[0] == 'un' and r[1] == 'Not' and term_has(r, lambda x: isinstance(x, tuple) and len(x) > 3 and x[0] == 'field' and x[3] == 'exclusive')
            rows['no-states'] = neg
        elif emp == [0]:
            rows['states'] = is_call(r, 'contains') and term_has(r, lambda x: isinstance(x, tuple) and len(x) > 3 and x[0] == 'field' and x[3] == 'id')
            if not rows['states'] and is_call(r, 'any') and len(r[2]) == 2 and strip_ref(r[2][1])[0] == 'closure':
                # ids.iter().any(|id| state.id == *id): the predicate compares the element with the state's id
                cb = facts.bodies.get(strip_ref(r[2][1])[1])
                cps = [q for q in Walker(cb, facts, max_paths=8).run() if q.end[0] == 'return'] if cb is not None else []
                if len(cps) == 1:
                    e = cps[0].end[1]
                    rows['states'] = e[0] == 'bin' and e[1] == 'Eq' and any(term_has(x, lambda y: isinstance(y, tuple) and len(y) > 3 and y[0] == 'field' and y[3] == 'id') for x in (e[2], e[3])) \
                        and any(term_has(x, lambda y: y == ('param', 2)) and not term_has(x, lambda y: isinstance(y, tuple) and len(y) > 3 and y[0] == 'field' and y[3] == 'id') for x in (e[2], e[3]))
    if rows.get('no-states') and rows.get('states'):
        res.ok(R, 'applicability', loc_of(b), 'unqualified rule: active iff the state is not exclusive; qualified rule: active iff its list contains the state id')
    else:
        res.bad(R, 'applicability', loc_of(b), 'rule applicability is not (empty list -> !exclusive; else contains(state.id)): %s' % rows)


def r93(facts, res, ctx):
    R = 'R9.3'
    b, inner, outer, longest = ctx
    loops = b.loops()
    w = Walker(b, facts, max_paths=8192)
    w.widen_headers = set(loops) - {outer}
    w.widen_assigned = {h: loop_assigned(b, h) for h in w.widen_headers}
    ps = w.run(outer, stop=lambda x: x == outer or x not in loops[outer])
    ps = [p for p in ps if not (p.end[0] == 'loop' and p.end[1] != outer)]
    if w.overflow:
        res.lost(R, 'path bound exceeded')
        return None
    # the cursor: a named usize local that cycles update
    cyc = [p for p in ps if p.end in (('loop', outer), ('stop', outer))]
    exits = [p for p in ps if p not in cyc]
    cands = {}
    for p in cyc:
        for (l, pj), v in p.env.items():
            if isinstance(l, int) and not pj and b.name_of(l) and b.lty(l) == 'usize' and isinstance(v, tuple) and v[0] == 'bin' and v[1] == 'Add' \
                    and v[2] == ('uninit', l):
                cands.setdefault(l, []).append((p, v))
    if len(cands) != 1:
        res.bad(R, 'advance', loc_of(b, outer), 'cannot identify a single input offset advanced by the lexing loop (candidates: %s)' % [b.name_of(l) for l in cands])
        return None
    cur = list(cands)[0]
    probs = set()
    nadv = 0
    for p in cyc:
        v = p.env.get((cur, ()))
        if v is None:
            probs.add('a cycle of the lexing loop does not move the input offset')
            continue
        nadv += 1
        step = v[3]
        if not (step[0] == 'widen' and step[3] == longest):
            probs.add('the offset is advanced by %s, not by the longest match' % fmt_term(step)[:80])
        pos = [(c, val) for c, val in p.conds if c[0] == 'bin' and c[1] in ('Lt', 'Le', 'Eq', 'Ne') and term_has(c, lambda x: isinstance(x, tuple) and len(x) > 3 and x[0] == 'widen' and x[3] == longest)
               and term_has(c, lambda x: x == ('const', 0))]
        if not any((c[1] == 'Lt' and c[2] == ('const', 0) and val == 1) or (c[1] in ('Eq',) and val == 0) or (c[1] == 'Ne' and val == 1) or (c[1] == 'Le' and val == 0) for c, val in pos):
            probs.add('the offset can advance although the longest match is empty')
        # the emitted lexeme
        for e in p.calls(name='push'):
            lx = find_calls(e[3][1], 'new')
            for n_ in lx:
                if 'Lexeme' in n_[1] or 'lexeme' in n_[1].lower():
                    tok, start, ln = n_[2][0], n_[2][1], n_[2][2]
                    if not (ln[0] == 'widen' and ln[3] == longest):
                        probs.add('emitted lexeme length is not the longest match')
                    if start not in (('uninit', cur),) and not (start[0] == 'uninit' and b.lty(start[1]) == 'usize'):
                        probs.add('emitted lexeme does not start at the position\'s start offset')
                    if not has_call(tok, 'get_rule') and not term_has(tok, lambda x: isinstance(x, tuple) and len(x) > 3 and x[0] == 'field' and x[3] == 'tok_id'):
                        probs.add('emitted token id is not the chosen rule\'s')
            if find_variant(e[3][1], 'Err') is not None:
                probs.add('an error is pushed and lexing continues (must be a single lexing error)')
    for p in exits:
        if p.end[0] in ('stop', 'return'):
            errs = [e for e in p.calls(name='push') if find_variant(e[3][1], 'Err') is not None]
            if len(errs) > 1:
                probs.add('more than one error pushed on one exit')
    if probs:
        res.bad(R, 'tiling', loc_of(b, outer), '; '.join(sorted(probs)))
    else:
        res.ok(R, 'tiling', loc_of(b, outer), 'offset += longest only when longest > 0; lexeme = (rule token, start offset, longest); every error leaves the loop (%d cycles, %d exits)' % (nadv, len(exits)))
    return cyc


def r94(facts, res, ctx, cyc):
    R = 'R9.4'
    b, inner, outer, longest = ctx
    op = facts.adt('lrlex::parser::StartStateOperation')
    if not op:
        res.lost(R, 'StartStateOperation not found')
        return
    vn = {v['discr']: v['name'] for v in op['variants']}
    rows = {}
    for p in cyc:
        dv = [(c, v) for c, v in p.conds if c[0] == 'discr' and term_has(c, lambda x: is_call(x, 'target_state')) and isinstance(v, int)
              and c[1][0] != 'call']
        opv = [v for c, v in dv if (c[1][0] in ('deref', 'field')) and v in vn and not is_option_discr(c)]
        if not opv:
            continue
        kind = vn[opv[-1]]
        stack_ops = []
        for e in p.calls():
            if e[2] is None:
                continue
            st = e[2].get('self_ty') or ''
            if 'StartState' in st and st.startswith('alloc::vec::Vec<') and e[2]['name'] in ('clear', 'push', 'pop'):
                stack_ops.append(e[2]['name'])
        cnt = None
        for s_ in p.stores():
            v = s_[3]
            if isinstance(v, tuple) and v[0] == 'bin' and v[1] in ('Add', 'Sub') and v[3] == ('const', 1):
                cnt = v[1]
        head_same = None
        for c, v in p.conds:
            if c[0] == 'bin' and c[1] in ('Eq', 'Ne') and term_has(c, lambda x: isinstance(x, tuple) and len(x) > 3 and x[0] == 'field' and x[3] == 'id') and has_call(c, 'last_mut'):
                head_same = (v == 1) if c[1] == 'Eq' else (v == 0)
        gt1 = None
        for c, v in p.conds:
            if c[0] == 'bin' and c[1] in ('Lt', 'Le') and term_has(c, lambda x: x == ('const', 1)) and has_call(c, 'last_mut'):
                gt1 = (v == 1) if (c[1] == 'Lt' and c[2] == ('const', 1)) else None
        rows.setdefault(kind, []).append((tuple(stack_ops), cnt, head_same, gt1))
    probs = []
    rep = rows.get('ReplaceStack', [])
    if not rep or any(r[0] != ('clear', 'push') for r in rep):
        probs.append('ReplaceStack is not clear + push (%s)' % rep[:2])
    pu = rows.get('Push', [])
    if not pu or not any(r[1] == 'Add' and r[0] == () and r[2] is True for r in pu) or not any(r[0] == ('push',) and r[1] is None for r in pu):
        probs.append('Push is not: bump the count of an equal head, else push (%s)' % pu[:3])
    # ... and on EVERY path (not just on one): an equal head only has its count bumped, anything else pushes
    for r in pu:
        if r[2] is True and not (r[0] == () and r[1] == 'Add'):
            probs.append('Push onto an equal head does %s / count %s instead of only count+1' % (list(r[0]), r[1]))
        if r[2] is not True and r[0] != ('push',):
            probs.append('Push onto a different (or no) head does %s instead of one push' % (list(r[0]),))
    po = rows.get('Pop', [])
    if not po or not any(r[1] == 'Sub' and r[0] == () for r in po) or not any(r[0] in (('pop',), ('pop', 'push')) for r in po):
        probs.append('Pop is not: decrement a count > 1, else pop (re-seeding the initial state when empty) (%s)' % po[:4])
    for r in po:
        if r[3] is True and not (r[0] == () and r[1] == 'Sub'):
            probs.append('Pop with a count > 1 does %s / count %s instead of only count-1' % (list(r[0]), r[1]))
        if r[3] is not True and r[0] not in (('pop',), ('pop', 'push')):
            probs.append('Pop with a count of 1 does %s on some path: the entry must be removed unconditionally (re-seeding the initial state only when the stack became empty)' % (list(r[0]),))
    if probs:
        res.bad(R, 'stack-ops', loc_of(b, outer), '; '.join(probs))
    else:
        res.ok(R, 'stack-ops', loc_of(b, outer), 'Replace: clear+push; Push: count+1 on an equal head else push; Pop: count-1 when > 1 else pop (re-seed when empty)')


def is_option_discr(c):
    return False


def fmt_template(opaque):
    """decode the compiler's format template (a byte string: length-prefixed literal pieces, bytes >= 0x80 mark an argument)
    into a list of str pieces and the marker ARG; None if it is not of that form"""
    import ast
    try:
        data = ast.literal_eval(opaque)
    except Exception:
        return None
    if not isinstance(data, (bytes, bytearray)):
        return None
    out, i = [], 0
    while i < len(data):
        x = data[i]
        if x == 0:
            return out if i == len(data) - 1 else None
        if x >= 0x80:
            out.append(ARG)
            i += 1
            continue
        lit = data[i + 1:i + 1 + x]
        if len(lit) != x:
            return None
        try:
            out.append(lit.decode('utf-8'))
        except UnicodeDecodeError:
            return None
        i += 1 + x
    return None


ARG = object()


def r95(facts, res):
    """The regular expression handed to the regex engine for a rule is the user's text, GROUPED, behind an anchor at the current
    position: `\\A(?:` text `)`.  Without the group a top-level alternative `x|y` anchors only `x`; `y` then matches anywhere
    later in the remaining input and its end is taken as the length of a match at the current position."""
    R = 'R9.5'
    bs = [x for x in facts.lib_bodies(['lrlex']) if strip_generics(x.path) == 'lrlex::lexer::Rule::new']
    if len(bs) != 1:
        res.lost(R, 'lrlex::lexer::Rule::new not found')
        return
    b = bs[0]
    rb = [bb for bb, t in b.calls_named('new') if 'RegexBuilder' in (cpath(t) or '')]
    if len(rb) != 1:
        res.lost(R, 'expected one RegexBuilder::new in Rule::new, found %d' % len(rb))
        return
    templates = []
    for bi, blk in enumerate(b.blocks):
        for st in blk['stmts']:
            if st['k'] == 'assign' and 'use' in st['rv'] and 'const' in st['rv']['use'] and 'opaque' in st['rv']['use']['const'] \
                    and st['rv']['use']['const'].get('ty', '').startswith('&[u8;') and b.dominates(bi, rb[0]):
                t = fmt_template(st['rv']['use']['const']['opaque'])
                if t is not None and ARG in t:
                    templates.append((bi, t))
    if len(templates) != 1:
        res.lost(R, 'cannot read the format template from which Rule::new builds the regex (found %d candidates)' % len(templates))
        return
    bi, t = templates[0]
    if t.count(ARG) != 1:
        res.bad(R, 'regex-template', loc_of(b, bi), 'the regex template has %d holes' % t.count(ARG))
        return
    k = t.index(ARG)
    pre = ''.join(x for x in t[:k] if x is not ARG)
    post = ''.join(x for x in t[k + 1:] if x is not ARG)
    shown = pre + '{}' + post
    # unclosed groups in the prefix
    depth = 0
    i = 0
    while i < len(pre):
        if pre[i] == '\\':
            i += 2
            continue
        if pre[i] == '(':
            depth += 1
        elif pre[i] == ')':
            depth -= 1
        i += 1
    anchored = '\\A' in pre
    if not anchored:
        res.bad(R, 'regex-template', loc_of(b, bi), 'the rule regex `%s` is not anchored at the current position (\\A)' % shown)
    elif depth < 1 or not post.startswith(')'):
        res.bad(R, 'regex-template', loc_of(b, bi), 'the rule regex is built as `%s`: the user\'s text is not enclosed in a group, so the anchor binds only to its first '
                'top-level alternative; the others match anywhere later in the input' % shown)
    else:
        res.ok(R, 'regex-template', loc_of(b, bi), 'the rule regex is `%s`: anchored, user text grouped' % shown)


def r96(facts, res):
    """Syncing token ids reports, on either side, `None` exactly when nothing is missing.  Whether a "missing" result is None or
    Some(set) must be decided by an emptiness test (is_empty(), len == 0) - of the set itself or of the collection it is built
    from.  Deciding it by comparing two COUNTS (named rules that matched against entries of the map) equates "as many" with
    "the same": two rules with one name and one name without a rule cancel out."""
    R = 'R9.6'
    bs = [b for b in facts.lib_bodies(['lrlex']) if b.name == 'set_rule_ids_spanned' and b.kind != 'closure']
    if not bs:
        return res.lost(R, 'no implementation of LexerDef::set_rule_ids_spanned found')
    n = 0
    for b in bs:
        # the returned pair
        comps = None
        for bb, _i, st in b.stmts():
            if st['k'] == 'assign' and st['lhs']['l'] == 0 and not st['lhs']['p'] and st['rv'].get('agg') == 'tuple':
                comps = [op_local(o) for o in st['rv']['ops']]
        if not comps or len(comps) != 2:
            res.lost(R, '%s does not build its result pair here' % b.path)
            continue
        for ci, cl in enumerate(comps):
            key = 'none-iff-empty:%s' % ('missing_from_lexer', 'missing_from_parser')[ci]
            n += 1
            r, _p, _v = b.root(cl, through=(), stop_named=False)
            ds = b.defs().get(r, [])
            nones = [d[0] for d in ds if d[1] == 'stmt' and isinstance(d[2].get('agg'), dict) and d[2]['agg'].get('vname') == 'None']
            somes = [d[0] for d in ds if d[1] == 'stmt' and isinstance(d[2].get('agg'), dict) and d[2]['agg'].get('vname') == 'Some']
            if not nones or not somes:
                # e.g. built by a combinator (Some(set).filter(..)) - no None/Some decision in this body
                res.ok(R, key, loc_of(b), 'no explicit None/Some decision in this function (result built elsewhere)')
                res.note('R9.6: %s of %s is not built by an explicit None/Some choice; not decided' % (key, b.path))
                continue
            deciders = [sb for sb in b.control_deps_pd(nones[0]) if sb in b.control_deps_pd(somes[0])]
            deciders = [sb for sb in deciders if all(b.dominates(o, sb) for o in deciders)] or deciders
            if not deciders:
                res.bad(R, key, loc_of(b, nones[0]), 'cannot find the test that chooses between None and Some')
                continue
            sb = deciders[0]
            ol = op_local(b.term(sb)['on'])
            verdict, how = None, ''
            for d in b.defs().get(ol, []) if ol is not None else []:
                if d[1] == 'call' and cname(d[2]) == 'is_empty':
                    verdict, how = True, 'is_empty()'
                elif d[1] == 'stmt' and d[2].get('bin') in ('Eq', 'Ne', 'Gt', 'Lt', 'Ge', 'Le'):
                    def kconst(o):
                        k = op_const(o)
                        l = op_local(o)
                        for _ in range(3):
                            if k is not None or l is None:
                                break
                            dd = b.defs().get(l, [])
                            if len(dd) != 1 or dd[0][1] != 'stmt' or 'use' not in dd[0][2]:
                                break
                            k = op_const(dd[0][2]['use'])
                            l = op_local(dd[0][2]['use'])
                        return k
                    ks = [kconst(d[2]['a']), kconst(d[2]['b'])]
                    if any(k is not None and k.get('int') == 0 for k in ks):
                        verdict, how = True, 'a comparison with 0'
                    else:
                        verdict, how = False, 'a comparison of two counts (line %s)' % b.term(sb).get('line')
            if verdict is None:
                res.ok(R, key, loc_of(b, sb), 'decided by a test that is neither an emptiness test nor a comparison of counts (not analysed further)')
            elif verdict:
                res.ok(R, key, loc_of(b, sb), 'None is answered on %s' % how)
            else:
                res.bad(R, key, loc_of(b, sb), 'whether anything is missing is decided by %s, not by an emptiness test: "as many" is not "the same" '
                        '(two rules with one name and one name without a rule cancel out)' % how)
    res.floor(R, 'missing-name results', n, 2)


def r97(facts, res):
    """Start states are named by id: the initial state is "the one with id 0", a rule's target is "the one with this id".  The
    lookup must therefore compare the `id` field of the states with the id asked for; using the id as a POSITION in the list
    (`start_states.get(id)`) is the same thing only while the list happens to be dense and in id order - which `from_rules`
    (generated code, hand-built definitions) does not promise."""
    R = 'R9.7'
    bs = [b for b in facts.lib_bodies(['lrlex']) if b.name == 'get_start_state_by_id' and b.kind != 'closure']
    if not bs:
        return res.lost(R, 'get_start_state_by_id not found')
    for b in bs:
        key = 'by-id:%s' % strip_generics(b.path).split('::')[-2]
        bodies = [b] + list(facts.closures_of(b))
        ids = [i for i in range(1, b.arg_count + 1) if b.lty(i) == 'usize']
        if len(ids) != 1:
            res.lost(R, 'get_start_state_by_id: the id parameter not recognised')
            continue
        idp = ids[0]
        positional = []
        for bb, t in b.calls():
            nm = cname(t)
            if nm in ('get', 'get_mut', 'index', 'get_unchecked', 'nth', 'skip', 'split_at', 'swap_remove', 'remove'):
                for a in t['args'][1:]:
                    l = op_local(a)
                    if l is not None and b.root(l, stop_named=False)[0] == idp:
                        positional.append('line %s: the id is used as a position (`%s`)' % (t.get('line'), nm))
        compares = 0
        for x in bodies:
            for bb, i, st in x.stmts():
                if st['k'] != 'assign' or st['rv'].get('bin') not in ('Eq', 'Ne'):
                    continue
                hit = False
                for o in (st['rv']['a'], st['rv']['b']):
                    l = op_local(o)
                    if l is None:
                        continue
                    for _bb, kind, rv in x.defs().get(l, ()):
                        if kind == 'stmt':
                            pl = op_place(rv.get('use')) if isinstance(rv.get('use'), dict) else None
                            if pl is not None and any(isinstance(q, dict) and q.get('name') == 'id' for q in pl['p']):
                                hit = True
                if hit:
                    compares += 1
        if positional:
            res.bad(R, key, loc_of(b), '; '.join(positional[:2]) + ': a state is found by where it stands in the list, not by its id', {'function': b.path})
        elif not compares:
            res.bad(R, key, loc_of(b), 'no comparison of a state\'s `id` field with the id asked for', {'function': b.path})
        else:
            res.ok(R, key, loc_of(b), 'the state is searched by comparing its `id` field with the id asked for (%d comparison), the id is never used as a position' % compares)


def run(facts, res):
    r96(facts, res)
    r97(facts, res)
    r95(facts, res)
    ctx = r91(facts, res)
    r92(facts, res)
    if ctx:
        cyc = r93(facts, res, ctx)
        if cyc:
            r94(facts, res, ctx, cyc)
