"""C19 Byte offsets map to the right lines and columns, line extraction never fails (DESIGN.md §4 C19) - ONLY the clause
"the line-start table is never indexed out of bounds".

R19.1 every index / sub-slice of the line-start table (`NewlineCache::newlines`, a Vec<usize>) is within bounds on every path
      of every function of cfgrammar::newlinecache, and no usize subtraction inside an index expression can underflow.
      Proved per path with the linear bounds domain A10 from: the path's comparisons, the postconditions of
      slice::binary_search (Ok(j): j < len, Err(j): j <= len, over exactly the sub-slice searched), usize >= 0, and two
      table invariants (T1 the table is never empty, T2 its first entry is 0 so a search over the WHOLE table never
      answers Err(0)).
R19.2 the premises of T1/T2: `NewlineCache::new` builds the table as the one-element array [0]; every other function that
      obtains `&mut newlines` only hands it to `extend`/`push` (nothing removes, truncates, clears or overwrites).
"""
from mirlib import *
from linarith import *
from lrstep import loop_assigned

META = {
    'level': 'other',
    'explanation': 'Decides ONLY the no-out-of-bounds clause for the line-start table: each indexing expression into '
                   'NewlineCache::newlines is proved in range on every path by a small linear-integer argument (path comparisons '
                   '+ binary_search postconditions + two structurally checked table invariants). A necessary condition of "the '
                   'lines-of-span query never panics, including spans that end at a line start or at the end of the text". NOT '
                   'decided: that the line/column numbers and the returned byte ranges are the right ones, str slicing by the '
                   'returned offsets in the lexer/diagnostics, CR LF column counting.',
}

MOD = 'cfgrammar::newlinecache::'
TABLE_TY = ('alloc::vec::Vec<usize', '[usize]')


def is_table(t):
    """term denotes (a reference to) self.newlines"""
    t = canon_atom(t)
    return isinstance(t, tuple) and len(t) > 3 and t[0] == 'field' and t[3] == 'newlines'


def bs_payloads(t):
    """all (payload atom, 'Ok'|'Err', searched-slice term) occurring in term t"""
    out = []
    for x in subterms(t):
        if isinstance(x, tuple) and len(x) > 3 and x[0] == 'field' and isinstance(x[1], tuple) and x[1] and x[1][0] == 'downcast':
            inner = x[1][1]
            if isinstance(inner, tuple) and inner and inner[0] == 'call' and strip_generics(inner[1]).endswith('::binary_search'):
                out.append((x, x[1][3], inner[2][0]))
    return out


def cond_facts(ctx, c, v):
    if not (isinstance(c, tuple) and c and c[0] == 'bin' and isinstance(v, int)):
        return
    op = c[1]
    if op not in ('Eq', 'Ne', 'Lt', 'Le', 'Gt', 'Ge'):
        return
    A, B = lin(c[2]), lin(c[3])
    if not v:
        op = {'Eq': 'Ne', 'Ne': 'Eq', 'Lt': 'Ge', 'Ge': 'Lt', 'Le': 'Gt', 'Gt': 'Le'}[op]
    txt = '%s %s %s' % (fmt_term(c[2])[:50], op, fmt_term(c[3])[:50])
    if op == 'Eq':
        ctx.add_eq(A - B, txt)
    elif op == 'Ne':
        ctx.add_ne(A - B, txt)
    elif op == 'Lt':
        ctx.add_ge((B - A).plus(-1), txt)
    elif op == 'Le':
        ctx.add_ge(B - A, txt)
    elif op == 'Gt':
        ctx.add_ge((A - B).plus(-1), txt)
    elif op == 'Ge':
        ctx.add_ge(A - B, txt)


def r191(facts, res):
    R = 'R19.1'
    nidx = 0
    nfn = 0
    for b in facts.lib_bodies(['cfgrammar']):
        if not b.path.startswith(MOD) or b.from_expansion:
            continue
        nfn += 1
        w = Walker(b, facts, max_paths=4096)
        loops = b.loops()
        if loops:
            w.widen_headers = set(loops)
            w.widen_assigned = {h: loop_assigned(b, h) for h in loops}
        ps = w.run(0)
        if w.overflow:
            res.lost(R, 'path bound exceeded in %s' % b.path)
            continue
        per_site = {}
        for p in ps:
            for ei, e in enumerate(p.events):
                if e[0] != 'call' or not e[2] or e[2]['name'] not in ('index', 'index_mut', 'get_unchecked'):
                    continue
                st = e[2].get('self_ty') or ''
                if not st.startswith(TABLE_TY) or len(e[3]) != 2:
                    continue
                base, ix = e[3]
                # All conditions of the path are used, including those decided after the index: terms are pure functions of
                # the inputs, every execution reaching the index follows SOME enumerated path to its end (an execution that
                # would fail here is matched by a path for any value of the failed read), and the obligation is proved for
                # every path.
                ctx = Ctx()
                for c, v in p.conds:
                    cond_facts(ctx, c, v)
                # binary_search postconditions for every payload mentioned anywhere in the index expression or the conditions
                mention = [ix] + [c for c, v in p.conds]
                seenp = set()
                for m in mention:
                    for atom, which, sl in bs_payloads(m):
                        if atom in seenp:
                            continue
                        seenp.add(atom)
                        L = length_of(sl)
                        if which == 'Ok':
                            ctx.add_ge((L - Lin({atom: 1})).plus(-1), 'binary_search Ok(j): j < len of the searched slice')
                        else:
                            ctx.add_ge(L - Lin({atom: 1}), 'binary_search Err(j): j <= len of the searched slice')
                            if is_table(sl):
                                ctx.add_ge(Lin({atom: 1}).plus(-1), 'T2: the table starts with 0, so a search of the whole table never answers Err(0)')
                Lt = length_of(base)
                if is_table(base):
                    ctx.add_ge(Lt.plus(-1), 'T1: the table is never empty')
                # obligations
                obs = []
                v = ix if isinstance(ix, tuple) and ix and ix[0] == 'variant' else None
                if v is None:
                    E = lin(ix)
                    obs = [('index < len', (Lt - E).plus(-1))]
                    for a_, b_ in subs_of(ix):
                        obs.append(('no underflow in %s - %s' % (fmt_term(a_)[:30], fmt_term(b_)[:30]), lin(a_) - lin(b_)))
                elif v[3] == 'RangeFrom':
                    obs = [('start <= len', Lt - lin(v[4][0]))]
                    for a_, b_ in subs_of(v[4][0]):
                        obs.append(('no underflow', lin(a_) - lin(b_)))
                elif v[3] == 'Range':
                    obs = [('start <= end', lin(v[4][1]) - lin(v[4][0])), ('end <= len', Lt - lin(v[4][1]))]
                elif v[3] == 'RangeTo':
                    obs = [('end <= len', Lt - lin(v[4][0]))]
                elif v[3] == 'RangeFull':
                    obs = []
                else:
                    obs = [('unsupported index kind %s' % v[3], Lin(k=-1))]
                allf = ctx.ge + ctx.ne + [o[1] for o in obs]
                ctx.nonneg_atoms(allf)
                ctx.saturate()
                site = (e[1], b.term(e[1]).get('line'))
                for what, L in obs:
                    ok = ctx.proves(L)
                    rec = per_site.setdefault(site, {'ok': 0, 'bad': []})
                    if ok:
                        rec['ok'] += 1
                    else:
                        rec['bad'].append((what, fmt_term(ix)[:140], list(ctx.why)))
        for (bb, line), rec in sorted(per_site.items(), key=lambda x: (x[0][1] or 0, x[0][0])):
            nidx += 1
            key = '%s/index@L%s' % (strip_generics(b.path), sorted(k for k in per_site).index((bb, line)))
            if rec['bad']:
                what, ixs, why = rec['bad'][0]
                res.bad(R, key, loc_of(b, bb), 'cannot show `%s` for the index expression %s on %d path(s); facts available on the first: %s'
                        % (what, ixs, len(rec['bad']), '; '.join(why[:6]) or 'none'), {'function': b.path})
            else:
                res.ok(R, key, loc_of(b, bb), 'in bounds on all paths (%d obligations proved)' % rec['ok'])
    res.floor(R, 'index sites into the line-start table', nidx, 6)
    res.count('R19.1 functions of the module walked', nfn)


def r192(facts, res):
    R = 'R19.2'
    news = [b for b in facts.lib_bodies(['cfgrammar']) if b.path == MOD + 'NewlineCache::new']
    if len(news) != 1:
        res.lost(R, 'NewlineCache::new not found')
        return
    nb = news[0]
    arrays = [st for blk in nb.blocks for st in blk['stmts'] if st['k'] == 'assign' and st['rv'].get('agg') == 'array']
    aggs = [st for blk in nb.blocks for st in blk['stmts'] if st['k'] == 'assign' and isinstance(st['rv'].get('agg'), dict)
            and st['rv']['agg'].get('adt', '').endswith('NewlineCache')]
    ok = len(arrays) == 1 and len(arrays[0]['rv']['ops']) >= 1 and arrays[0]['rv']['ops'][0].get('const', {}).get('int') == 0 \
        and len(aggs) == 1 and bool(nb.calls_named('box_assume_init_into_vec_unsafe') or nb.calls_named('into_vec') or nb.calls_named('from_elem'))
    if ok:
        res.ok(R, 'new-starts-with-0', loc_of(nb), 'the table is created as the array %s' % [o.get('const', {}).get('int') for o in arrays[0]['rv']['ops']])
    else:
        res.bad(R, 'new-starts-with-0', loc_of(nb), 'NewlineCache::new does not create the line-start table as a non-empty array whose first entry is 0 (premise of T1/T2)')
    # who may mutate the table
    nm = 0
    for b in facts.lib_bodies(['cfgrammar', 'lrlex', 'lrpar', 'lrtable']):
        if b.from_expansion:
            continue
        for bb, t in b.calls():
            for a in t['args']:
                l = op_local(a)
                if l is None or not b.lty(l).startswith('&mut alloc::vec::Vec<usize'):
                    continue
                r, projs, via = b.op_root(a)
                if not any(isinstance(q, dict) and q.get('name') == 'newlines' for pl in projs for q in pl):
                    continue
                nm += 1
                key = 'mutator:%s/%s' % (strip_generics(b.path), cname(t))
                if cname(t) in ('extend', 'push', 'extend_from_slice', 'reserve'):
                    res.ok(R, key, loc_of(b, bb), 'only grows the table')
                else:
                    res.bad(R, key, loc_of(b, bb), '`%s` is applied to the line-start table: T1/T2 (never empty, first entry 0) no longer follow from construction' % cname(t))
        # direct stores into the field
        for bi, blk in enumerate(b.blocks):
            for st in blk['stmts']:
                if st['k'] == 'assign' and any(isinstance(q, dict) and q.get('name') == 'newlines' for q in st['lhs']['p']) \
                        and b.path.startswith(MOD):
                    res.bad(R, 'store:%s' % strip_generics(b.path), loc_of(b, bi), 'the line-start table is overwritten by assignment')
    res.floor(R, 'mutators of the line-start table', nm, 1)


def run(facts, res):
    r191(facts, res)
    r192(facts, res)
