"""C19 Byte offsets map to the right lines and columns, line extraction never fails (DESIGN.md §4 C19) - ONLY the clause
"the line-start table is never indexed out of bounds".

R19.1 every index / sub-slice of the line-start table (`NewlineCache::newlines`, a Vec<usize>) is within bounds on every path
      of every function of cfgrammar::newlinecache, and no usize subtraction inside an index expression can underflow.
      Proved per path with the linear bounds domain A10 from: the path's comparisons, the postconditions of
      slice::binary_search (Ok(j): j < len, Err(j): j <= len, over exactly the sub-slice searched), usize >= 0, and two
      table invariants (T1 the table is never empty, T2 its first entry is 0 so a search over the WHOLE table never
      answers Err(0)).
R19.3 the character loop of byte_to_line_num_and_col_num, read as a finite transducer over {CR, LF, other}, counts every character
      except an LF that immediately follows a CR (finite-model comparison; LF only as the last character of a line)
R19.5 no byte offset that reaches Span::new or a slice bound is formed as `.. + line.len() + 1` from an item of str::lines()
      (lines() strips CR LF as well as LF)
R19.6 every library construction of a lexer hands over a line table built from exactly the lexer's text (from_str(text), or pieces that
      provably tile it)
R19.2 the premises of T1/T2: `NewlineCache::new` builds the table as the one-element array [0]; every other function that
      obtains `&mut newlines` only hands it to `extend`/`push` (nothing removes, truncates, clears or overwrites).
"""
from mirlib import *
from linarith import *
from lrstep import loop_assigned

META = {
    'level': 'other',
    'explanation': 'Decides ONLY the no-out-of-bounds clause for the line-start table: each indexing expression into '
                   'NewlineCache::newlines is proved in range on every path by a small linear-integer argument (path comparisons '
                   '+ binary_search postconditions + two structurally checked table invariants). A necessary condition of "the '
                   'lines-of-span query never panics, including spans that end at a line start or at the end of the text". NOT '
                   'decided: that the line numbers and the returned byte ranges are the right ones, str slicing by the '
                   'returned offsets in the lexer/diagnostics. The CR LF clause of column counting IS decided (R19.3, transducer comparison).',
}

MOD = 'cfgrammar::newlinecache::'
TABLE_TY = ('alloc::vec::Vec<usize', '[usize]')


def is_table(t):
    """term denotes (a reference to) self.newlines"""
    t = canon_atom(t)
    return isinstance(t, tuple) and len(t) > 3 and t[0] == 'field' and t[3] == 'newlines'


def bs_payloads(t):
    """all (payload atom, 'Ok'|'Err', searched-slice term) occurring in term t"""
    out = []
    for x in subterms(t):
        if isinstance(x, tuple) and len(x) > 3 and x[0] == 'field' and isinstance(x[1], tuple) and x[1] and x[1][0] == 'downcast':
            inner = x[1][1]
            if isinstance(inner, tuple) and inner and inner[0] == 'call' and strip_generics(inner[1]).endswith('::binary_search'):
                out.append((x, x[1][3], inner[2][0]))
    return out


def cond_facts(ctx, c, v):
    if not (isinstance(c, tuple) and c and c[0] == 'bin' and isinstance(v, int)):
        return
    op = c[1]
    if op not in ('Eq', 'Ne', 'Lt', 'Le', 'Gt', 'Ge'):
        return
    A, B = lin(c[2]), lin(c[3])
    if not v:
        op = {'Eq': 'Ne', 'Ne': 'Eq', 'Lt': 'Ge', 'Ge': 'Lt', 'Le': 'Gt', 'Gt': 'Le'}[op]
    txt = '%s %s %s' % (fmt_term(c[2])[:50], op, fmt_term(c[3])[:50])
    if op == 'Eq':
        ctx.add_eq(A - B, txt)
    elif op == 'Ne':
        ctx.add_ne(A - B, txt)
    elif op == 'Lt':
        ctx.add_ge((B - A).plus(-1), txt)
    elif op == 'Le':
        ctx.add_ge(B - A, txt)
    elif op == 'Gt':
        ctx.add_ge((A - B).plus(-1), txt)
    elif op == 'Ge':
        ctx.add_ge(A - B, txt)


def r191(facts, res):
    R = 'R19.1'
    nidx = 0
    nfn = 0
    for b in facts.lib_bodies(['cfgrammar']):
        if not b.path.startswith(MOD) or b.from_expansion:
            continue
        nfn += 1
        w = Walker(b, facts, max_paths=4096)
        loops = b.loops()
        if loops:
            w.widen_headers = set(loops)
            w.widen_assigned = {h: loop_assigned(b, h) for h in loops}
        ps = w.run(0)
        if w.overflow:
            res.lost(R, 'path bound exceeded in %s' % b.path)
            continue
        per_site = {}
        for p in ps:
            for ei, e in enumerate(p.events):
                if e[0] == 'assert' and e[4] == 'BoundsCheck':
                    # built-in indexing of a slice by a number (`rest[j + 1]` with `rest = &self.newlines[a..]`): MIR has no call,
                    # only `assert Lt(index, len(slice))`; it is an index site of the table when the slice is a view of it
                    c = e[2]
                    if not (isinstance(c, tuple) and len(c) == 4 and c[0] == 'bin' and c[1] == 'Lt' and isinstance(c[3], tuple) and c[3] and c[3][0] == 'len'):
                        if c is None or term_has(c, is_table):
                            per_site.setdefault((e[1], b.term(e[1]).get('line')), {'ok': 0, 'bad': []})['bad'].append(('bounds check of unknown shape', fmt_term(c)[:140] if c else '?', []))
                        continue
                    if not term_has(c[3], is_table):
                        continue
                    ix, base = c[2], c[3][1]
                elif e[0] != 'call' or not e[2] or e[2]['name'] not in ('index', 'index_mut', 'get_unchecked'):
                    continue
                else:
                    st = e[2].get('self_ty') or ''
                    if not st.startswith(TABLE_TY) or len(e[3]) != 2:
                        continue
                    base, ix = e[3]
                # All conditions of the path are used, including those decided after the index: terms are pure functions of
                # the inputs, every execution reaching the index follows SOME enumerated path to its end (an execution that
                # would fail here is matched by a path for any value of the failed read), and the obligation is proved for
                # every path.
                ctx = Ctx()
                for c, v in p.conds:
                    cond_facts(ctx, c, v)
                # binary_search postconditions for every payload mentioned anywhere in the index expression or the conditions
                mention = [ix] + [c for c, v in p.conds]
                seenp = set()
                for m in mention:
                    for atom, which, sl in bs_payloads(m):
                        if atom in seenp:
                            continue
                        seenp.add(atom)
                        L = length_of(sl)
                        if which == 'Ok':
                            ctx.add_ge((L - Lin({atom: 1})).plus(-1), 'binary_search Ok(j): j < len of the searched slice')
                        else:
                            ctx.add_ge(L - Lin({atom: 1}), 'binary_search Err(j): j <= len of the searched slice')
                            if is_table(sl):
                                ctx.add_ge(Lin({atom: 1}).plus(-1), 'T2: the table starts with 0, so a search of the whole table never answers Err(0)')
                Lt = length_of(base)
                if is_table(base):
                    ctx.add_ge(Lt.plus(-1), 'T1: the table is never empty')
                # obligations
                obs = []
                v = ix if isinstance(ix, tuple) and ix and ix[0] == 'variant' else None
                if v is None:
                    E = lin(ix)
                    obs = [('index < len', (Lt - E).plus(-1))]
                    for a_, b_ in subs_of(ix):
                        obs.append(('no underflow in %s - %s' % (fmt_term(a_)[:30], fmt_term(b_)[:30]), lin(a_) - lin(b_)))
                elif v[3] == 'RangeFrom':
                    obs = [('start <= len', Lt - lin(v[4][0]))]
                    for a_, b_ in subs_of(v[4][0]):
                        obs.append(('no underflow', lin(a_) - lin(b_)))
                elif v[3] == 'Range':
                    obs = [('start <= end', lin(v[4][1]) - lin(v[4][0])), ('end <= len', Lt - lin(v[4][1]))]
                elif v[3] == 'RangeTo':
                    obs = [('end <= len', Lt - lin(v[4][0]))]
                elif v[3] == 'RangeFull':
                    obs = []
                else:
                    obs = [('unsupported index kind %s' % v[3], Lin(k=-1))]
                allf = ctx.ge + ctx.ne + [o[1] for o in obs]
                ctx.nonneg_atoms(allf)
                ctx.saturate()
                site = (e[1], b.term(e[1]).get('line'))
                for what, L in obs:
                    ok = ctx.proves(L)
                    rec = per_site.setdefault(site, {'ok': 0, 'bad': []})
                    if ok:
                        rec['ok'] += 1
                    else:
                        rec['bad'].append((what, fmt_term(ix)[:140], list(ctx.why)))
        for (bb, line), rec in sorted(per_site.items(), key=lambda x: (x[0][1] or 0, x[0][0])):
            nidx += 1
            key = '%s/index@L%s' % (strip_generics(b.path), sorted(k for k in per_site).index((bb, line)))
            if rec['bad']:
                what, ixs, why = rec['bad'][0]
                res.bad(R, key, loc_of(b, bb), 'cannot show `%s` for the index expression %s on %d path(s); facts available on the first: %s'
                        % (what, ixs, len(rec['bad']), '; '.join(why[:6]) or 'none'), {'function': b.path})
            else:
                res.ok(R, key, loc_of(b, bb), 'in bounds on all paths (%d obligations proved)' % rec['ok'])
    res.floor(R, 'index sites into the line-start table', nidx, 3)
    res.count('R19.1 functions of the module walked', nfn)


def r192(facts, res):
    R = 'R19.2'
    news = [b for b in facts.lib_bodies(['cfgrammar']) if b.path == MOD + 'NewlineCache::new']
    if len(news) != 1:
        res.lost(R, 'NewlineCache::new not found')
        return
    nb = news[0]
    arrays = [st for blk in nb.blocks for st in blk['stmts'] if st['k'] == 'assign' and st['rv'].get('agg') == 'array']
    aggs = [st for blk in nb.blocks for st in blk['stmts'] if st['k'] == 'assign' and isinstance(st['rv'].get('agg'), dict)
            and st['rv']['agg'].get('adt', '').endswith('NewlineCache')]
    ok = len(arrays) == 1 and len(arrays[0]['rv']['ops']) >= 1 and arrays[0]['rv']['ops'][0].get('const', {}).get('int') == 0 \
        and len(aggs) == 1 and bool(nb.calls_named('box_assume_init_into_vec_unsafe') or nb.calls_named('into_vec') or nb.calls_named('from_elem'))
    if ok:
        res.ok(R, 'new-starts-with-0', loc_of(nb), 'the table is created as the array %s' % [o.get('const', {}).get('int') for o in arrays[0]['rv']['ops']])
    else:
        res.bad(R, 'new-starts-with-0', loc_of(nb), 'NewlineCache::new does not create the line-start table as a non-empty array whose first entry is 0 (premise of T1/T2)')
    # who may mutate the table
    nm = 0
    for b in facts.lib_bodies(['cfgrammar', 'lrlex', 'lrpar', 'lrtable']):
        if b.from_expansion:
            continue
        for bb, t in b.calls():
            for a in t['args']:
                l = op_local(a)
                if l is None or not b.lty(l).startswith('&mut alloc::vec::Vec<usize'):
                    continue
                r, projs, via = b.op_root(a)
                if not any(isinstance(q, dict) and q.get('name') == 'newlines' for pl in projs for q in pl):
                    continue
                nm += 1
                key = 'mutator:%s/%s' % (strip_generics(b.path), cname(t))
                if cname(t) in ('extend', 'push', 'extend_from_slice', 'reserve'):
                    res.ok(R, key, loc_of(b, bb), 'only grows the table')
                else:
                    res.bad(R, key, loc_of(b, bb), '`%s` is applied to the line-start table: T1/T2 (never empty, first entry 0) no longer follow from construction' % cname(t))
        # direct stores into the field
        for bi, blk in enumerate(b.blocks):
            for st in blk['stmts']:
                if st['k'] == 'assign' and any(isinstance(q, dict) and q.get('name') == 'newlines' for q in st['lhs']['p']) \
                        and b.path.startswith(MOD):
                    res.bad(R, 'store:%s' % strip_generics(b.path), loc_of(b, bi), 'the line-start table is overwritten by assignment')
    res.floor(R, 'mutators of the line-start table', nm, 1)


def r193(facts, res):
    """Column counting as a finite transducer.  The loop of byte_to_line_num_and_col_num that walks the characters of the line is
    read as a machine: state = its loop-carried non-counter locals, input = the class of the character (CR, LF, other), output =
    whether the column counter is incremented.  It must be bisimilar to the specification `increment on every character except
    an LF that immediately follows a CR` on all inputs in which LF (the line terminator) can only be the last character."""
    R = 'R19.3'
    # the loop over the characters of the line: in the function itself or in a closure of it (`.map(|line_num| { .. })`)
    def char_loops(b):
        lp = b.loops()
        return [h for h in lp if any(('CharIndices' in (callee_of(t).get('self_ty') or '') or 'str::iter::Chars' in (callee_of(t).get('self_ty') or ''))
                                     for _bb, t in b.calls_named('next', lp[h]))]
    bs = [b for b in facts.lib_bodies(['cfgrammar']) if b.path.startswith(MOD + 'NewlineCache::byte_to_line_num_and_col_num') and char_loops(b)]
    if len(bs) != 1 or len(char_loops(bs[0])) != 1:
        res.lost(R, 'the character loop of byte_to_line_num_and_col_num was not found (%d candidate bodies with a loop over characters)' % len(bs))
        return
    b = bs[0]
    loops = b.loops()
    h = char_loops(b)[0]
    carried = loop_assigned(b, h)
    w = Walker(b, facts, max_paths=2048)
    ps = [p for p in w.run(h, stop=lambda x: x not in loops[h]) if p.end[0] in ('loop', 'stop', 'return')]
    if w.overflow or not ps:
        res.lost(R, 'cannot enumerate the character loop')
        return
    # genuinely loop-carried named locals: their value at the loop header is READ on some path
    def read_at_header(l):
        for p in ps:
            for c, v in p.conds:
                if term_has(c, lambda x: x == ('uninit', l)):
                    return True
            for k, t in p.env.items():
                if isinstance(t, tuple) and term_has(t, lambda x: x == ('uninit', l)) and t != ('uninit', l):
                    return True
        return False
    named = [l for l in carried if b.name_of(l) and read_at_header(l)]
    counters = [l for l in named if b.lty(l) in ('usize', 'u64', 'u32')]
    states = [l for l in named if l not in counters and (b.lty(l) in ('bool', 'char', 'u8') or b.lty(l).startswith(('core::option::Option<char', 'core::option::Option<bool', 'core::option::Option<u8')))]
    if len(counters) != 1:
        res.lost(R, 'expected one column counter in the character loop, found %s' % [b.name_of(l) for l in counters])
        return
    col = counters[0]

    class Unk(Exception):
        pass

    def is_char(t):
        # the char component of the (offset, char) pair the iterator yields
        t2 = t
        while isinstance(t2, tuple) and t2 and t2[0] in ('ref', 'deref'):
            t2 = t2[1]
        return isinstance(t2, tuple) and len(t2) > 2 and t2[0] == 'field' and t2[2] == 1 and item_payload(t2[1])

    def item_payload(t):
        while isinstance(t, tuple) and t and t[0] in ('ref', 'deref'):
            t = t[1]
        return isinstance(t, tuple) and len(t) > 3 and t[0] == 'field' and isinstance(t[1], tuple) and t[1] and t[1][0] == 'downcast' \
            and isinstance(t[1][1], tuple) and t[1][1] and t[1][1][0] == 'call' and strip_generics(t[1][1][1]).split('::')[-1] == 'next'

    def ev(t, st, ch):
        while isinstance(t, tuple) and t and t[0] in ('ref', 'deref'):
            t = t[1]
        if not isinstance(t, tuple) or not t:
            raise Unk()
        if t[0] == 'const':
            return t[1]
        if t[0] == 'uninit' and t[1] in st:
            return st[t[1]]
        if is_char(t):
            return ch
        if t[0] == 'variant':
            return (t[3],) + tuple(ev(x, st, ch) for x in t[4])
        if t[0] == 'bin' and t[1] in ('Eq', 'Ne'):
            a, d = ev(t[2], st, ch), ev(t[3], st, ch)
            return int((a == d) == (t[1] == 'Eq'))
        if t[0] == 'bin' and t[1] in ('BitAnd', 'BitOr'):
            a, d = ev(t[2], st, ch), ev(t[3], st, ch)
            return int(bool(a) and bool(d)) if t[1] == 'BitAnd' else int(bool(a) or bool(d))
        if t[0] == 'not':
            return int(not ev(t[1], st, ch))
        raise Unk()

    # initial state: constants assigned to the state locals in blocks dominating the loop header
    init = {}
    for l in states:
        vals = []
        for bb, kind, rv in b.defs().get(l, []):
            if bb in loops[h] or not b.dominates(bb, h) or kind != 'stmt':
                continue
            if 'use' in rv and 'const' in rv['use']:
                vals.append(rv['use']['const'].get('int'))
            elif isinstance(rv.get('agg'), dict):
                vals.append((rv['agg'].get('vname'),) + tuple(o.get('const', {}).get('int') for o in rv['ops']))
        if len(vals) != 1:
            res.lost(R, 'cannot read the initial value of the loop state `%s`' % b.name_of(l))
            return
        init[l] = vals[0]

    CR, LF, OTHER = 13, 10, 120
    def step(st, ch):
        """-> (set of (new state tuple, increment)) over all loop paths consistent with (st, ch)"""
        outs = set()
        for p in ps:
            sat = True
            for c, v in p.conds:
                if c[0] == 'discr' and isinstance(c[1], tuple) and c[1] and c[1][0] == 'call' and strip_generics(c[1][1]).split('::')[-1] == 'next':
                    if v == 0:
                        sat = False     # the iterator is exhausted: no character is processed on this path
                        break
                    continue
                try:
                    x = ev(c, st, ch)
                except Unk:
                    continue
                if isinstance(v, int) and x != v:
                    sat = False
                    break
                if isinstance(v, tuple) and v and v[0] == 'ne' and x in v[1]:
                    sat = False
                    break
            if not sat:
                continue
            fin = p.env.get((col, ()), ('uninit', col))
            inc = None
            if fin == ('uninit', col):
                inc = 0
            elif fin[0] == 'bin' and fin[1] == 'Add' and ((fin[2] == ('uninit', col) and fin[3] == ('const', 1)) or (fin[3] == ('uninit', col) and fin[2] == ('const', 1))):
                inc = 1
            else:
                raise Unk()
            ns = {}
            for l in states:
                t = p.env.get((l, ()), ('uninit', l))
                ns[l] = ev(t, st, ch)
            outs.add((tuple(sorted(ns.items())), inc))
        return outs

    bad = []
    seen = set()
    todo = [(tuple(sorted(init.items())), False)]
    npairs = 0
    try:
        while todo:
            cst, prev_cr = todo.pop()
            if (cst, prev_cr) in seen:
                continue
            seen.add((cst, prev_cr))
            st = dict(cst)
            for ch, cname_ in ((CR, 'CR'), (LF, 'LF'), (OTHER, 'another character')):
                outs = step(st, ch)
                npairs += 1
                if not outs:
                    bad.append('no path of the loop handles %s in state %s' % (cname_, {b.name_of(k): v for k, v in st.items()}))
                    continue
                want = 0 if (prev_cr and ch == LF) else 1
                incs = {i for _s, i in outs}
                if incs != {want}:
                    bad.append('%s %s: the column counter is advanced by %s, the specification says %d' % (
                        cname_, 'right after a CR' if prev_cr else 'not preceded by a CR', sorted(incs), want))
                if ch != LF:
                    nss = {s_ for s_, _i in outs}
                    if len(nss) != 1:
                        bad.append('the loop state after %s is not determined' % cname_)
                    for s_ in nss:
                        todo.append((s_, ch == CR))
            if len(seen) > 64:
                bad.append('state space of the loop does not close')
                break
    except Unk:
        res.lost(R, 'the character loop uses a construct the transducer reading does not understand')
        return
    if bad:
        res.bad(R, 'column-transducer', loc_of(b, h), '; '.join(sorted(set(bad))[:3]), {'function': b.path})
    else:
        res.ok(R, 'column-transducer', loc_of(b, h), 'bisimilar to "count every character except an LF right after a CR": %d (state, previous-was-CR) pairs x 3 character classes over %d loop paths'
               % (len(seen), len(ps)))


LINE_CARRIERS = ('peekable', 'enumerate', 'into_iter', 'iter', 'collect', 'rev', 'skip', 'by_ref', 'fuse', 'zip', 'take', 'chain', 'copied', 'cloned')


def lines_item_lens(b):
    """dest locals of `str::len(x)` calls where x is an item of a `str::lines()` iterator - directly, through adaptors
    (peekable, enumerate, ..) or through a collection the lines were collected into"""
    carriers = set()
    for bb, t in b.calls_named('lines'):
        if 'str' in (cpath(t) or ''):
            carriers.add(t['dest']['l'])
    if not carriers:
        return set()
    changed = True
    while changed:
        changed = False
        for bb in b.reachable():
            for st in b.blocks[bb]['stmts']:
                if st['k'] == 'assign' and not st['lhs']['p']:
                    rv = st['rv']
                    src = op_place(rv['use']) if 'use' in rv else rv.get('ref')
                    if src is not None and src['l'] in carriers and st['lhs']['l'] not in carriers:
                        carriers.add(st['lhs']['l'])
                        changed = True
            t = b.term(bb)
            if t['k'] == 'call' and t['args'] and cname(t) in LINE_CARRIERS and op_local(t['args'][0]) in carriers and t['dest']['l'] not in carriers:
                carriers.add(t['dest']['l'])
                changed = True
    nexts = {t['dest']['l'] for bb, t in b.calls(lambda t: cname(t) in ('next', 'peek', 'next_back', 'last', 'nth')) if t['args'] and b.op_root(t['args'][0], stop_named=False)[0] in carriers}
    out = set()
    for bb, t in b.calls_named('len'):
        c = callee_of(t)
        if not c or 'core::str' not in c['path'] or not t['args']:
            continue
        r, projs, via = b.op_root(t['args'][0], stop_named=False)
        if r in nexts:
            out.add(t['dest']['l'])
    return out


def r195(facts, res):
    """`str::lines()` strips "\\r\\n" as well as "\\n".  A byte offset computed as `.. + line.len() + 1` from a line obtained that way
    is right for LF text only: on CR LF text it points at the LF of the terminator, every later line is mislocated, and the
    slicing arithmetic built on it can underflow.  No offset that reaches Span::new or a slice bound may be formed like that."""
    R = 'R19.5'
    n = 0
    nbad = 0
    for b in facts.lib_bodies(['cfgrammar', 'lrlex', 'lrpar', 'lrtable']):
        if b.from_expansion:
            continue
        # len() calls on a &str that is the item of a Lines iterator (possibly Peekable / Enumerate ..)
        seeds = [(None, l) for l in sorted(lines_item_lens(b))]
        if not seeds:
            continue
        n += len(seeds)
        # forward: locals holding (.. + len)
        tainted = {l: 'len' for _bb, l in seeds}
        plus1 = set()
        changed = True
        while changed:
            changed = False
            for bb in sorted(b.reachable()):
                for st in b.blocks[bb]['stmts']:
                    if st['k'] != 'assign' or st['lhs']['p']:
                        continue
                    lhs = st['lhs']['l']
                    rv = st['rv']
                    srcs = []
                    if 'use' in rv:
                        pl = op_place(rv['use'])
                        if pl:
                            srcs.append(pl['l'])
                    if 'bin' in rv and rv['bin'] in ('Add', 'AddWithOverflow', 'AddUnchecked'):
                        la, lb = op_local(rv['a']), op_local(rv['b'])
                        ca = rv['a'].get('const', {}).get('int') if isinstance(rv['a'], dict) else None
                        cb = rv['b'].get('const', {}).get('int') if isinstance(rv['b'], dict) else None
                        for lx, cx in ((la, cb), (lb, ca)):
                            if lx in tainted:
                                if cx == 1 and lhs not in plus1:
                                    plus1.add(lhs)
                                    changed = True
                                srcs.append(lx)
                    for sx in srcs:
                        if sx in tainted and lhs not in tainted:
                            tainted[lhs] = 'flow'
                            changed = True
                        if sx in plus1 and lhs not in plus1:
                            plus1.add(lhs)
                            changed = True
        # sinks: Span::new arguments and Range/RangeFrom aggregates
        for bb, t in b.calls():
            if (cpath(t) or '').endswith('span::Span::new'):
                for a in t['args']:
                    if op_local(a) in plus1:
                        nbad += 1
                        res.bad(R, 'lines-plus-one:%s' % strip_generics(b.path), loc_of(b, bb), 'a Span bound is computed as `.. + line.len() + 1` with `line` taken from str::lines(): lines() also strips '
                                '"\\r\\n", so on CR LF text the offset lands on the LF of the terminator (later lines are mislocated; the arithmetic around it can underflow)', {'function': b.path})
        for bb in sorted(b.reachable()):
            for st in b.blocks[bb]['stmts']:
                if st['k'] == 'assign' and isinstance(st['rv'].get('agg'), dict) and st['rv']['agg'].get('adt', '').startswith('core::ops::range::Range'):
                    if any(op_local(o) in plus1 for o in st['rv']['ops']):
                        nbad += 1
                        res.bad(R, 'lines-plus-one-slice:%s' % strip_generics(b.path), loc_of(b, bb), 'a slice bound is computed as `.. + line.len() + 1` with `line` taken from str::lines() (wrong on CR LF text)', {'function': b.path})
    if nbad == 0:
        res.ok(R, 'no-lines-plus-one', '', 'no byte offset is formed as `line.len() + 1` from a str::lines() item (%d length reads of such items examined)' % n)
    res.floor(R, 'length reads of str::lines() items', n, 1)


def r196(facts, res):
    """The line table a lexer answers position queries from describes the lexer's OWN input: every library call of
    LRNonStreamingLexer::new(text, lexemes, cache) passes a cache built from exactly `text` - NewlineCache::from_str(text), or a cache
    fed piece by piece where the pieces provably tile the text (each piece starts where the previous one ended, a cursor records
    that end on every way round and out of the loop, and the last piece runs to the end)."""
    R = 'R19.6'
    from lrstep import is_call, widening_walker
    n = 0
    for b in facts.lib_bodies(['lrlex']):
        if b.from_expansion:
            continue
        sites = [(bb, t) for bb, t in b.calls_named('new') if 'LRNonStreamingLexer' in (cpath(t) or '') and len(t['args']) == 3]
        if not sites:
            continue
        loops = b.loops()
        w = widening_walker(b, facts, max_paths=20000)
        ps = w.run(0)
        if w.overflow:
            res.lost(R, 'path explosion in %s' % b.path)
            continue
        for bb, t in sites:
            n += 1
            key = 'lexer-cache:%s@%d' % (strip_generics(b.path).split('::')[-1], [x[0] for x in sites].index(bb))
            evs = [e for p in ps for e in p.events if e[0] == 'call' and e[1] == bb]
            if not evs:
                res.lost(R, 'no path reaches the construction of the lexer at line %s' % t.get('line'))
                continue
            whole = all(is_call(strip_ref(e[3][2]), 'unwrap') and is_call(strip_ref(strip_ref(e[3][2])[2][0]), 'from_str')
                        and strip_ref(strip_ref(strip_ref(e[3][2])[2][0])[2][0]) == strip_ref(e[3][0]) for e in evs)
            if whole:
                res.ok(R, key, loc_of(b, bb), 'the cache is NewlineCache::from_str of the very text handed to the lexer')
                continue
            why = pieces_tile(facts, b, t, loops)
            if why is None:
                res.ok(R, key, loc_of(b, bb), 'the cache is fed piece by piece and the pieces tile the text')
            else:
                res.bad(R, key, loc_of(b, bb), 'the line table handed to the lexer is not built from exactly the lexer\'s text: %s - positions (line/column, lines of a span) are then '
                        'computed for a different text, or the queries fail' % why, {'function': b.path})
    res.floor(R, 'library constructions of a lexer with its line table', n, 2)


def pieces_tile(facts, b, t, loops):
    """None when the feeds into the cache handed over at call `t` tile the text, else the reason they may not"""
    from lrstep import is_call, widening_walker, loop_assigned
    L = b.op_root(t['args'][2], stop_named=True)[0]
    text = b.op_root(t['args'][0], stop_named=True)[0]
    ds = [d for d in b.defs().get(L, []) if d[1] == 'call']
    if len(ds) != 1 or cname(ds[0][2]) != 'new' or 'NewlineCache' not in (cpath(ds[0][2]) or ''):
        return 'the cache is neither from_str(text) nor a fresh NewlineCache::new() fed in this function'
    feeds = [(bb, ft) for bb, ft in b.calls_named('feed') if ft['args'] and b.op_root(ft['args'][0], stop_named=True)[0] == L]
    if not feeds:
        return 'nothing is fed into the cache'

    def piece(term):
        """(start, end or None) of `text[start..end]` / `text[start..]`, else None"""
        x = strip_ref(term)
        if is_call(x, 'index') and len(x[2]) == 2 and strip_ref(x[2][0]) in (('param', text), ('uninit', text)) and x[2][1][0] == 'variant':
            v = x[2][1]
            if v[3] == 'Range' and len(v[4]) == 2:
                return v[4][0], v[4][1]
            if v[3] == 'RangeFrom' and len(v[4]) == 1:
                return v[4][0], None
        if x in (('param', text), ('uninit', text)):
            return ('const', 0), None
        return None
    inloop = [h for h in loops if any(fb in loops[h] for fb, _ in feeds)]
    if len(inloop) > 1:
        inloop = [min(inloop, key=lambda h: -len(loops[h]))]
    cursors = [l for l in range(len(b.locals)) if b.lty(l) == 'usize' and b.name_of(l) and l > b.arg_count]
    good_cursor = None
    for c in cursors:
        ok = True
        base = ('uninit', c)
        for h in inloop:
            w = widening_walker(b, facts, max_paths=4096)
            w.widen_headers = set(loops) - {h}
            w.widen_assigned = {x: loop_assigned(b, x) for x in w.widen_headers}
            for p in w.run(h, stop=lambda x, LB=loops[h]: x not in LB):
                if p.end[0] in ('diverge', 'abort'):
                    continue
                pos = base
                for e in p.events:
                    if e[0] == 'call' and e[2] and e[2]['name'] == 'feed' and any(e[1] == fb for fb, _ in feeds):
                        pc = piece(e[3][1])
                        if pc is None or pc[0] != pos or pc[1] is None:
                            ok = False
                            break
                        pos = pc[1]
                fin = w.as_value(p.env, w.read_key(p.env, (c, ())))
                if fin != pos:
                    ok = False
                if not ok:
                    break
            if not ok:
                break
        if ok:
            good_cursor = c
            break
    if inloop and good_cursor is None:
        return 'a piece is fed inside the lexing loop on a path on which no cursor ends up at the end of that piece (the same bytes are fed again, or bytes are skipped)'
    # outside the loops: the cursor starts at 0 and one last piece text[cursor..] is fed
    outside = [(fb, ft) for fb, ft in feeds if not any(fb in loops[h] for h in loops)]
    if inloop:
        if len(outside) != 1:
            return 'expected one final feed of the unconsumed rest after the loop, found %d' % len(outside)
        w = widening_walker(b, facts, max_paths=20000)
        ok_tail = False
        for p in w.run(0):
            for e in p.events:
                if e[0] == 'call' and e[1] == outside[0][0]:
                    pc = piece(e[3][1])
                    ok_tail = pc is not None and pc[1] is None and term_has(pc[0], lambda x: isinstance(x, tuple) and len(x) > 3 and x[0] == 'widen' and x[3] == good_cursor)
                    if not ok_tail:
                        return 'the final feed does not run from the cursor to the end of the text'
        init = [d for d in b.defs().get(good_cursor, []) if d[1] == 'stmt' and 'use' in d[2] and (d[2]['use'].get('const') or {}).get('int') == 0 and not any(d[0] in loops[h] for h in loops)]
        if not init:
            return 'the cursor does not start at 0'
        return None if ok_tail else 'the final feed was not found on any path'
    # no loop: a single feed of the whole text
    if len(feeds) == 1:
        w = widening_walker(b, facts, max_paths=20000)
        for p in w.run(0):
            for e in p.events:
                if e[0] == 'call' and e[1] == feeds[0][0]:
                    pc = piece(e[3][1])
                    if pc != (('const', 0), None):
                        return 'the only feed is not the whole text'
        return None
    return 'several feeds outside any loop: cannot show that they tile the text'


def r197(facts, res):
    """A lexer's line_col(span) answers both ends from the line table: on every returning path the first component is the
    table's answer for span.start() and the second the table's answer for span.end() (the same query, or - when the path has
    established start == end - the same value).  A second way of locating the end (arithmetic on the start's answer, a count
    over the span's text) is a second definition of "line" and "column" that has to agree with the table on line breaks at
    the very end of the span, CR LF pairs and multi-byte text."""
    R = 'R19.7'
    bs = [b for b in facts.lib_bodies(['lrlex', 'lrpar']) if b.name == 'line_col' and (b.trait or '').endswith('NonStreamingLexer')]
    n = 0
    for b in bs:
        n += 1
        key = 'line_col:' + strip_generics(b.impl_of or b.path).split('::')[-1]
        w = Walker(b, facts)
        paths = w.run()
        if w.overflow:
            res.bad(R, key, loc_of(b), 'too many paths to decide')
            continue
        bad = []
        nret = 0

        def table_answer(t):
            """offset term if t = unwrap(byte_to_line_num_and_col_num(_, _, off))"""
            t = strip_ref(t)
            if isinstance(t, tuple) and t[0] == 'call' and strip_generics(t[1]).split('::')[-1] in ('unwrap', 'expect', 'unwrap_unchecked') and t[2]:
                c = strip_ref(t[2][0])
                if isinstance(c, tuple) and c[0] == 'call' and strip_generics(c[1]).split('::')[-1] == 'byte_to_line_num_and_col_num' and len(c[2]) == 3:
                    return c[2][2]
            return None

        def is_end(t, which):
            t = strip_ref(t)
            return isinstance(t, tuple) and t[0] == 'call' and strip_generics(t[1]).split('::')[-1] == which and len(t[2]) == 1 and strip_ref(t[2][0]) == ('param', 2)
        for p_ in paths:
            if p_.end[0] != 'return':
                continue
            nret += 1
            t = p_.end[1]
            if not (isinstance(t, tuple) and t[0] == 'tuple' and len(t[1]) == 2):
                bad.append('a return value that is not a pair built here')
                continue
            a, c = table_answer(t[1][0]), table_answer(t[1][1])
            same_ends = any(v == 1 and isinstance(ct, tuple) and ct[0] == 'bin' and ct[1] == 'Eq' and
                            {('start' if is_end(ct[2], 'start') else 'end' if is_end(ct[2], 'end') else '?'),
                             ('start' if is_end(ct[3], 'start') else 'end' if is_end(ct[3], 'end') else '?')} == {'start', 'end'}
                            for ct, v in p_.conds)
            if a is None or not (is_end(a, 'start') or (same_ends and is_end(a, 'end'))):
                bad.append('the start position is not the line table\'s answer for span.start()')
            if c is None or not (is_end(c, 'end') or (same_ends and is_end(c, 'start'))):
                bad.append('the end position is %s, not the line table\'s answer for span.end()' % fmt_term(t[1][1])[:90])
        if nret == 0:
            res.bad(R, key, loc_of(b), 'no returning path')
        elif bad:
            res.bad(R, key, loc_of(b), '; '.join(sorted(set(bad))[:2]))
        else:
            res.ok(R, key, loc_of(b), 'both ends are the line table\'s answers for span.start() and span.end() on all %d returning paths' % nret)
    res.floor(R, 'library implementations of NonStreamingLexer::line_col', n, 1)


def r198(facts, res):
    """The length of an item of `str::lines()` is the length WITHOUT its terminator ("\\n" or "\\r\\n").  A byte position inside
    the unstripped line can lie in that terminator, i.e. up to two bytes beyond the stripped length; `stripped_len - offset`
    then underflows (a span that starts on the LF of a CR LF pair).  Such a subtraction has to be saturating/checked or sit
    behind a comparison of the same two values."""
    R = 'R19.8'
    n = 0
    bad = 0
    for b in facts.lib_bodies(['cfgrammar', 'lrlex', 'lrpar', 'lrtable']):
        if b.from_expansion:
            continue
        seeds = lines_item_lens(b)
        if not seeds:
            continue
        # copies
        alias = set(seeds)
        for _ in range(4):
            for l, ds in b.defs().items():
                if len(ds) == 1 and ds[0][1] == 'stmt' and 'use' in ds[0][2] and op_local(ds[0][2]['use']) in alias and not (op_place(ds[0][2]['use']) or {}).get('p'):
                    alias.add(l)
        for bb, i, st in b.stmts():
            if st['k'] != 'assign' or st['rv'].get('bin') not in ('Sub', 'SubWithOverflow', 'SubUnchecked'):
                continue
            la = op_local(st['rv']['a'])
            if la not in alias or op_const(st['rv']['b']) is not None:
                continue
            n += 1
            lb = op_local(st['rv']['b'])
            rb = b.op_root(st['rv']['b'], through=())[0] if lb is not None else None
            # a guard: a comparison of the two values on which this block is control dependent
            guarded = False
            for sb in set(b.control_deps(bb)) | set(b.control_deps_pd(bb)):
                ol = op_local(b.term(sb)['on'])
                for d in b.defs().get(ol, []) if ol is not None else []:
                    if d[1] == 'stmt' and d[2].get('bin') in ('Le', 'Lt', 'Ge', 'Gt'):
                        rs = {b.op_root(d[2]['a'], through=())[0], b.op_root(d[2]['b'], through=())[0]}
                        ra = {b.op_root({'copy': {'l': x, 'p': []}}, through=())[0] for x in (la,)} | alias
                        if rb in rs and (rs & ra):
                            guarded = True
            key = 'stripped-len-minus-offset:%s#%d' % (strip_generics(b.path).split('::')[-1], n - 1)
            if guarded:
                res.ok(R, key, loc_of(b, bb), 'the subtraction from a stripped line length is guarded by a comparison of the two values')
            else:
                bad += 1
                res.bad(R, key, loc_of(b, bb), 'an offset into the unstripped line is subtracted from the length of a str::lines() item (which excludes the '
                        '"\\n" / "\\r\\n" terminator): for a position on the LF of a CR LF pair the offset exceeds the length and the subtraction underflows', {'function': b.path})
    if bad == 0:
        res.ok(R, 'no-unchecked-stripped-len-sub', '', 'no unchecked subtraction from the length of a str::lines() item (%d such subtractions, all guarded)' % n)


def r199(facts, res):
    """The caret line of a diagnostic is indented by the width of the gutter `<line number>| ` printed on the line above it.
    The number whose decimal width is taken (`n.to_string().len()`) must be the number printed on that very line: a width
    taken once from the first line's number is one short from the line where the number gains a digit (9 -> 10), and the
    carets point one column to the left of the text they report."""
    R = 'R19.9'
    bs = [b for b in facts.lib_bodies(['lrpar']) if b.name == 'prefixed_underline_span_with_text' and b.kind != 'closure']
    if len(bs) != 1:
        return res.lost(R, 'prefixed_underline_span_with_text not found')
    b = bs[0]
    loops = b.loops()
    # usize values printed by a format macro inside a loop
    printed = {}
    for bb, t in b.calls_named('new_display'):
        if not t['args'] or not any(bb in loops[h] for h in loops):
            continue
        r, pj, _v = b.op_root(t['args'][0], through=())
        # the arguments of a format macro travel in a tuple of references: (&a, &b).k
        ks = [pr['f'] for pl_ in pj for pr in pl_ if isinstance(pr, dict) and 'f' in pr]
        if r is not None and b.lty(r).startswith('(') and ks:
            for d in b.defs().get(r, []):
                if d[1] == 'stmt' and d[2].get('agg') == 'tuple' and ks[-1] < len(d[2]['ops']):
                    r = b.op_root(d[2]['ops'][ks[-1]], through=())[0]
        if r is not None and b.lty(r) == 'usize':
            printed.setdefault(r, bb)
    # widths: len(to_string(&n)) with n: usize
    widths = []
    for bb, t in b.calls_named('len'):
        if 'String' not in (cpath(t) or '') or not t['args']:
            continue
        r0, _p0, via0 = b.op_root(t['args'][0], through=Body.THROUGH, stop_named=False)
        r, via = None, []
        for d in b.defs().get(r0, []) if r0 is not None else []:
            if d[1] == 'call' and cname(d[2]) == 'to_string' and d[2]['args']:
                r = b.op_root(d[2]['args'][0], through=())[0]
                via = ['to_string']
        if 'to_string' in via and r is not None and b.lty(r) == 'usize':
            widths.append((bb, r, t))
    if not widths:
        res.ok(R, 'gutter-width', loc_of(b), 'the gutter width is not computed as the length of a printed number (form not analysed)')
        res.note('R19.9: no `n.to_string().len()` in prefixed_underline_span_with_text; not decided')
        return
    if not printed:
        res.ok(R, 'gutter-width', loc_of(b), 'the line number is not printed through a format argument inside the line loop (form not analysed)')
        res.note('R19.9: no usize format argument inside the line loop of prefixed_underline_span_with_text; not decided')
        return
    for bb, r, t in widths:
        key = 'gutter-width'
        inloop = any(bb in loops[h] for h in loops)
        if r in printed and inloop:
            res.ok(R, key, loc_of(b, bb), 'the width is that of the line number printed on the same round of the line loop')
        elif r in printed:
            res.bad(R, key, loc_of(b, bb), 'the gutter width is computed outside the loop that prints the lines')
        else:
            res.bad(R, key, loc_of(b, bb), 'the gutter width is taken from `%s`, but the number printed on each line is `%s`: once the printed number has more digits '
                    'the carets are indented too little' % (b.name_of(r) or '_%d' % r, ', '.join(sorted(b.name_of(x) or '_%d' % x for x in printed))))


def r1910(facts, res):
    """Columns count the characters of the line as they are.  R19.3 decides the character loop; the end-of-text branch of
    byte_to_line_num_and_col_num counts the last line with `chars().count()`.  Neither may look at an edited copy of the line:
    no trimming, stripping, replacing or filtering of the text on the way to a count (a trailing CR at the end of the text IS a
    character of the last line - seeded change C19-eot-column-trims-cr)."""
    R = 'R19.10'
    bs = [b for b in facts.lib_bodies(['cfgrammar']) if b.name == 'byte_to_line_num_and_col_num' and b.kind != 'closure']
    if len(bs) != 1:
        return res.lost(R, 'NewlineCache::byte_to_line_num_and_col_num not found (%d)' % len(bs))
    b = bs[0]
    bodies = [b] + list(facts.closures_of(b))
    EDITS = ('strip_suffix', 'strip_prefix', 'replace', 'replacen', 'filter', 'skip_while', 'take_while', 'split', 'rsplit', 'split_terminator', 'lines', 'split_whitespace', 'rfind', 'rsplit_once', 'split_once')
    bad, ncount = [], 0
    for x in bodies:
        for bb, t in x.calls():
            nm = cname(t) or ''
            pth = callee_of(t).get('path') or ''
            if nm in ('count', 'char_indices', 'chars'):
                ncount += 1
            if (nm.startswith('trim') or nm in EDITS) and ('core::str' in pth or 'core::iter' in pth or 'alloc::str' in pth):
                bad.append('line %s: the text of the line goes through `%s` before it is counted' % (t.get('line'), nm))
    key = 'line-counted-as-it-is'
    if bad:
        res.bad(R, key, loc_of(b), '; '.join(sorted(set(bad))[:2]) + ': the column is short by the characters taken away', {'function': b.path})
    else:
        res.ok(R, key, loc_of(b), 'no trimming, stripping, replacing or filtering of the text before a count (%d character iterations)' % ncount)


def run(facts, res):
    r199(facts, res)
    r1910(facts, res)
    r198(facts, res)
    r197(facts, res)
    r196(facts, res)
    r195(facts, res)
    r191(facts, res)
    r192(facts, res)
    r193(facts, res)
