"""C15 The same sources always produce the same grammar, table and generated code (DESIGN.md §4 C15).

R15.1 no iteration order of a randomly seeded hash container leaks into an ordered result (A5, order taint)
R15.2 (thorough) shared start-up state of generated parsers is synchronised (OnceLock, no static mut / unsafe)
"""
from mirlib import *

THOROUGH_WORKSPACE = True

META = {
    'level': 'other',
    'explanation': 'R15.1: every call that starts iterating a std HashMap/HashSet whose hasher parameter is RandomState '
                   '(read from the resolved generic arguments, so FNV item sets and IndexMap are not sources) is classified '
                   'by what consumes the elements; order-insensitive consumers (insertion into hash/BTree/bit sets, '
                   'commutative counters, any/all/count/min/max, collect into unordered containers or into a Vec that is '
                   'sorted before any other use) pass automatically, a short table of confirmed-harmless sites passes '
                   'with its reason, anything else is a violation. This is a necessary condition for run-to-run '
                   'determinism of numbering, tables and generated code. NOT decided: byte-identity of generated files '
                   'beyond order facts; thread-safety beyond R15.2.',
    'assumptions': ['only std HashMap/HashSet with RandomState are non-deterministic iteration sources in this code base'],
}

CRATES = ['cfgrammar', 'lrtable', 'lrpar', 'lrlex']

ITER_METHODS = {'iter', 'iter_mut', 'keys', 'values', 'values_mut', 'drain', 'into_keys', 'into_values', 'difference',
                'union', 'intersection', 'symmetric_difference', 'into_iter', 'retain', 'extract_if'}

ADAPTERS = {'map', 'filter', 'filter_map', 'cloned', 'copied', 'chain', 'flat_map', 'flatten', 'inspect', 'peekable',
            'into_iter', 'by_ref', 'skip', 'step_by', 'take', 'skip_while', 'take_while', 'zip', 'rev', 'fuse',
            'enumerate', 'map_while', 'scan'}
POSITIONAL = {'enumerate', 'skip', 'take', 'step_by', 'zip', 'take_while', 'skip_while', 'map_while', 'scan'}  # make position observable

FOLD_OK = {'any', 'all', 'count', 'sum', 'product', 'min', 'max', 'min_by_key', 'max_by_key', 'min_by', 'max_by',
           'contains', 'is_empty', 'len', 'for_each_unordered'}
FIRST = {'next', 'nth', 'last', 'find', 'find_map', 'position', 'try_for_each', 'try_fold', 'fold', 'reduce', 'for_each',
         'next_back'}

# Sites that are order-sensitive by the automatic criteria but harmless for THIS property; each read and confirmed.
# key: (function def-path, element/container type substring) -> reason
EXCEPTIONS = [
    # (function def-path (generics stripped), container type substring, substring every reported problem must contain one of, reason)
    ('cfgrammar::yacc::ast::GrammarAST::complete_and_validate',
     'hash::map::HashMap<alloc::string::String, (cfgrammar::span::Span, (alloc::string::String, cfgrammar::span::Span))',
     ['exit'],
     'returns the first unknown %epp token as an *error*: selects which error is reported; C15 is about successful builds'),
    ('lrtable::pager::gc', 'hash::set::HashSet<lrtable::StIdx<usize>', ['takes the first element'],
     'picks an arbitrary element of the work set; the result is the reachability closure `seen`, independent of visiting order'),
    ('lrtable::statetable::StateTable::new', 'hash::map::HashMap<cfgrammar::Symbol<StorageT>, lrtable::StIdx<StorageT>',
     ['exit', 'index_mut', 'resolve_shift_reduce on [usize]'],
     'iterates one state\'s outgoing edges: each symbol writes only its own action/goto cell (offset computed from the '
     'symbol), and the exits are internal-error panics; the list of shift/reduce conflicts that resolve_shift_reduce '
     'also appends to is NOT covered by this exception - it has to be sorted after the loop (it is serialised into the '
     'generated module)'),
    ('lrpar::cpctplus::simplify_repairs', 'hash::set::HashSet<alloc::vec::Vec<lrpar::parser::ParseRepair', ['extend into an ordered Vec', 'collect into an ordered Vec'],
     'drains the de-duplication set into a Vec that is then sorted by (avoid-insert, length); which of several equal-rank '
     'sequences comes first - and so which one is applied - is deliberately left open upstream (C06 fixes only that partial '
     'order).  Run-time repair choice, not a build artefact: none of C15\'s numbering / table / generated-code clauses is reached'),
    ('lrlex::ctbuilder::CTLexerBuilder::build', 'hash::set::HashSet<alloc::string::String', ['print', 'collect into an ordered Vec'],
     'order of warning lines about tokens missing from the lexer (eprintln / cargo:warning); no effect on generated code'),
    ('lrlex::ctbuilder::CTLexerBuilder::build', 'hash::set::HashSet<(alloc::string::String, cfgrammar::span::Span)', ['extend on alloc::vec::Vec<alloc::string::String', 'push on alloc::vec::Vec<alloc::string::String'],
     'order of warning lines about tokens missing from the parser (the Vec<String> the lines are appended to - by extend or by push - is only printed); no effect on generated code'),
    ('lrlex::ctbuilder::CTTokenMapBuilder::new', 'hash::map::HashMap<alloc::string::String, StorageT',
     ['collect into an ordered Vec', 'push on alloc::vec::Vec<(alloc::string::String, proc_macro2::TokenStream)'],
     'the Vec of (name, id tokens) pairs - collected, or filled by a push loop - is a private field whose only reader, CTTokenMapBuilder::build, '
     'sorts it (a clone, or a Vec of references to its entries) by token name before emitting'),
]


def hasher_of(ty):
    """'random' | 'other' | None for a (reference to a) std hash container type string"""
    t = ty
    while t.startswith('&'):
        t = t[1:].lstrip()
        if t.startswith('mut '):
            t = t[4:]
    if t.startswith('std::collections::hash::map::HashMap<') or t.startswith('std::collections::hash::set::HashSet<') \
            or t.startswith('hashbrown::'):
        if 'std::hash::random::RandomState' in top_level_args(t)[-2:] or any(
                a == 'std::hash::random::RandomState' for a in top_level_args(t)):
            return 'random'
        return 'other'
    return None


def top_level_args(t):
    i = t.find('<')
    if i < 0:
        return []
    depth, cur, out = 0, '', []
    for ch in t[i + 1:]:
        if ch in '<([':
            depth += 1
        elif ch in '>)]':
            if depth == 0:
                break
            depth -= 1
        if ch == ',' and depth == 0:
            out.append(cur.strip())
            cur = ''
        else:
            cur += ch
    if cur.strip():
        out.append(cur.strip())
    return out


def sources(body, want=None):
    """iteration sources; want(type string, hasher kind) -> bool selects the containers (default: std hash containers
    whose hasher is RandomState)"""
    out = []
    for bb, t in body.calls():
        c = callee_of(t)
        if c is None or c['name'] not in ITER_METHODS:
            continue
        st = c.get('self_ty') or ''
        if c['name'] == 'into_iter' and c.get('trait') == 'core::iter::traits::collect::IntoIterator':
            st = c['args'][0] if c['args'] else st
        h = hasher_of(st)
        if h is None and c['name'] in ('difference', 'union', 'intersection', 'symmetric_difference', 'drain', 'retain'):
            h = hasher_of(st)
        if (h == 'random') if want is None else (h is not None and want(st, h)):
            out.append((bb, t, st))
    return out


def flow(body, start_local):
    """locals that (may) hold the iterator produced at the source, following moves, borrows and adapter calls;
    returns (locals, adapter names used, consumer call sites [(bb, term, argpos)])"""
    holds = {start_local}
    adapters = []
    consumers = []
    changed = True
    seen_calls = set()
    while changed:
        changed = False
        for b in sorted(body.reachable()):
            for st in body.blocks[b]['stmts']:
                if st['k'] != 'assign' or st['lhs']['p']:
                    continue
                rv = st['rv']
                src = None
                if 'use' in rv:
                    src = op_place(rv['use'])
                elif 'ref' in rv:
                    src = rv['ref']
                if src is not None and src['l'] in holds and st['lhs']['l'] not in holds:
                    holds.add(st['lhs']['l'])
                    changed = True
            t = body.term(b)
            if t['k'] != 'call':
                continue
            for i, a in enumerate(t['args']):
                l = op_local(a)
                if l is None or l not in holds:
                    continue
                nm = cname(t)
                c = callee_of(t)
                is_iter_trait = c is not None and (c.get('trait') or '').startswith('core::iter::traits')
                if nm in ADAPTERS and is_iter_trait and i == 0:
                    if t['dest']['l'] not in holds:
                        holds.add(t['dest']['l'])
                        adapters.append(nm)
                        changed = True
                elif nm == 'new' and 'Box' in (cpath(t) or ''):
                    if t['dest']['l'] not in holds:
                        holds.add(t['dest']['l'])
                        changed = True
                else:
                    if (b, i) not in seen_calls:
                        seen_calls.add((b, i))
                        consumers.append((b, t, i))
    return holds, adapters, consumers


UNORDERED_TARGET = ('std::collections::hash::map::HashMap<', 'std::collections::hash::set::HashSet<',
                    'alloc::collections::btree::map::BTreeMap<', 'alloc::collections::btree::set::BTreeSet<',
                    'vob::Vob<')


def mut_targets(body, t):
    """[(root local, pointee type)] for EVERY `&mut` argument of a call (all the things it may modify)"""
    out = []
    for a in t['args']:
        l = op_local(a)
        if l is not None and body.lty(l).startswith('&mut '):
            out.append((body.op_root(a)[0], body.lty(l)[5:]))
    return out


def loop_effects(body, facts, loop_blocks, next_bb):
    """order-sensitive effects inside a loop driven by the tainted iterator: (kind, block, text, root local or None)"""
    eff = []
    for b in sorted(loop_blocks):
        t = body.term(b)
        if t['k'] == 'call' and b != next_bb:
            nm = cname(t)
            p = cpath(t) or ''
            tgts = mut_targets(body, t)
            if p.startswith('std::io::stdio::_eprint') or p.startswith('std::io::stdio::_print'):
                eff.append(('print', b, p, None))
            elif tgts:
                for root, tgt in tgts:
                    if tgt.startswith(UNORDERED_TARGET):
                        continue
                    if tgt.startswith('core::iter') or 'iter::Iter' in tgt or tgt.startswith('std::collections::hash::') \
                            or nm in ('next', 'deref_mut', 'index_mut', 'as_mut', 'borrow_mut'):
                        continue  # driving some iterator / obtaining a place
                    if tgt.startswith('core::option::Option<') and nm in ('take', 'insert', 'get_or_insert_with'):
                        eff.append(('mutate', b, '%s on %s' % (nm, tgt[:60]), root))
                        continue
                    if tgt in ('usize', 'u64', 'u32', 'isize', 'i64', 'i32') and nm in ('add_assign',):
                        continue
                    eff.append(('mutate', b, '%s on %s' % (nm, tgt[:70]), root))
            elif callee_of(t) is None:
                eff.append(('indirect-call', b, '', None))
        # exits other than the iterator's own None test
        if b != next_bb:
            for s in body.succs(b):
                if s not in loop_blocks and body.term(s)['k'] == 'unreachable' and not body.blocks[s]['stmts']:
                    continue        # the `otherwise` edge of an exhaustive enum switch: not a way out
                if s not in loop_blocks and s not in body.postdominators():
                    continue        # a way that ends in a panic (a failed assertion): not a way out, as everywhere in this engine
                if s not in loop_blocks:
                    tt = body.term(b)
                    # the switch on next()'s result lives in the block after next_bb
                    eff.append(('exit', b, 'leaves the loop', None))
        elif body.term(b)['k'] == 'return':
            eff.append(('exit', b, 'returns', None))
    return eff


# keys that identify an element of a Vec uniquely although they do not use all of its fields (reason each)
UNIQUE_KEYS = [
    ('lrtable::statetable::StateTable::new', '(cfgrammar::idxnewtype::TIdx<StorageT>, cfgrammar::idxnewtype::PIdx<StorageT>, lrtable::StIdx<StorageT>)', {0, 2},
     'shift/reduce conflicts: at most one per (state, token) cell, so (token, state) identifies the entry'),
    ('lrlex::ctbuilder::CTLexerBuilder::build', '(&alloc::string::String, &<LexerTypesT as lrpar::lex_api::LexerTypes>::StorageT)', {0},
     'the (key, value) pairs of ONE map: the key alone identifies the pair'),
    ('lrtable::stategraph::StateGraph::pp', '(&cfgrammar::Symbol<StorageT>, &lrtable::StIdx<StorageT>)', {1},
     'the edges of one state: different symbols lead to different states (every item of a state has the edge\'s symbol before its dot)'),
]


def comparator_key_fields(cb):
    """For a comparator closure |x, y| whose only result is key(x).cmp(key(y)) - or the reverse, or a `then` chain of such
    comparisons - return (whole element compared?, set of top-level tuple fields of the element the key reads); None otherwise."""
    ps = Walker(cb, SORT_FACTS, max_paths=16).run()
    if len(ps) != 1 or ps[0].end[0] != 'return':
        return None

    def side(t, n):
        """(term with the parameter replaced by X, fields read) when t depends on parameter n only"""
        fields, whole, other = set(), [False], [False]

        def go(x):
            if not isinstance(x, tuple) or not x:
                return x
            if x == ('param', n):
                whole[0] = True
                return ('X',)
            if x[0] == 'param':
                other[0] = True
                return x
            if x[0] == 'field':
                base = x[1]
                while isinstance(base, tuple) and base and base[0] in ('deref', 'ref'):
                    base = base[1]
                if base == ('param', n):
                    fields.add(x[2])
                    return ('X', x[2])
            return tuple(go(y) if isinstance(y, tuple) else y for y in x)
        r = go(t)
        if other[0]:
            return None
        return r, fields, whole[0]

    def one(t):
        if t[0] == 'cmp':
            for n1, n2 in ((2, 3), (3, 2)):
                a, d = side(t[1], n1), side(t[2], n2)
                if a and d and a[0] == d[0]:
                    return a[2], a[1]
            return None
        if t[0] == 'call' and t[1].rsplit('::', 1)[-1] == 'then' and 'Ordering' in t[1] and len(t[2]) == 2:
            l, r = one(t[2][0]), one(t[2][1])
            if l is None or r is None:
                return None
            return l[0] or r[0], l[1] | r[1]
        if t[0] == 'call' and t[1].rsplit('::', 1)[-1] == 'then_with' and 'Ordering' in t[1] and len(t[2]) == 2 and t[2][1][0] == 'closure':
            # a.cmp(b).then_with(|| c.cmp(d)): the closure's (single) answer is the tie-breaker
            alts = Walker(cb, SORT_FACTS, max_paths=4).closure_alternatives(t[2][1], [])
            if not alts or len(alts) != 1 or alts[0][0]:
                return None
            l, r = one(t[2][0]), one(alts[0][2])
            if l is None or r is None:
                return None
            return l[0] or r[0], l[1] | r[1]
        return None
    return one(ps[0].end[1])


def sort_is_canonical(body, t):
    """does this sort call put the Vec into an order that does not depend on the order it had before?  A full `sort` does (equal
    elements are identical); a `sort_by_key` only if its key tells all elements apart: it reads every field of the element
    tuple, or a set of fields declared unique in UNIQUE_KEYS; comparator sorts are not recognised"""
    nm = cname(t) or ''
    if nm in ('sort', 'sort_unstable'):
        return True
    if not (nm.endswith('by_key') or nm in ('sort_by', 'sort_unstable_by')):
        return False
    c = callee_of(t)
    args = c.get('args') or []
    clo = [a for a in args if a.startswith('{closure@')]
    if not clo or not args:
        return False
    elem = args[0]
    facts = body.facts if hasattr(body, 'facts') else None
    cbs = [cb for cb in (SORT_FACTS.closures_of(body) if SORT_FACTS else []) if len(cb.locals) > 1 and clo[0] in cb.locals[1]['ty']]
    if len(cbs) != 1:
        return False
    cb = cbs[0]
    read = set()
    whole = False
    if not nm.endswith('by_key'):
        # a comparator: canonical when it is key(x).cmp(key(y)) (either direction, possibly chained with `then`) for one key
        # function, and that key tells all elements apart
        got = comparator_key_fields(cb)
        if got is None:
            return False
        whole, read = got
        arity = len(top_level_args('X<' + elem.strip()[1:-1] + '>')) if elem.startswith('(') else 1
        if whole or len(read) >= arity:
            return True
        fn = strip_generics(body.root_parent or body.path)
        return any(f == fn and elem.replace(' ', '') == el.replace(' ', '') and need <= read for f, el, need, reason in UNIQUE_KEYS)
    for blk in cb.blocks:
        for st in blk['stmts']:
            if st['k'] != 'assign':
                continue
            for o in rv_operands(st['rv']) + ([{'copy': st['rv']['ref']}] if 'ref' in st['rv'] else []):
                pl = op_place(o)
                if pl and pl['l'] == 2:
                    fs = [q['f'] for q in pl['p'] if isinstance(q, dict) and 'f' in q]
                    if fs:
                        read.add(fs[0])
                    else:
                        whole = True
    arity = len(top_level_args('X<' + elem.strip()[1:-1] + '>')) if elem.startswith('(') else 1
    if whole or len(read) >= arity:
        return True
    fn = strip_generics(body.root_parent or body.path)
    for f, el, need, reason in UNIQUE_KEYS:
        if f == fn and elem.replace(' ', '') == el.replace(' ', '') and need <= read:
            return True
    return False


SORT_FACTS = None


def sorted_after_loop(body, vec_local, loop_blocks):
    """the Vec is put into a canonical order once the loop is over: a sort* call on it outside the loop that every
    later (non-loop) use is dominated by, and that itself is reached on every way out of the loop"""
    if vec_local is None or not body.lty(vec_local).startswith('alloc::vec::Vec<'):
        return False
    uses = []
    for b, t in body.calls():
        for a in t['args']:
            l = op_local(a)
            if l is None:
                continue
            if body.root(l)[0] == vec_local:
                uses.append((b, t))
                break
    outer = [(b, t) for b, t in uses if b not in loop_blocks]
    sorts = [b for b, t in outer if (cname(t) or '').startswith('sort') and sort_is_canonical(body, t)]
    if not sorts:
        return False
    exits = {s for b in loop_blocks for s in body.succs(b) if s not in loop_blocks}
    for b, t in outer:
        nm = cname(t) or ''
        if nm.startswith('sort') or nm in ('deref_mut', 'as_mut_slice', 'drop'):
            continue
        # a use after the loop must come after a sort; a use before the loop (cannot be reached from the loop) is fine
        if b in body.reachable(list(exits)) and not any(body.dominates(s, b) and s != b for s in sorts):
            return False
    # moves of the Vec into an aggregate / the return place must also come after a sort
    for b in body.reachable(list(exits)):
        for stt in body.blocks[b]['stmts']:
            if stt['k'] != 'assign':
                continue
            if 'ref' in stt['rv'] or b in loop_blocks:
                continue    # borrows are judged at the call they feed
            if term_mentions_local(stt['rv'], vec_local) and not any(body.dominates(s, b) and s != b for s in sorts):
                return False
    return True


def term_mentions_local(rv, l):
    """does an rvalue (JSON) read local l directly"""
    def ops(x):
        if isinstance(x, dict):
            if 'l' in x and 'p' in x and x['l'] == l:
                yield x
            for v in x.values():
                yield from ops(v)
        elif isinstance(x, list):
            for v in x:
                yield from ops(v)
    return any(True for _ in ops(rv))


def is_pure_worklist(body, facts, v):
    """`v` is a Vec used as nothing but a stack of pending work: only pushed, popped and asked for its size, never moved,
    returned or iterated; and every loop that pops it does nothing order-sensitive except pushing more work.  The order in
    which work is pushed then decides the order of visiting, but nothing that is visited in a different order differs."""
    if v is None or not body.lty(v).startswith('alloc::vec::Vec<'):
        return False
    allowed = ('push', 'pop', 'is_empty', 'len', 'new', 'with_capacity', 'drop', 'drop_in_place', 'reserve')
    pops = []
    for bb, t in body.calls():
        for a in t['args']:
            if op_local(a) is not None and body.op_root(a)[0] == v:
                if cname(t) not in allowed:
                    return False
                if cname(t) == 'pop':
                    pops.append((bb, t))
    for bb, _i, st in body.stmts():
        if st['k'] == 'assign' and 'use' in st['rv'] and op_local(st['rv']['use']) == v and 'move' in st['rv']['use']:
            return False
        if st['k'] == 'assign' and 'agg' in st['rv'] and any(op_local(o) == v for o in st['rv']['ops']):
            return False
    if not pops:
        return False
    loops = body.loops()
    for pb, pt in pops:
        inl = [h for h in loops if pb in loops[h]]
        if not inl:
            return False
        h = min(inl, key=lambda x: len(loops[x]))
        test_bb = pt['ret']
        eff = loop_effects(body, facts, set(loops[h]) - {test_bb}, pb)
        for e in eff:
            if e[0] == 'exit' and e[1] == test_bb:
                continue
            if e[0] == 'mutate' and e[3] == v:
                continue
            return False
    return True


def classify(body, facts, bb, t, st):
    """returns (verdict 'auto'|'sensitive', description, details)"""
    global SORT_FACTS
    SORT_FACTS = facts
    dest = t['dest']['l']
    c = callee_of(t)
    if c['name'] == 'retain':
        return 'auto', 'retain: removes elements by a per-element predicate', []
    holds, adapters, consumers = flow(body, dest)
    pos = [a for a in adapters if a in POSITIONAL]
    loops = body.loops()
    problems = []
    notes = []
    if pos:
        problems.append('position-dependent adaptor %s applied to hash iteration order' % pos)
    if not consumers:
        # returned or stored
        rets = [b for b in body.reachable() if body.term(b)['k'] == 'return']
        if 0 in holds:
            problems.append('the iterator is returned to the caller')
        else:
            notes.append('no consumer found')
    for cb, ct, argi in consumers:
        nm = cname(ct)
        cc = callee_of(ct)
        if nm == 'next' and argi == 0:
            inl = [h for h in loops if cb in loops[h]]
            if not inl:
                problems.append('takes the first element (next() outside a loop)')
                continue
            h = min(inl, key=lambda x: len(loops[x]))
            if bb in loops[h]:
                problems.append('takes the first element (next() on an iterator created in the same loop iteration)')
                continue
            # the block testing next()'s result is the legitimate exit
            test_bb = ct['ret']
            lb = set(loops[h])
            eff = loop_effects(body, facts, lb - {test_bb}, cb)
            # exits: allow only the test block
            eff = [e for e in eff if not (e[0] == 'exit' and e[1] == test_bb)]
            # pushes on a Vec that is sorted once the loop is over do not keep the visiting order
            kept = []
            for e in eff:
                if e[0] == 'mutate' and sorted_after_loop(body, e[3], lb):
                    notes.append('%s, sorted after the loop' % e[2])
                elif e[0] == 'mutate' and e[2].startswith('push on ') and is_pure_worklist(body, facts, e[3]):
                    notes.append('%s: a stack of pending work that is only pushed and popped, and whose popping loop does nothing order-sensitive' % e[2][:40])
                else:
                    kept.append(e)
            eff = kept
            for e in eff:
                problems.append('loop body: %s %s (line %s)' % (e[0], e[2], body.term(e[1]).get('line')))
            if not eff:
                notes.append('for-loop with order-insensitive body')
        elif nm in ('collect', 'from_iter', 'extend', 'extend_from_slice', 'append'):
            if nm == 'extend':
                target = (mut_targets(body, ct) or [(None, '')])[0][1]
            else:
                target = ' '.join(cc['args'][-1:]) if nm == 'collect' else (cc.get('self_ty') or '')
                if nm == 'collect':
                    target = cc['args'][1] if len(cc['args']) > 1 else target
            tt = target
            if tt.startswith('core::result::Result<') or tt.startswith('core::option::Option<'):
                tt = top_level_args(tt)[0]
            if tt.startswith(UNORDERED_TARGET):
                notes.append('%s into unordered %s' % (nm, tt.split('<')[0].split('::')[-1]))
            elif tt.startswith('alloc::vec::Vec<') or tt.startswith('alloc::boxed::Box<['):
                vec_local = ct['dest']['l'] if nm != 'extend' else body.op_root(ct['args'][0])[0]
                if sorted_before_use(body, vec_local, cb):
                    notes.append('%s into a Vec that is sorted before any other use' % nm)
                else:
                    problems.append('%s into an ordered %s that is not sorted before use' % (nm, tt.split('<')[0].split('::')[-1]))
            else:
                problems.append('%s into %s' % (nm, tt[:80]))
        elif nm in FOLD_OK:
            notes.append('%s (order-insensitive fold)' % nm)
        elif nm in ('fold', 'for_each') and closure_consumer_insensitive(body, facts, ct, nm) is True:
            notes.append('%s with an order-insensitive closure (own-element updates, commutative accumulation)' % nm)
        elif nm in ('fold', 'for_each') and isinstance(closure_consumer_insensitive(body, facts, ct, nm), list):
            # the closure is the loop body: report ITS effects, so that an exception naming an effect applies to either spelling
            for e in closure_consumer_insensitive(body, facts, ct, nm):
                problems.append(e)
        elif nm in FIRST:
            problems.append('%s depends on which element comes first' % nm)
        elif nm in ('drop', 'drop_in_place', 'size_hint'):
            continue
        else:
            problems.append('passed to %s' % (cpath(ct) or 'an indirect call'))
    if problems:
        return 'sensitive', '; '.join(problems[:4]), problems
    return 'auto', '; '.join(sorted(set(notes))) or 'no ordered consumer', []


def closure_consumer_insensitive(body, facts, ct, nm):
    """`iter.for_each(f)` / `iter.fold(init, f)` does not depend on the visiting order: f's body has no order-sensitive effect (the same
    test as for a loop body) and, for fold, every result is the accumulator itself or `acc OP g(element)` with OP commutative and
    associative (| & ^ + on integers/bools)"""
    ai = 2 if nm == 'fold' else 1
    if len(ct['args']) <= ai:
        return False
    cl = op_local(ct['args'][ai])
    cb = None
    for _bb, kind, rv in body.defs().get(cl, ()):
        if kind == 'stmt' and 'agg' in rv and isinstance(rv['agg'], dict) and 'closure' in rv['agg']:
            cb = facts.bodies.get(rv['agg']['closure'])
    if cb is None:
        return False
    eff = loop_effects(cb, facts, set(cb.reachable()), None)
    if eff:
        return ['loop body: %s %s (line %s)' % (e[0], e[2], cb.term(e[1]).get('line')) for e in eff]
    if nm == 'for_each':
        return True
    ps = Walker(cb, facts, max_paths=32).run()
    if not ps:
        return False
    acc = ('param', 2)
    for p in ps:
        if p.end[0] != 'return':
            return False
        r = p.end[1]
        if r == acc:
            continue
        if r[0] == 'bin' and r[1] in ('BitOr', 'BitAnd', 'BitXor', 'Add') and ((r[2] == acc and not term_has(r[3], lambda x: x == acc)) or (r[3] == acc and not term_has(r[2], lambda x: x == acc))):
            continue
        return False
    return True


def sorted_before_use(body, vec_local, def_bb):
    """is there a sort* call on vec_local dominating every other call that uses it"""
    uses = []
    for b, t in body.calls():
        if b == def_bb:
            continue
        for a in t['args']:
            l = op_local(a)
            if l is None:
                continue
            r, _p, via = body.root(l)
            if r == vec_local:
                uses.append((b, t))
                break
    # also moves into aggregates/returns count as uses; keep it simple: look at call uses
    sorts = [b for b, t in uses if (cname(t) or '').startswith('sort') and sort_is_canonical(body, t)]
    if not sorts:
        return False
    for b, t in uses:
        nm = cname(t) or ''
        if nm.startswith('sort') or nm in ('deref_mut', 'deref', 'as_mut_slice', 'drop'):
            continue
        if not any(body.dominates(s, b) and s != b for s in sorts):
            return False
    return True


def exception_for(body, st, problems):
    fn = strip_generics(body.root_parent or body.path)
    for f, sub, needles, reason in EXCEPTIONS:
        if f != fn or sub not in st:
            continue
        if all(any(n in p for n in needles) for p in problems):
            return reason
    return None


def uncovered(body, st, problems):
    """the problems a listed exception for this function/container does NOT cover"""
    fn = strip_generics(body.root_parent or body.path)
    for f, sub, needles, reason in EXCEPTIONS:
        if f == fn and sub in st:
            return [p for p in problems if not any(n in p for n in needles)]
    return []


EXC_USED = set()


def premise_token_map_sorted(facts, res, R):
    """The exception for CTTokenMapBuilder::new rests on a premise about ANOTHER function: the Vec it fills in hash order is a
    private field that CTTokenMapBuilder::build reads only to sort it.  Checked here: every read of that field in build flows
    (through clone / iter / collect) into a Vec that is sorted before any other use; a second read that walks the field as it
    is puts hash order into the generated module."""
    bs = [b for b in facts.lib_bodies(['lrlex']) if b.name == 'build' and 'CTTokenMapBuilder' in (b.impl_of or '') and b.kind != 'closure']
    if len(bs) != 1:
        return res.lost(R, 'CTTokenMapBuilder::build not found (premise of the listed exception for CTTokenMapBuilder::new)')
    b = bs[0]
    reads = []
    for bb in sorted(b.reachable()):
        for st in b.blocks[bb]['stmts']:
            if st['k'] != 'assign':
                continue
            pls = [st['rv'][k] for k in ('ref',) if k in st['rv']] + [op_place(o) for o in rv_operands(st['rv']) if op_place(o) is not None]
            for pl in pls:
                if pl['l'] == 1 and any(isinstance(q, dict) and q.get('name') == 'token_map' for q in pl['p']):
                    reads.append((bb, st['lhs']['l']))
    def sorted_first(v, def_bb):
        # the keys are the names of ONE map (pairwise distinct): any sort by name is canonical
        uses = [(x, t) for x, t in b.calls() if x != def_bb and any(op_local(a) is not None and b.root(op_local(a))[0] == v for a in t['args'])]
        sorts = [x for x, t in uses if (cname(t) or '').startswith('sort')]
        return bool(sorts) and all((cname(t) or '').startswith('sort') or cname(t) in ('deref_mut', 'deref', 'as_mut_slice', 'drop') or any(b.dominates(s_, x) and s_ != x for s_ in sorts)
                                   for x, t in uses)
    key = 'premise:CTTokenMapBuilder::build/token_map'
    if not any(x.endswith('CTTokenMapBuilder::new') for x in EXC_USED):
        return res.ok(R, key, loc_of(b), 'the listed exception for CTTokenMapBuilder::new is not in use on this tree (its sources were classified on their own): no premise to check')
    if not reads:
        return res.lost(R, 'CTTokenMapBuilder::build does not read the token_map field (premise of a listed exception)')
    bad = []
    for bb, l in reads:
        # Vec -> slice -> Iter are views of the same list in the same order: keep following
        consumers, todo, seen_l = [], [l], set()
        while todo:
            x = todo.pop()
            if x in seen_l:
                continue
            seen_l.add(x)
            for cb, ct, ai in flow(b, x)[2]:
                if cname(ct) in ('deref', 'as_slice', 'iter', 'borrow', 'as_ref') and ct.get('dest') is not None:
                    todo.append(ct['dest']['l'])
                else:
                    consumers.append((cb, ct, ai))
        okr = False
        for cb, ct, ai in consumers:
            nm = cname(ct)
            if nm in ('clone', 'to_vec', 'to_owned', 'collect', 'from_iter'):
                v = ct['dest']['l']
                if sorted_first(v, cb):
                    okr = True
                else:
                    # the copy may be moved into a named local first
                    for x in [x for x, ds in b.defs().items() if any(d[1] == 'stmt' and 'use' in d[2] and op_local(d[2]['use']) == v for d in ds)]:
                        if sorted_first(x, cb):
                            okr = True
                    if not okr:
                        bad.append('line %s: a copy of the token list is used without being sorted first' % ct.get('line'))
            elif nm in ('len', 'is_empty', 'drop', 'drop_in_place'):
                continue
            else:
                bad.append('line %s: the token list is handed to `%s` in the order it was collected in (hash order)' % (ct.get('line'), nm))
        if not okr and not bad:
            bad.append('line %s: the token list is read without being sorted' % b.blocks[bb]['term'].get('line'))
    if bad:
        res.bad(R, key, loc_of(b, reads[0][0]), '; '.join(sorted(set(bad))[:2]) + ': the list was collected from a RandomState HashMap by CTTokenMapBuilder::new, so the generated '
                'module differs from process to process', {'function': b.path})
    else:
        res.ok(R, key, loc_of(b, reads[0][0]), 'every read of the token list in build goes through a copy that is sorted by name before it is used (%d reads)' % len(reads))


def r151(facts, res):
    R = 'R15.1'
    EXC_USED.clear()
    n = 0
    nauto = nexc = 0
    per_fn = {}
    for body in facts.lib_bodies(CRATES):
        if body.from_expansion:
            continue
        for bb, t, st in sources(body):
            n += 1
            c = callee_of(t)
            fn = body.root_parent or body.path
            idx = per_fn.get((fn, c['name'], st), 0)
            per_fn[(fn, c['name'], st)] = idx + 1
            elem = st.replace('std::collections::hash::', '').replace('std::hash::random::RandomState', 'RandomState') \
                .replace('alloc::string::String', 'String').replace('alloc::alloc::Global', 'Global')
            key = '%s/%s(%s)#%d' % (strip_generics(fn), c['name'], elem[:90], idx)
            verdict, desc, problems = classify(body, facts, bb, t, st)
            if verdict == 'auto':
                nauto += 1
                res.ok(R, key, loc_of(body, bb), 'order-insensitive: ' + desc)
            else:
                reason = exception_for(body, st, problems)
                if reason:
                    nexc += 1
                    EXC_USED.add(strip_generics(body.root_parent or body.path))
                    res.ok(R, key, loc_of(body, bb), 'listed exception: ' + reason)
                else:
                    unc = uncovered(body, st, problems)
                    if unc:
                        desc = '; '.join(unc[:3]) + ' (the rest of this loop is a listed exception)'
                    res.bad(R, key, loc_of(body, bb),
                            'iteration order of a RandomState hash container reaches an ordered result: ' + desc,
                            {'function': body.path, 'container': st, 'problems': problems})
    res.floor(R, 'RandomState iteration sources', n, 18)
    res.count('R15.1 auto-classified', nauto)
    res.count('R15.1 listed exceptions used', nexc)
    # positive control: the classifier must flag a Vec::push inside a loop over a RandomState map
    ctl = selfcontrol()
    if ctl:
        res.ok(R, 'control/push-in-hash-loop', 'rules/c15.py', 'positive control: synthetic push-in-loop source is classified order-sensitive')
    else:
        res.lost(R, 'positive control failed: classifier no longer flags Vec::push in a loop over a RandomState map')


def selfcontrol():
    """tiny synthetic MIR: for k in map.keys() { v.push(k) }"""
    hm = 'std::collections::hash::map::HashMap<u8, u8, std::hash::random::RandomState, alloc::alloc::Global>'
    d = {
        'path': 'control::f', 'name': 'f', 'kind': 'fn', 'file': 'control', 'lo': 1, 'hi': 1, 'arg_count': 2,
        'locals': [{'ty': '()'}, {'ty': '&' + hm}, {'ty': '&mut alloc::vec::Vec<u8, alloc::alloc::Global>'},
                   {'ty': 'std::collections::hash::map::Keys<u8, u8>'}, {'ty': '&mut std::collections::hash::map::Keys<u8, u8>'},
                   {'ty': 'core::option::Option<&u8>'}, {'ty': 'isize'}, {'ty': '()'}, {'ty': '&mut alloc::vec::Vec<u8, alloc::alloc::Global>'}],
        'debug': [],
        'blocks': [
            {'stmts': [], 'term': {'k': 'call', 'callee': {'path': 'std::collections::hash::map::HashMap::<K, V, S, A>::keys', 'crate': 'std', 'name': 'keys', 'args': [], 'self_ty': hm},
                                   'args': [{'copy': {'l': 1, 'p': []}}], 'dest': {'l': 3, 'p': []}, 'ret': 1, 'unwind': None}},
            {'stmts': [{'k': 'assign', 'lhs': {'l': 4, 'p': []}, 'rv': {'ref': {'l': 3, 'p': []}, 'mut': True}}],
             'term': {'k': 'call', 'callee': {'path': 'core::iter::traits::iterator::Iterator::next', 'crate': 'core', 'name': 'next', 'args': [], 'trait': 'core::iter::traits::iterator::Iterator', 'self_ty': 'std::collections::hash::map::Keys<u8, u8>'},
                      'args': [{'move': {'l': 4, 'p': []}}], 'dest': {'l': 5, 'p': []}, 'ret': 2, 'unwind': None}},
            {'stmts': [{'k': 'assign', 'lhs': {'l': 6, 'p': []}, 'rv': {'discr': {'l': 5, 'p': []}}}],
             'term': {'k': 'switch', 'on': {'move': {'l': 6, 'p': []}}, 'on_ty': 'isize', 'targets': [[0, 4]], 'otherwise': 3}},
            {'stmts': [{'k': 'assign', 'lhs': {'l': 8, 'p': []}, 'rv': {'ref': {'l': 2, 'p': ['deref']}, 'mut': True}}],
             'term': {'k': 'call', 'callee': {'path': 'alloc::vec::Vec::<T, A>::push', 'crate': 'alloc', 'name': 'push', 'args': [], 'self_ty': 'alloc::vec::Vec<u8, alloc::alloc::Global>'},
                      'args': [{'move': {'l': 8, 'p': []}}, {'const': {'ty': 'u8', 'int': 1}}], 'dest': {'l': 7, 'p': []}, 'ret': 1, 'unwind': None}},
            {'stmts': [], 'term': {'k': 'return'}},
        ],
    }
    b = Body(d, 'control')
    src = sources(b)
    if len(src) != 1:
        return False
    verdict, desc, problems = classify(b, None, *src[0])
    return verdict == 'sensitive' and any('push' in p for p in problems)


def run(facts, res):
    r151(facts, res)
    premise_token_map_sorted(facts, res, 'R15.1')


def run_thorough(facts, res):
    R = 'R15.2'
    gens = [b for b in facts.bodies.values() if b.name == '__lrpar_parser_data' or b.path.endswith('::parser_data')]
    gens = [b for b in facts.bodies.values() if 'lrpar_parser_data' in b.name or b.name == 'parser_data']
    n = 0
    for b in sorted(gens, key=lambda x: x.path):
        n += 1
        calls = b.calls_named('get_or_init')
        ok = False
        for bb, t in calls:
            st = callee_of(t).get('self_ty') or ''
            if st.startswith('std::sync::once_lock::OnceLock<'):
                ok = True
        if ok:
            res.ok(R, 'generated:' + strip_generics(b.path), loc_of(b), 'parser data is initialised through OnceLock::get_or_init')
        else:
            res.bad(R, 'generated:' + strip_generics(b.path), loc_of(b), 'generated parser data accessor does not go through OnceLock::get_or_init')
    muts = [s for s in facts.statics.values() if s.get('mutable')]
    for s in muts:
        res.bad(R, 'static-mut:' + s['path'], '%s:%s' % (s['file'], s['lo']), '`static mut` in analysed code')
    res.floor(R, 'generated parser data accessors seen', n, 20)
