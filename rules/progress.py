"""A6 cursor progress: termination evidence for the loops of hand-written scanners (DESIGN.md §3 A6).

For a natural loop L with header h, every cycle h -> ... -> h is enumerated symbolically (inner loops are *widened*:
at an inner header every local assigned in the inner loop's body becomes a symbol `widen(h', l)` that is known to be
>= its value on entry iff the inner loop is monotone in l).  A usize local c is a *cursor* of L when on every cycle its
final value is strictly greater than its value at h.  "Strictly greater" is derived on terms:

    t + k (k a positive constant, a char::len_utf8(), the len() of a non-empty literal, Match::end() of a regex literal
    whose minimum match width is >= 1), or the cursor component of the value returned by a repository function, obtained
    by evaluating that function's return paths with the actual arguments substituted (no hand-written summaries).
"""
import re
from mirlib import *

UNK, EQ, GE, GT = 0, 1, 2, 3
LEAVES = ('mutated', 'mref', 'sref', 'static', 'fn', 'const', 'uninit', 'cst', 'opaque')


def compose(r1, r2):
    if r1 == UNK or r2 == UNK:
        return UNK
    if GT in (r1, r2):
        return GT
    if GE in (r1, r2):
        return GE
    return EQ


def join(r1, r2):
    """weakest common guarantee of two alternatives"""
    if r1 == UNK or r2 == UNK:
        return UNK
    if r1 == r2:
        return r1
    return GE


def regex_min_width(pat):
    """minimum number of characters matched by a regex literal (common subset; unknown constructs count as 0)"""
    pos = [0]

    def peek():
        return pat[pos[0]] if pos[0] < len(pat) else ''

    def alt():
        best = None
        while True:
            w = seq()
            best = w if best is None else min(best, w)
            if peek() == '|':
                pos[0] += 1
                continue
            break
        return best or 0

    def seq():
        total = 0
        while pos[0] < len(pat) and peek() not in '|)':
            w = atom()
            # quantifier
            q = peek()
            if q in ('*', '?'):
                pos[0] += 1
                w = 0
            elif q == '+':
                pos[0] += 1
            elif q == '{':
                m = re.match(r'\{(\d*)(,(\d*))?\}', pat[pos[0]:])
                if m:
                    pos[0] += m.end()
                    lo = int(m.group(1)) if m.group(1) else 0
                    w = w * lo
            if peek() == '?':  # lazy
                pos[0] += 1
            total += w
        return total

    def atom():
        c = peek()
        if c == '(':
            pos[0] += 1
            if pat[pos[0]:pos[0] + 2] == '?:':
                pos[0] += 2
            elif pat[pos[0]:pos[0] + 1] == '?':
                # flags / named groups / lookaround: give up conservatively on this group
                depth = 1
                while pos[0] < len(pat) and depth:
                    if pat[pos[0]] == '\\':
                        pos[0] += 1
                    elif pat[pos[0]] == '(':
                        depth += 1
                    elif pat[pos[0]] == ')':
                        depth -= 1
                    pos[0] += 1
                return 0
            w = alt()
            if peek() == ')':
                pos[0] += 1
            return w
        if c == '[':
            pos[0] += 1
            if peek() == '^':
                pos[0] += 1
            if peek() == ']':
                pos[0] += 1
            while pos[0] < len(pat) and peek() != ']':
                if peek() == '\\':
                    pos[0] += 1
                    if pat[pos[0]:pos[0] + 2] in ('p{', 'P{'):
                        pos[0] = pat.index('}', pos[0])
                elif peek() == '[' and pat[pos[0]:pos[0] + 2] == '[:':
                    pos[0] = pat.index(':]', pos[0]) + 1
                pos[0] += 1
            pos[0] += 1
            return 1
        if c == '\\':
            pos[0] += 1
            e = peek()
            pos[0] += 1
            if e in ('p', 'P') and peek() == '{':
                pos[0] = pat.index('}', pos[0]) + 1
                return 1
            if e in 'bBAzZ':
                return 0
            return 1
        if c in '^$':
            pos[0] += 1
            return 0
        pos[0] += 1
        return 1

    try:
        return alt()
    except Exception:
        return 0


# Facts the analysis cannot derive; each read and confirmed on the pinned tree (DESIGN.md Appendix A.4).
TRUSTED_FN = {
    # (function, component steps) -> (cursor parameter, relation, reason)
    ('lrlex::parser::LexParser::parse_declaration', (('dc', 0), ('f', 0))):
        (2, GT, 'a start-state declaration begins with `%s`/`%x` (anchored regexes) and the returned cursor lies at or after '
                'the end of its last start-state name (computed in a closure through pointer arithmetic the analysis cannot follow)'),
    ('lrlex::parser::LexParser::parse_rule', (('dc', 0), ('f', 0))):
        (2, GT, 'returns i + line_len, and line_len >= 1 because an Ok return requires a separating space inside the line'),
}
TRUSTED_POS = {
    'TP1': 'the offset of the next line separator from X is >= 2 when the text at X starts with `//` (a separator cannot match inside it)',
    'TP2': 'the offset of the next line separator from X is >= 1 when X follows parse_nl (no separator at X) and parse_ws moved past X '
           '(so a non-newline white-space character stands at X)',
}


class Progress:
    def __init__(self, facts, crates):
        self.cur_conds = ()
        self.cond_key = None
        self.LA = set()
        self.NE = set()
        self.trust_used = {}
        self.facts = facts
        self.bodies = {b.path: b for b in facts.lib_bodies(crates)}
        self.regex_cache = {}
        self.ret_cache = {}
        self.ret_facts = {}
        self.LE = []
        self.mono_cache = {}
        self.inprogress = set()
        self.hyp = {}
        self.hyp_done = {}
        self.rel_cache = {}
        self.max_paths = 6000
        self.notes = []

    # ---- regex literals of statics
    def regex_of_static(self, spath):
        if spath in self.regex_cache:
            return self.regex_cache[spath]
        lit = None
        for b in self.facts.bodies.values():
            if b.kind == 'closure' and (b.parent == spath or b.root_parent == spath):
                has_new = any(cname(t) == 'new' and ('Regex' in (cpath(t) or '')) for bb, t in b.calls())
                if not has_new:
                    continue
                strs = []
                for bb, i, st in b.stmts():
                    if st['k'] == 'assign' and 'use' in st['rv']:
                        c = st['rv']['use'].get('const')
                        if c and 'str' in c:
                            strs.append(c['str'])
                for bb, t in b.calls():
                    for a in t['args']:
                        c = a.get('const')
                        if c and 'str' in c:
                            strs.append(c['str'])
                if len(strs) == 1:
                    lit = strs[0]
        self.regex_cache[spath] = lit
        return lit

    # ---- loop helpers
    def loop_assigned(self, body, h):
        key = (body.path, h)
        if key in self.mono_cache.get('_assigned', {}):
            return self.mono_cache['_assigned'][key]
        blocks = body.loops()[h]
        out = set()
        for b in blocks:
            for st in body.blocks[b]['stmts']:
                if st['k'] == 'assign':
                    out.add(st['lhs']['l'])
                    rv = st['rv']
                    if 'ref' in rv and rv.get('mut') and ('deref',) not in pkey(rv['ref'])[1]:
                        out.add(rv['ref']['l'])
            t = body.term(b)
            if t['k'] == 'call':
                out.add(t['dest']['l'])
        self.mono_cache.setdefault('_assigned', {})[key] = out
        return out

    def walker(self, body, start, is_cycle_of=None):
        """walker that widens inner loops"""
        loops = body.loops()
        headers = set(loops)
        prog = self

        class W(Walker):
            def _walk(self2, bb, env, path, known, onpath):
                # widen at (inner) loop headers on first entry
                return Walker._walk(self2, bb, env, path, known, onpath)

        w = Walker(body, self.facts, max_paths=self.max_paths)
        w.widen_headers = {h for h in headers if h != start}
        w.widen_assigned = {h: self.loop_assigned(body, h) for h in w.widen_headers}
        return w

    def cycles(self, body, h):
        """paths from header h back to h (inner loops widened)"""
        key = ('cyc', body.path, h)
        if key in self.ret_cache:
            return self.ret_cache[key]
        w = self.walker(body, h)
        loopblocks = body.loops()[h]
        ps = w.run(h, stop=lambda x: x not in loopblocks)
        cyc = [p for p in ps if p.end == ('loop', h)]
        res = (cyc, w.overflow)
        self.ret_cache[key] = res
        return res

    def monotone(self, fpath, h, l):
        """in loop h of function fpath, is local l never decreased by a cycle"""
        key = (fpath, h, l)
        if key in self.mono_cache:
            return self.mono_cache[key]
        self.mono_cache[key] = False  # recursion guard
        body = self.bodies.get(fpath)
        ok = False
        if body is not None and h in body.loops():
            cyc, ovf = self.cycles(body, h)
            if not ovf:
                ok = True
                base = self.base_of(body, l)
                saved = getattr(self, 'cur_conds', ())
                for p in cyc:
                    fin = p.env.get((l, ()), base)
                    self.set_conds(p.conds)
                    if self.rel(fin, base, body) == UNK:
                        ok = False
                        break
                self.set_conds(saved)      # the caller's path conditions are in force again
        self.mono_cache[key] = ok
        return ok

    def rel_widened_option(self, wt, base, body, depth):
        """Some-payload of a loop-carried Option<usize>: wt = ('widen', fpath, h, l, prev, ((c, prev_c), ..)).  Either the value it had
        before the loop, or a value stored in the loop; the latter is bounded below by a monotone usize cursor c of the same loop
        (payload >= c at the start of the storing iteration >= c on entry)."""
        fpath, h, l, prev, ctx = wt[1:6]
        out = None
        if prev[0] == 'variant' and prev[3] == 'Some' and prev[4]:
            out = self.rel(prev[4][0], base, body, depth + 1)
            if out == UNK:
                return UNK
        elif not (prev[0] == 'variant' and prev[3] == 'None'):
            return UNK
        bound = self.option_payload_bound(fpath, h, l)
        if bound is None:
            return UNK
        if bound == 'never-set':
            return out if out is not None else GT       # no Some is ever stored: the payload does not exist
        c, r = bound
        pc = dict(ctx).get(c)
        if pc is None:
            return UNK
        rb = self.rel(pc, base, body, depth + 1)
        if rb == UNK:
            return UNK
        here = compose(rb, r)
        return here if out is None else join(out, here)

    def option_payload_bound(self, fpath, h, l):
        key = ('opt', fpath, h, l)
        if key in self.mono_cache:
            return self.mono_cache[key]
        self.mono_cache[key] = None
        fb = self.bodies.get(fpath)
        res = None
        if fb is not None and h in fb.loops():
            saved = getattr(self, 'cur_conds', ())
            try:
                w = self.walker(fb, h)
                L = fb.loops()[h]
                ps = w.run(h, stop=lambda x: x not in L)
                if not w.overflow:
                    base_l = self.base_of(fb, l)
                    stores = []
                    ok = True
                    for p in ps:
                        fin = p.env.get((l, ()), base_l)
                        if fin == base_l:
                            continue
                        if fin[0] == 'variant' and fin[3] == 'None':
                            continue
                        if fin[0] == 'variant' and fin[3] == 'Some' and fin[4]:
                            stores.append((p, fin[4][0]))
                        else:
                            ok = False
                    if ok and not stores:
                        res = 'never-set'
                    elif ok:
                        for c in sorted(x for x in self.loop_assigned(fb, h) if fb.lty(x) == 'usize'):
                            if not self.monotone(fpath, h, c):
                                continue
                            worst = None
                            for p, v in stores:
                                self.set_conds(p.conds)
                                r = self.rel(v, self.base_of(fb, c), fb)
                                worst = r if worst is None else join(worst, r)
                                if worst == UNK:
                                    break
                            if worst in (GE, GT, EQ):
                                res = (c, GE if worst == EQ else worst)
                                break
            finally:
                self.set_conds(saved)
        self.mono_cache[key] = res
        return res

    def set_conds(self, conds):
        """path conditions of the cycle being analysed (used by conditional facts)"""
        self.cur_conds = tuple(conds)
        la, ne, lt = set(), set(), set()
        for c, v in conds:
            t = c
            neg = False
            if t[0] == 'call' and strip_generics(t[1]).split('::')[-1] in ('is_some', 'is_none') and t[2]:
                neg = strip_generics(t[1]).endswith('is_none')
                inner = strip_ref(t[2][0])
                truth = (v == 1) != neg
                if truth and inner[0] == 'call' and strip_generics(inner[1]).endswith('::lookahead_is') and len(inner[2]) >= 3:
                    s_, y = inner[2][1], inner[2][2]
                    if is_const(s_) and isinstance(s_[1], str) and s_[1]:
                        la.add((s_[1], y))
            elif t[0] == 'discr' and t[1][0] == 'call' and strip_generics(t[1][1]).endswith('::lookahead_is') and v == 1:
                inner = t[1]
                s_, y = inner[2][1], inner[2][2]
                if is_const(s_) and isinstance(s_[1], str) and s_[1]:
                    la.add((s_[1], y))
            elif t[0] == 'bin' and t[1] in ('Ne', 'Eq'):
                if (t[1] == 'Ne' and v == 1) or (t[1] == 'Eq' and v == 0):
                    ne.add((t[2], t[3]))
            elif t[0] == 'bin' and t[1] == 'Lt' and v == 1:
                lt.add((t[2], strip_ref(t[3])))
            elif t[0] == 'bin' and t[1] == 'Le' and v == 0:
                lt.add((t[3], strip_ref(t[2])))
        self.LA, self.NE, self.LT = la, ne, lt
        self.cond_key = (frozenset(la), frozenset(ne), frozenset(lt))

    def base_of(self, body, l):
        return ('param', l) if 1 <= l <= body.arg_count else ('uninit', l)

    # ---- signs
    def sign(self, t, body):
        """'pos' | 'nonneg' | None"""
        t = strip_ref(t)
        if is_const(t) and isinstance(t[1], int):
            return 'pos' if t[1] > 0 else ('nonneg' if t[1] == 0 else None)
        if t[0] in ('call',):
            nm = strip_generics(t[1]).split('::')[-1]
            if nm == 'len_utf8':
                return 'pos'
            if nm == 'len':
                a = strip_ref(t[2][0]) if t[2] else None
                if a is not None and is_const(a) and isinstance(a[1], str):
                    return 'pos' if len(a[1]) > 0 else 'nonneg'
                # the text of a regex match: as long as the shortest string the regex matches
                if a is not None and a[0] == 'call' and strip_generics(a[1]).split('::')[-1] == 'as_str' and 'Match' in a[1] and a[2]:
                    rx = self.match_regex(strip_ref(a[2][0]))
                    if rx is not None and regex_min_width(rx) >= 1:
                        return 'pos'
                return 'nonneg'
            if nm in ('end', 'start') and 'Match' in t[1]:
                if nm == 'start':
                    tp = self.trusted_linesep(strip_ref(t[2][0]))
                    if tp:
                        self.trust_used[tp] = TRUSTED_POS[tp]
                        return 'pos'
                    return 'nonneg'
                # Match::end(): positive when the regex cannot match the empty string
                m = strip_ref(t[2][0])
                rx = self.match_regex(m)
                if rx is not None and regex_min_width(rx) >= 1:
                    return 'pos'
                return 'nonneg'
            if nm in ('count', 'width', 'len_utf16'):
                return 'nonneg'
            if nm == 'sum' and t[1].startswith('core::iter::') and term_has(t, lambda x: isinstance(x, tuple) and len(x) == 2 and x[0] == 'fn'
                                                                          and x[1].rsplit('::', 1)[-1] in ('len_utf8', 'len', 'len_utf16', 'count')):
                return 'nonneg'     # a sum of lengths (usize values)
            if nm == 'unwrap_or' and len(t[2]) == 2:
                o = strip_ref(t[2][0])
                s2 = self.sign(t[2][1], body)
                s1 = None
                if o[0] == 'call' and strip_generics(o[1]).split('::')[-1] == 'map' and len(o[2]) == 2 and o[2][1][0] == 'closure':
                    s1 = self.sign_closure(o[2][1], strip_ref(o[2][0]), body)
                if s1 and s2:
                    return 'pos' if (s1, s2) == ('pos', 'pos') else 'nonneg'
                return None
        if t[0] == 'bin' and t[1] in ('Add', 'Mul'):
            a, b = self.sign(t[2], body), self.sign(t[3], body)
            if a and b:
                if t[1] == 'Add':
                    return 'pos' if 'pos' in (a, b) else 'nonneg'
                return 'pos' if (a, b) == ('pos', 'pos') else 'nonneg'
        if t[0] == 'bin' and t[1] == 'Sub':
            # len(src) - X: positive when the text is known to extend beyond X
            if self.len_gt(t[2], t[3], body):
                return 'pos'
            a = strip_ref(t[2])
            if a[0] == 'call' and strip_generics(a[1]).split('::')[-1] == 'len':
                return 'nonneg'
            return None
        if t[0] in ('cast', 'conv'):
            return self.sign(t[2], body) if t[0] == 'cast' else self.sign(t[2], body)
        if t[0] in ('len',):
            return 'nonneg'
        if t[0] == 'field' and t[1][0] == 'downcast' and t[1][1][0] == 'call' and strip_generics(t[1][1][1]).split('::')[-1] in ('find', 'rfind', 'position', 'rposition') \
                and t[1][1][1].startswith(('core::str::', 'core::iter::', 'core::slice::')):
            return 'nonneg'     # the usize payload of a std search result
        if t[0] == 'field' and t[2] == 0 and t[1][0] == 'field' and t[1][1][0] == 'downcast' and t[1][1][1][0] == 'call' \
                and strip_generics(t[1][1][1][1]).split('::')[-1] == 'next' and ('CharIndices' in t[1][1][1][1] or 'Enumerate' in t[1][1][1][1]
                    or ('Peekable' in t[1][1][1][1] and term_has(t[1][1][1], lambda x: isinstance(x, tuple) and x and x[0] == 'call' and x[1].rsplit('::', 1)[-1] in ('char_indices', 'enumerate')))):
            return 'nonneg'     # the position half of a (position, item) pair
        return None

    def sign_closure(self, clo, opt, body):
        cb = self.bodies.get(clo[1])
        if cb is None:
            return None
        comps = self.ret_components(cb, ())
        if not comps:
            return None
        payload = ('field', ('downcast', opt, 1, 'Some'), 0, '0')
        out = None
        for c in comps:
            ct = self.subst(c, {('param', 2): ('closure-arg',)})
            ct = self.subst(self.subst_upvars(ct, clo[2]), {('closure-arg',): payload})
            sg = self.sign(ct, body)
            if sg is None:
                return None
            out = sg if out is None else ('pos' if (out, sg) == ('pos', 'pos') else 'nonneg')
        return out

    def len_gt(self, lent, x, body):
        """is `lent` (the length of the source text) known to exceed cursor x on the current path?
        derived: lookahead_is(s, Y) matched with s non-empty and x == Y  =>  len >= Y + |s| > x"""
        a = strip_ref(lent)
        if not (a[0] == 'call' and strip_generics(a[1]).split('::')[-1] == 'len'):
            return False
        for s_, y in self.LA:
            if y == x:
                return True
        # a cursor q >= x with q != x exists (and cursors never exceed the text length)  =>  len > x
        for p_, q_ in self.NE:
            for u, v in ((p_, q_), (q_, p_)):
                if u == x and self.rel(v, x, body) in (GE, GT):
                    return True
        return False

    def linesep_premises(self):
        """premises of TP1/TP2, checked on the regex literals themselves: the line-separator class matches white space only
        (so it cannot match inside `//`), and parse_nl's regex is exactly `^<that class>*` (so nothing the separator regex
        matches can stand where parse_nl stopped)"""
        sep = self.regex_of_static('lrlex::parser::RE_LINE_SEP')
        lead = self.regex_of_static('lrlex::parser::RE_LEADING_LINE_SEPS')
        def single_class(r):
            """r is exactly ONE bracket class `[ ... ]` (nested classes allowed inside), nothing before or after it"""
            if not r or r[0] != '[':
                return False
            depth = 0
            i = 0
            while i < len(r):
                ch = r[i]
                if ch == '\\':
                    i += 2
                    continue
                if ch == '[':
                    depth += 1
                elif ch == ']':
                    depth -= 1
                    if depth == 0:
                        return i == len(r) - 1
                i += 1
            return False
        ws_only = bool(sep) and single_class(sep) and sep.startswith('[\\p{Pattern_White_Space}&&')
        agree = bool(sep) and bool(lead) and single_class(sep) and lead == '^' + sep + '*'
        return ws_only, agree

    def trusted_linesep(self, m):
        """TP1/TP2: m is the Match of the lrlex line-separator regex searched from cursor X"""
        for x in subterms(m):
            if isinstance(x, tuple) and x and x[0] == 'call' and strip_generics(x[1]).split('::')[-1] == 'find' and len(x[2]) == 2:
                st = [y for y in subterms(x[2][0]) if isinstance(y, tuple) and y and y[0] == 'static']
                if not st or st[0][1] != 'lrlex::parser::RE_LINE_SEP':
                    return None
                hay = strip_ref(x[2][1])
                if not (hay[0] == 'call' and strip_generics(hay[1]).endswith('::index') and len(hay[2]) == 2):
                    return None
                rng = hay[2][1]
                if not (rng[0] == 'variant' and rng[3] == 'RangeFrom'):
                    return None
                X = rng[4][0]
                ws_only, agree = self.linesep_premises()
                for s_, y in self.LA:
                    if s_ == '//' and y == X and ws_only:
                        return 'TP1'
                if not agree:
                    return None
                for a, b in self.NE:
                    for p, q in ((a, b), (b, a)):
                        if p == X and self.is_ok_payload_of(q, 'parse_ws', X) and self.is_ok_payload_of(X, 'parse_nl', None):
                            return 'TP2'
                return None
        return None

    def is_ok_payload_of(self, t, fname, arg):
        """t == Ok-payload (through `?`) of a call to lrlex's fname(self, arg)"""
        for x in subterms(t):
            if isinstance(x, tuple) and x and x[0] == 'call' and strip_generics(x[1]).endswith('LexParser::' + fname):
                if arg is None or (len(x[2]) >= 2 and x[2][1] == arg):
                    # t must be nothing but projections/branch around x
                    y = t
                    while isinstance(y, tuple) and y and y[0] in ('field', 'downcast'):
                        y = y[1]
                    if y[0] == 'call' and strip_generics(y[1]).endswith('::branch'):
                        y = strip_ref(y[2][0])
                    return y == x
        return False

    def match_regex(self, m):
        """regex literal for a Match term: payload of find(regex, ..)"""
        for x in subterms(m):
            if isinstance(x, tuple) and x and x[0] == 'call' and strip_generics(x[1]).split('::')[-1] in ('find', 'find_at', 'captures'):
                for y in subterms(x[2][0]):
                    if isinstance(y, tuple) and y and y[0] == 'static':
                        return self.regex_of_static(y[1])
        return None

    # ---- relation of a term to a base term
    def rel(self, t, base, body, depth=0):
        if depth > 400:
            return UNK
        if t == base:
            return EQ
        memo = not self.hyp and not self.LE
        if memo:
            key = (t, base, self.cond_key)
            if key in self.rel_cache:
                return self.rel_cache[key]
        r = self.rel_(t, base, body, depth)
        if r == GE and self.NE and depth < 50:
            # t >= base only; a comparison on this path found t different from some v with base <= v <= t: then t > v >= base
            for p_, q_ in self.NE:
                for u, v in ((p_, q_), (q_, p_)):
                    if u != t or r == GT:
                        continue
                    if v == base:
                        r = GT
                    elif self.rel(v, base, body, depth + 100) != UNK and self.rel_(t, v, body, depth + 100) in (GE, GT):
                        r = GT
        if memo and not self.hyp and not self.LE:
            self.rel_cache[key] = r
        return r

    def rel_(self, t, base, body, depth):
        k = t[0]
        if k in ('ref', 'deref'):
            return self.rel(t[1], base, body, depth + 1)
        if k == 'cast':
            return self.rel(t[2], base, body, depth + 1) if 'usize' in t[1] or 'u64' in t[1] else UNK
        if k == 'conv':
            return self.rel(t[2], base, body, depth + 1)
        if k == 'bin' and t[1] == 'Add':
            for a, b in ((t[2], t[3]), (t[3], t[2])):
                ra = self.rel(a, base, body, depth + 1)
                if ra != UNK:
                    s = self.sign(b, body)
                    if s == 'pos':
                        return GT
                    if s == 'nonneg':
                        return max(ra, GE)
            return UNK
        if k == 'bin' and t[1] == 'Sub':
            # len(S) - len(rest) with rest = S[X..].strip_prefix(P) (or the tail left by another prefix operation): that is X + len(P)
            a, r_ = strip_ref(t[2]), strip_ref(t[3])

            def lenof(x):
                if x[0] == 'call' and strip_generics(x[1]).split('::')[-1] == 'len' and x[2]:
                    return strip_ref(x[2][0])
                if x[0] == 'len':
                    return strip_ref(x[1])
                return None
            S, rest = lenof(a), lenof(r_)
            if S is not None and rest is not None and rest[0] == 'field' and rest[1][0] == 'downcast' and rest[1][3] == 'Some':
                c = strip_ref(rest[1][1])
                if c[0] == 'call' and strip_generics(c[1]).split('::')[-1] == 'strip_prefix' and len(c[2]) == 2:
                    hay, pat = strip_ref(c[2][0]), c[2][1]
                    if hay[0] == 'call' and strip_generics(hay[1]).split('::')[-1] == 'index' and len(hay[2]) == 2 and strip_ref(hay[2][0]) == S \
                            and hay[2][1][0] == 'variant' and hay[2][1][3] == 'RangeFrom':
                        x = hay[2][1][4][0]
                        rx = self.rel(x, base, body, depth + 1)
                        if rx != UNK:
                            ps_ = strip_ref(pat)
                            plen = ('call', 'core::str::<impl str>::len', (ps_,))
                            sg = self.sign(plen, body) if not (is_const(ps_) and isinstance(ps_[1], int)) else 'pos'
                            return GT if sg == 'pos' else max(rx, GE)
        if k == 'call' and strip_generics(t[1]).split('::')[-1] == 'len' and self.LA:
            # the text is known to extend beyond Y + |s| for every matched lookahead
            best = UNK
            for s_, y in self.LA:
                ry = self.rel(y, base, body, depth + 1)
                if ry != UNK:
                    best = GT
            if best != UNK:
                return best
        if k == 'call' and strip_generics(t[1]).split('::')[-1] == 'len' and self.LE and t[2]:
            # x <= len(S) is known on the callee's return path (S[x..] was taken): len(S) is at least whatever x is at least
            S0 = strip_ref(t[2][0])
            for facts in self.LE:
                for x, S in facts:
                    if S == S0:
                        rx = self.rel(x, base, body, depth + 1)
                        if rx != UNK:
                            return max(rx, GE) if rx != EQ else GE
        if k == 'call' and strip_generics(t[1]).split('::')[-1] == 'len' and getattr(self, 'LT', None):
            # a comparison on this path found X < len: the length exceeds whatever X is at least
            for x, lent in self.LT:
                if lent == t and self.rel(x, base, body, depth + 1) != UNK:
                    return GT
        if k == 'field' and t[1][0] == 'downcast' and t[1][2] == 1 and t[1][1][0] == 'widen' and len(t[1][1]) > 5:
            return self.rel_widened_option(t[1][1], base, body, depth)
        if k == 'widen':
            # ('widen', fpath, h, l, prev)
            if self.monotone(t[1], t[2], t[3]):
                return compose(self.rel(t[4], base, body, depth + 1), GE)
            return UNK
        # component of a call result
        call, steps = self.access(t)
        if call is not None:
            return self.rel_call(call, steps, base, body, depth + 1)
        return UNK

    def access(self, t):
        """peel field/downcast projections down to a call: returns (call term, [steps])"""
        steps = []
        x = t
        while isinstance(x, tuple) and x and x[0] in ('field', 'downcast'):
            if x[0] == 'field':
                steps.append(('f', x[2]))
            else:
                steps.append(('dc', x[2]))
            x = x[1]
        if isinstance(x, tuple) and x and x[0] in ('call',):
            steps.reverse()
            return x, steps
        return None, None

    def rel_call(self, call, steps, base, body, depth):
        f = call[1]
        args = call[2]
        nm = strip_generics(f).split('::')[-1]
        # std models
        if nm == 'branch' and args:  # `?` : Continue(payload) = Ok/Some payload of the operand
            inner = strip_ref(args[0])
            if steps and steps[0] == ('dc', 0):
                rest = steps[1:]
                if rest and rest[0][0] == 'f':
                    rest = rest[1:]
                    st = self.type_is_option(inner)
                    return self.rel(self.wrap(inner, [('dc', 1 if st else 0), ('f', 0)] + rest), base, body, depth + 1)
            return UNK
        if nm in ('unwrap', 'expect', 'unwrap_unchecked') and args:
            inner = strip_ref(args[0])
            st = self.type_is_option(inner)
            return self.rel(self.wrap(inner, [('dc', 1 if st else 0), ('f', 0)] + steps), base, body, depth + 1)
        if nm == 'unwrap_or' and len(args) == 2:
            inner = strip_ref(args[0])
            st = self.type_is_option(inner)
            r1 = self.rel(self.wrap(inner, [('dc', 1 if st else 0), ('f', 0)] + steps), base, body, depth + 1)
            r2 = self.rel(self.wrap(args[1], steps), base, body, depth + 1)
            return join(r1, r2)
        if nm == 'map' and len(args) == 2 and steps[:2] == [('dc', 1), ('f', 0)] and args[1][0] == 'closure':
            return self.rel_closure(args[1], steps[2:], base, body, depth + 1, strip_ref(args[0]))
        if nm == 'find_map' and len(args) == 2 and args[1][0] == 'closure' and steps[:2] == [('dc', 1), ('f', 0)]:
            # find_map over a LITERAL table: the result's Some payload is the closure's Some payload for one of the table's rows
            rows = [x for x in subterms(args[0]) if isinstance(x, tuple) and x and x[0] == 'array']
            cb = self.bodies.get(args[1][1])
            if len(rows) == 1 and rows[0][1] and cb is not None:
                comps = self.ret_components(cb, tuple(steps))
                if comps is None:
                    return UNK
                if not comps:
                    return GT
                worst = None
                for row in rows[0][1]:
                    for c in comps:
                        ct = self.subst(c, {('param', 2): ('closure-arg',)})
                        ct = self.subst_upvars(ct, args[1][2])
                        ct = self.subst(ct, {('closure-arg',): row})
                        r = self.rel(ct, base, body, depth + 1)
                        worst = r if worst is None else join(worst, r)
                        if worst == UNK:
                            return UNK
                return worst
            return UNK
        if nm in ('checked_add', 'saturating_add', 'wrapping_add') and len(args) == 2:
            st2 = steps[2:] if steps[:2] == [('dc', 1), ('f', 0)] else (steps if nm != 'checked_add' else None)
            if st2 is not None and not st2:
                return self.rel(('bin', 'Add', args[0], args[1]), base, body, depth + 1)
            return UNK
        if nm in ('max',) and len(args) == 2 and not steps:
            return max(self.rel(args[0], base, body, depth + 1), self.rel(args[1], base, body, depth + 1))
        if nm == 'from' or nm == 'into' or nm == 'clone':
            if args:
                return self.rel(self.wrap(args[0], steps), base, body, depth + 1)
        # repository function: evaluate its return paths with the actual arguments
        fb = self.bodies.get(f)
        if fb is None:
            return UNK
        tf = TRUSTED_FN.get((strip_generics(f), tuple(steps)))
        if tf is not None:
            k, r, reason = tf
            self.trust_used['fn:' + strip_generics(f)] = reason
            if k - 1 < len(args):
                return compose(self.rel(args[k - 1], base, body, depth + 1), r)
            return UNK
        if f in self.recursive_fns():
            # recursive: inductive hypothesis "component REL k-th parameter" (greatest fixed point)
            best = UNK
            for k in range(1, fb.arg_count + 1):
                if fb.lty(k) != 'usize' or k - 1 >= len(args):
                    continue
                ra = self.rel(args[k - 1], base, body, depth + 1)
                if ra == UNK:
                    continue
                best = max(best, compose(ra, self.fn_rel(fb, tuple(steps), k)))
            return best
        comps = self.ret_components(fb, tuple(steps))
        if comps is None:
            return UNK
        if not comps:
            return GT  # no return path produces this variant: vacuous
        amap = {('param', i + 1): a for i, a in enumerate(args)}
        worst = None
        for c in comps:
            ct = self.subst(c, amap)
            facts = self.ret_facts.get((fb.path, tuple(steps), c))
            if facts:
                self.LE.append({(self.subst(x, amap), strip_ref(self.subst(S, amap))) for x, S in facts})
                try:
                    r = self.rel(ct, base, body, depth + 1)
                finally:
                    self.LE.pop()
            else:
                r = self.rel(ct, base, body, depth + 1)
            worst = r if worst is None else join(worst, r)
            if worst == UNK:
                break
        return worst

    def recursive_fns(self):
        if getattr(self, '_rec', None) is None:
            cg = CallGraph(self.facts, sorted({b.crate for b in self.bodies.values()}))
            rec = set()
            for comp in cg.sccs(set(cg.bodies)):
                rec.update(comp)
            self._rec = rec
        return self._rec

    def fn_rel(self, fb, steps, k):
        key = (fb.path, steps, k)
        if key in self.hyp_done:
            return self.hyp_done[key]
        if key in self.hyp:
            return self.hyp[key]
        self.hyp[key] = GT
        while True:
            comps = self.ret_components(fb, steps)
            if comps is None:
                r = UNK
            elif not comps:
                r = GT
            else:
                r = None
                for c in comps:
                    x = self.rel(c, ('param', k), fb)
                    r = x if r is None else join(r, x)
                    if r == UNK:
                        break
            if r == self.hyp[key] or r == UNK:
                break
            # weaker than assumed: retry under the weaker hypothesis
            if r > self.hyp[key]:
                r = self.hyp[key]
                break
            self.hyp[key] = r
        del self.hyp[key]
        self.hyp_done[key] = r
        return r

    def type_is_option(self, t):
        """best effort: does the term denote an Option (vs Result)?  decided from constructors / callee return type"""
        if t[0] == 'variant':
            return t[1].endswith('Option')
        if t[0] == 'call':
            fb = self.bodies.get(t[1])
            if fb is not None:
                return fb.lty(0).startswith('core::option::Option<')
            nm = strip_generics(t[1]).split('::')[-1]
            if nm in ('find', 'next', 'get', 'map', 'find_at', 'captures', 'pop', 'checked_add', 'checked_sub', 'strip_prefix'):
                return True
            if '::option::Option' in t[1]:
                return True
            if '::result::Result' in t[1]:
                return False
        return False

    def wrap(self, t, steps):
        for s in steps:
            if s[0] == 'dc':
                if t[0] == 'variant':
                    if self.variant_index(t) != s[1]:
                        return ('mismatch',)
                    continue
                if t[0] == 'call' and strip_generics(t[1]).endswith('::from_residual'):
                    # `?` propagating a failure: always the Err / None variant
                    failing = 1 if 'result::Result' in t[1] else 0
                    if s[1] != failing:
                        return ('mismatch',)
                t = ('downcast', t, s[1], None)
            else:
                t = simp(('field', t, s[1], None))
        return t

    def variant_index(self, v):
        return v[2]

    def rel_closure(self, clo, steps, base, body, depth, opt=None):
        cb = self.bodies.get(clo[1])
        if cb is None:
            return UNK
        comps = self.ret_components(cb, tuple(steps))
        if not comps:
            return UNK
        # captured values: env field k -> clo[2][k]
        worst = None
        for c in comps:
            m = {}
            for k, cap in enumerate(clo[2]):
                for nm in (None,) + tuple(set(cb.upvars().values())):
                    pass
            ct = c
            if opt is not None:
                # the closure's own parameter (the mapped element) first, then its captures
                ct = self.subst(ct, {('param', 2): ('closure-arg',)})
            ct = self.subst_upvars(ct, clo[2])
            if opt is not None:
                ct = self.subst(ct, {('closure-arg',): ('field', ('downcast', opt, 1, 'Some'), 0, '0')})
            r = self.rel(ct, base, body, depth + 1)
            worst = r if worst is None else join(worst, r)
        return worst

    def subst_upvars(self, t, caps):
        if not isinstance(t, tuple) or not t:
            return t
        if t[0] == 'field' and t[1] in (('param', 1), ('deref', ('param', 1))) and isinstance(t[2], int) and t[2] < len(caps):
            return caps[t[2]]
        if not isinstance(t[0], str):
            return tuple(self.subst_upvars(x, caps) if isinstance(x, tuple) else x for x in t)
        if t[0] in LEAVES:
            return t
        out = tuple(self.subst_upvars(x, caps) if isinstance(x, tuple) else x for x in t)
        if out[0] in ('deref', 'ref', 'field', 'downcast', 'discr', 'bin'):
            return simp(out)
        return out

    def subst(self, t, amap):
        if not isinstance(t, tuple) or not t:
            return t
        if t in amap:
            return amap[t]
        if not isinstance(t[0], str):
            return tuple(self.subst(x, amap) if isinstance(x, tuple) else x for x in t)  # a tuple of terms
        if t[0] in LEAVES:
            return t
        out = tuple(self.subst(x, amap) if isinstance(x, tuple) else x for x in t)
        if out[0] in ('deref', 'ref', 'field', 'downcast', 'discr', 'bin'):
            return simp(out)
        return out

    def ret_components(self, fb, steps):
        """terms (over fb's params) of the component `steps` of fb's return value, one per applicable return path;
        None when the function cannot be evaluated (too many paths / recursion)"""
        key = (fb.path, steps)
        if key in self.ret_cache:
            return self.ret_cache[key]
        if fb.path in self.inprogress:
            return None
        self.inprogress.add(fb.path)
        try:
            w = self.walker(fb, None)
            w.widen_headers = set(fb.loops())
            w.widen_assigned = {h: self.loop_assigned(fb, h) for h in w.widen_headers}
            ps = w.run(0)
            if w.overflow:
                self.ret_cache[key] = None
                return None
            comps = []
            for p in ps:
                if p.end[0] != 'return':
                    continue
                c = self.wrap(p.end[1], list(steps))
                if c == ('mismatch',) or term_has(c, lambda x: x == ('mismatch',)):
                    continue
                # a return value that is itself opaque w.r.t. the requested variant stays as projection term
                comps.append(c)
                # facts established by the path itself: a slice `S[x..]` that did not panic means x <= len(S)
                le = set()
                for e in p.events:
                    if e[0] == 'call' and e[2] and e[2]['name'] == 'index' and len(e[3]) == 2 and e[3][1][0] == 'variant' and e[3][1][3] in ('RangeFrom', 'Range') \
                            and ('str' in (e[2].get('self_ty') or '') or (e[2].get('self_ty') or '').startswith('[')):
                        le.add((e[3][1][4][0], strip_ref(e[3][0])))
                fk = (fb.path, steps, c)
                self.ret_facts[fk] = (self.ret_facts[fk] & frozenset(le)) if fk in self.ret_facts else frozenset(le)
            # dedupe
            seen, out = set(), []
            for c in comps:
                if c not in seen:
                    seen.add(c)
                    out.append(c)
            self.ret_cache[key] = out
            return out
        finally:
            self.inprogress.discard(fb.path)

    # ---- the loop verdict
    def loop_evidence(self, body, h):
        """returns (kind, detail): kind in 'T1' (iterator driven), 'T2' (cursor), 'T3' (worklist), None"""
        loops = body.loops()
        blocks = loops[h]
        # T1: a next()/pop-free iterator protocol: `next` called on an iterator local that is not assigned in the loop,
        # and the loop leaves when it yields None
        for bb, t in body.calls_named('next', blocks) + body.calls_named('next_back', blocks):
            c = callee_of(t)
            if not (c.get('trait') or '').startswith('core::iter::traits'):
                continue
            it, projs, via = body.op_root(t['args'][0], through=('by_ref',), stop_named=False)
            if it in self.loop_assigned(body, h) and not self.only_borrowed(body, h, it):
                continue
            # the None edge must leave the loop
            nb = t['ret']
            tt = body.term(nb)
            if tt['k'] == 'switch':
                outs = [s for s in body.succs(nb) if s not in blocks]
                if outs and self.dominates_latches(body, h, bb):
                    st = c.get('self_ty') or ''
                    return 'T1', 'driven by Iterator::next on %s (iterator not re-created in the loop)' % st[:70]
        cyc, ovf = self.cycles(body, h)
        if ovf:
            return None, 'path bound exceeded while enumerating cycles'
        if not cyc:
            return 'T0', 'no cycle is feasible'
        # T2 cursor
        cands = sorted({l for l in self.loop_assigned(body, h) if body.lty(l) == 'usize' and body.name_of(l)})
        best = None
        for l in cands:
            base = self.base_of(body, l)
            bad = None
            for p in cyc:
                fin = p.env.get((l, ()), base)
                self.set_conds(p.conds)
                r = self.rel(fin, base, body)
                if r != GT:
                    bad = (p, fin, r)
                    break
            if bad is None:
                return 'T2', 'cursor `%s` strictly increases on each of the %d cycles' % (body.name_of(l), len(cyc))
            if best is None or (bad[2] > best[2][2]):
                best = (l, len(cyc), bad)
        # T3 worklist
        for bb, t in body.calls_named('pop', blocks):
            v, _p, _v = body.op_root(t['args'][0])
            grows = [(b2, t2) for b2, t2 in body.calls(blocks=blocks) if cname(t2) in ('push', 'extend', 'append', 'insert', 'push_back')
                     and t2['args'] and body.op_root(t2['args'][0])[0] == v]
            okall = True
            for b2, t2 in grows:
                # control dependent on HashSet::insert(..) == true inside the loop
                guarded = False
                for b3, t3 in body.calls_named('insert', blocks):
                    st = callee_of(t3).get('self_ty') or ''
                    if 'HashSet' in st and body.dominates(b3, b2):
                        w = Walker(body, self.facts, max_paths=256)
                        ps = w.run(b3, stop=lambda x: x == b2 or x not in blocks)
                        reach = [p for p in ps if p.end == ('stop', b2)]
                        if reach and all(any(c[0] == 'call' and c[1].endswith('::insert') and v2 == 1 for c, v2 in p.conds) for p in reach):
                            guarded = True
                if not guarded:
                    okall = False
            if okall:
                return 'T3', 'work list: every push is guarded by a successful HashSet::insert over a finite universe'
        if best:
            l, n, (p, fin, r) = best
            return None, 'no cursor strictly increases on every cycle; best candidate `%s`: on the cycle through blocks %s its value becomes %s (%s)' % (
                body.name_of(l), p.blocks[:30], fmt_term(fin)[:160], {UNK: 'unrelated/unknown', EQ: 'UNCHANGED', GE: 'only >='}[r])
        return None, 'no usize cursor is assigned in the loop'

    def const_steps(self, body, h):
        """byte cursors advanced by a CONSTANT on a cycle that looks at characters of the text: returns
        (n cycles examined, [(cursor name, k, n proven-ASCII characters, path)] unjustified steps).
        A constant step of k bytes is justified when the cycle has matched k characters against ASCII literals (a
        `match`/`==` on the char read at the cursor, or a lookahead for an ASCII string literal); a predicate like
        char::is_numeric / is_whitespace accepts multi-byte characters, after which `+ 1` lands inside a character."""
        cyc, ovf = self.cycles(body, h)
        if ovf or not cyc:
            return 0, []
        out = []
        n = 0
        cands = sorted({l for l in self.loop_assigned(body, h) if body.lty(l) == 'usize' and body.name_of(l)})
        for l in cands:
            base = self.base_of(body, l)
            for p in cyc:
                fin = p.env.get((l, ()), base)
                k = 0
                x = fin
                while isinstance(x, tuple) and x and x[0] == 'bin' and x[1] == 'Add' and (is_const(x[2]) or is_const(x[3])):
                    c, rest = (x[2], x[3]) if is_const(x[2]) else (x[3], x[2])
                    if not isinstance(c[1], int):
                        break
                    k += c[1]
                    x = rest
                if k <= 0 or x != base:
                    continue
                # does the cycle read characters of a str slice that starts at the cursor?
                def reads_at_cursor(t):
                    return term_has(t, lambda y: isinstance(y, tuple) and y and y[0] == 'call'
                                    and strip_generics(y[1]).split('::')[-1] in ('chars', 'char_indices', 'as_bytes', 'bytes')
                                    and term_has(y, lambda z: z == base))
                looked = [t for t, v in p.conds if reads_at_cursor(t)]
                looked += [e[5] for e in p.events if e[0] == 'call' and len(e) > 5 and isinstance(e[5], tuple) and reads_at_cursor(e[5])]
                if not looked:
                    continue
                n += 1
                def char_read(t):
                    """t IS a character taken from the text at the cursor (not a predicate over one)"""
                    x = t
                    while isinstance(x, tuple) and x:
                        if x[0] in ('field', 'downcast', 'deref', 'ref'):
                            x = x[1]
                        elif x[0] == 'cast':
                            x = x[2]
                        elif x[0] == 'call' and strip_generics(x[1]).split('::')[-1] in ('unwrap', 'expect', 'unwrap_unchecked') and x[2]:
                            x = x[2][0]
                        else:
                            break
                    return isinstance(x, tuple) and x and x[0] == 'call' and strip_generics(x[1]).split('::')[-1] in ('next', 'nth', 'peek') \
                        and reads_at_cursor(x)
                ascii_terms = set()
                for t, v in p.conds:
                    if isinstance(v, int) and not isinstance(v, bool) and 0 < v < 128 and char_read(t):
                        ascii_terms.add(t)
                    # an upper bound below 128 (range patterns: '0'..='9' compiles to two comparisons)
                    if t[0] == 'bin' and t[1] in ('Le', 'Lt', 'Ge', 'Gt') and isinstance(v, int):
                        op = t[1] if v == 1 else {'Le': 'Gt', 'Lt': 'Ge', 'Ge': 'Lt', 'Gt': 'Le'}[t[1]]
                        a, b_ = t[2], t[3]
                        if op in ('Ge', 'Gt'):
                            a, b_ = b_, a       # b_ >= a  ==  a <= b_
                        if is_const(b_) and isinstance(b_[1], int) and b_[1] <= 128 and char_read(a):
                            ascii_terms.add(a)
                    # char::is_ascii*() held
                    if t[0] == 'call' and strip_generics(t[1]).split('::')[-1].startswith('is_ascii') and v == 1 and t[2] and char_read(strip_ref(t[2][0])):
                        ascii_terms.add(strip_ref(t[2][0]))
                    # c == literal written as a comparison
                    if t[0] == 'bin' and t[1] in ('Eq', 'Ne') and ((t[1] == 'Eq') == (v == 1)):
                        for a, b_ in ((t[2], t[3]), (t[3], t[2])):
                            if is_const(b_) and isinstance(b_[1], int) and 0 < b_[1] < 128 and char_read(a):
                                ascii_terms.add(a)
                self.set_conds(p.conds)
                la = 0
                for s_, y in self.LA:
                    if s_.isascii() and self.rel(y, base, body) == EQ:
                        la = max(la, len(s_))
                # a look-ahead BEHIND the characters already matched: text[cursor + m ..].starts_with(<ASCII char(s)>) with 0 < m < k
                for t, v in p.conds:
                    if v == 1 and t[0] == 'call' and strip_generics(t[1]).split('::')[-1] == 'starts_with' and len(t[2]) == 2:
                        sl, pat = strip_ref(t[2][0]), strip_ref(t[2][1])
                        if not (sl[0] == 'call' and strip_generics(sl[1]).split('::')[-1] == 'index' and len(sl[2]) == 2 and sl[2][1][0] == 'variant' and sl[2][1][3] == 'RangeFrom'):
                            continue
                        st = sl[2][1][4][0]
                        if not (st[0] == 'bin' and st[1] == 'Add' and st[2] == base and is_const(st[3]) and isinstance(st[3][1], int) and 0 < st[3][1] < k):
                            continue
                        width = 0
                        if pat[0] == 'array' and pat[1] and all(is_const(x) and isinstance(x[1], int) and 0 < x[1] < 128 for x in pat[1]):
                            width = 1
                        elif is_const(pat) and isinstance(pat[1], int) and 0 < pat[1] < 128:
                            width = 1
                        elif is_const(pat) and isinstance(pat[1], str) and pat[1].isascii():
                            width = len(pat[1])
                        if st[3][1] == len(ascii_terms) + la:
                            la += width
                if k > len(ascii_terms) + la:
                    out.append((body.name_of(l), k, len(ascii_terms) + la, p))
        return n, out

    def only_borrowed(self, body, h, it):
        """the iterator local is only mutably borrowed (for next()) in the loop, never re-assigned"""
        blocks = body.loops()[h]
        for b in blocks:
            for st in body.blocks[b]['stmts']:
                if st['k'] == 'assign' and st['lhs']['l'] == it:
                    return False
            t = body.term(b)
            if t['k'] == 'call' and t['dest']['l'] == it:
                return False
        return True

    def dominates_latches(self, body, h, bb):
        latches = [u for (u, hh) in body.back_edges() if hh == h]
        return all(body.dominates(bb, u) for u in latches)
