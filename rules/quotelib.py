"""Token-level view of `quote!` expansions in MIR (A12): the sequence of identifiers, punctuation, groups and interpolated
values that a function pushes onto each proc_macro2::TokenStream, in program order.  Used where the property is about what
the GENERATED source says (C13): which builder value is interpolated next to which generated name."""
from mirlib import *
from c03 import const_str_of


def stream_of(b, op):
    r, _p, _v = b.op_root(op, through=(), stop_named=False)
    return r


def quote_events(b):
    """[(bb, stream local, kind, value)] in reverse post-order.  kind: ident | punct | group | interp | lit"""
    out = []
    for bb in b.rpo():
        t = b.term(bb)
        if t['k'] != 'call':
            continue
        p = cpath(t) or ''
        nm = cname(t)
        if p.startswith('quote::__private::push_'):
            s = stream_of(b, t['args'][0])
            what = nm[len('push_'):]
            if what.endswith('_spanned'):
                what = what[:-len('_spanned')]
                args = [t['args'][0]] + t['args'][2:]
            else:
                args = t['args']
            if what in ('ident', 'lifetime'):
                out.append((bb, s, 'ident', const_str_of(b, args[1])))
            elif what == 'group':
                out.append((bb, s, 'group', stream_of(b, args[2])))
            else:
                out.append((bb, s, 'punct', what))
        elif p.startswith('quote::__private::parse'):
            out.append((bb, stream_of(b, t['args'][0]), 'lit', const_str_of(b, t['args'][1])))
        elif nm == 'to_tokens' and len(t['args']) == 2:
            c = callee_of(t)
            if (c.get('trait') or '').endswith('ToTokens') or 'ToTokens' in p:
                out.append((bb, stream_of(b, t['args'][1]), 'interp', t['args'][0]))
    return out


def by_stream(evs):
    d = {}
    for e in evs:
        d.setdefault(e[1], []).append(e)
    return d


def interp_origin(b, op):
    """(root local, [named field projections met on the way]) of an interpolated value"""
    r, projs, via = b.op_root(op, through=Body.THROUGH + ('as_deref', 'cloned', 'copied', 'to_string', 'to_owned'), stop_named=False)
    names = []
    for pl in projs:
        for pr in pl:
            if isinstance(pr, dict) and 'f' in pr and pr.get('name'):
                names.append(pr['name'])
    return r, names
