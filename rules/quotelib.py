"""Token-level view of `quote!` expansions in MIR (A12): the sequence of identifiers, punctuation, groups and interpolated
values that a function pushes onto each proc_macro2::TokenStream, in program order.  Used where the property is about what
the GENERATED source says (C13): which builder value is interpolated next to which generated name."""
from mirlib import *
from c03 import const_str_of


def stream_of(b, op):
    r, _p, _v = b.op_root(op, through=(), stop_named=False)
    return r


def quote_events(b):
    """[(bb, stream local, kind, value)] in reverse post-order.  kind: ident | punct | group | interp | lit"""
    out = []
    for bb in b.rpo():
        t = b.term(bb)
        if t['k'] != 'call':
            continue
        p = cpath(t) or ''
        nm = cname(t)
        if p.startswith('quote::__private::push_'):
            s = stream_of(b, t['args'][0])
            what = nm[len('push_'):]
            if what.endswith('_spanned'):
                what = what[:-len('_spanned')]
                args = [t['args'][0]] + t['args'][2:]
            else:
                args = t['args']
            if what in ('ident', 'lifetime'):
                out.append((bb, s, 'ident', const_str_of(b, args[1])))
            elif what == 'group':
                out.append((bb, s, 'group', stream_of(b, args[2])))
            else:
                out.append((bb, s, 'punct', what))
        elif p.startswith('quote::__private::parse'):
            out.append((bb, stream_of(b, t['args'][0]), 'lit', const_str_of(b, t['args'][1])))
        elif nm == 'to_tokens' and len(t['args']) == 2:
            c = callee_of(t)
            if (c.get('trait') or '').endswith('ToTokens') or 'ToTokens' in p:
                out.append((bb, stream_of(b, t['args'][1]), 'interp', t['args'][0]))
    return out


def by_stream(evs):
    d = {}
    for e in evs:
        d.setdefault(e[1], []).append(e)
    return d


def interp_origin(b, op):
    """(root local, [named field projections met on the way]) of an interpolated value"""
    r, projs, via = b.op_root(op, through=Body.THROUGH + ('as_deref', 'cloned', 'copied', 'to_string', 'to_owned'), stop_named=False)
    names = []
    for pl in projs:
        for pr in pl:
            if isinstance(pr, dict) and 'f' in pr and pr.get('name'):
                names.append(pr['name'])
    return r, names


# ---- flattened token trees: splices of streams built in the same function and of local template helpers are expanded
class Flat:
    def __init__(self, facts, b):
        self.facts, self.b = facts, b
        self.S = by_stream(quote_events(b))
        self.referenced = set()
        self._memo = {}

    def root(self, op):
        r, _p, _v = self.b.op_root(op, through=Body.THROUGH + ('into', 'from', 'to_token_stream', 'into_token_stream'), stop_named=False)
        return r

    def flat(self, s, depth=0):
        """[('ident'|'punct'|'lit', text, bb) | ('group', [..], bb) | ('interp', operand, bb)]"""
        if s in self._memo:
            return self._memo[s]
        out = []
        if depth > 8:
            return out
        for e in self.S.get(s, []):
            bb, _s, kind, val = e
            if kind in ('ident', 'punct', 'lit'):
                out.append((kind, val, bb))
            elif kind == 'group':
                self.referenced.add(val)
                out.append(('group', self.flat(val, depth + 1), bb))
            else:
                r = self.root(val)
                if r in self.S and r != s:
                    self.referenced.add(r)
                    out += self.flat(r, depth + 1)
                    continue
                exp = self.template(r, depth)
                if exp is not None:
                    out += exp
                else:
                    out.append(('interp', val, bb))
        self._memo[s] = out
        return out

    def template(self, r, depth):
        """r is the result of calling a local closure / fn that returns a quoted template: expand it with the call's arguments"""
        ds = self.b.defs().get(r, []) if r is not None else []
        if len(ds) != 1 or ds[0][1] != 'call':
            return None
        t = ds[0][2]
        c = callee_of(t)
        if c is None:
            return None
        hp = c.get('resolved') or c['path']
        args = t['args']
        hb = self.facts.bodies.get(hp)
        if c.get('name') in ('call', 'call_mut', 'call_once') and args and (c.get('trait') or '').startswith('core::ops::function::Fn'):
            # a closure value called through Fn*::call(&closure, (args,))
            if hb is None:
                cl = self.b.op_root(args[0], through=Body.THROUGH, stop_named=False)[0]
                for d in self.b.defs().get(cl, []):
                    if d[1] == 'stmt' and isinstance(d[2].get('agg'), dict) and 'closure' in d[2]['agg']:
                        hb = self.facts.bodies.get(d[2]['agg']['closure'])
            tl = op_local(args[1]) if len(args) > 1 else None
            targs = []
            for d in self.b.defs().get(tl, []) if tl is not None else []:
                if d[1] == 'stmt' and d[2].get('agg') == 'tuple':
                    targs = d[2]['ops']
            args = [args[0]] + list(targs)
        if hb is None:
            return None
        H = Flat(self.facts, hb)
        # the stream the helper returns
        rs = None
        for bb, _i, st in hb.stmts():
            if st['k'] == 'assign' and st['lhs']['l'] == 0 and not st['lhs']['p'] and 'use' in st['rv']:
                rs = H.root(st['rv']['use'])
        if rs is None or rs not in H.S:
            return None

        def subst(items):
            out = []
            for it in items:
                if it[0] == 'group':
                    out.append(('group', subst(it[1]), it[2]))
                elif it[0] == 'interp':
                    l = op_local(it[1])
                    deps = set()
                    seen, todo = set(), [l] if l is not None else []
                    while todo:
                        x = todo.pop()
                        if x in seen:
                            continue
                        seen.add(x)
                        if 1 <= x <= hb.arg_count:
                            deps.add(x)
                            continue
                        for d in hb.defs().get(x, []):
                            ops = rv_operands(d[2]) if d[1] == 'stmt' else d[2]['args']
                            if d[1] == 'stmt' and 'ref' in d[2]:
                                todo.append(d[2]['ref']['l'])
                            for o in ops:
                                pl = op_place(o)
                                if pl is not None:
                                    todo.append(pl['l'])
                    done = False
                    if len(deps) == 1:
                        k = list(deps)[0] - 1
                        if k < len(args):
                            ar = self.root(args[k])
                            if ar in self.S:
                                self.referenced.add(ar)
                                out += self.flat(ar, depth + 1)
                                done = True
                            else:
                                out.append(('interp', args[k], ds[0][0]))
                                done = True
                    if not done:
                        out.append(('opaque', None, it[2]))
                else:
                    out.append(it)
            return out
        return subst(H.flat(rs))

    def roots(self):
        for s in list(self.S):
            self.flat(s)
        return [s for s in self.S if s not in self.referenced]
