"""C11 A lexer definition is a faithful image of its .l source (DESIGN.md §4 C11).

R11.1 spans index the user's text: span-producing parsers are handed the caller's WHOLE text, never a sub-slice
R11.2 flag plumbing: header key <-> LexFlags field <-> default <-> RegexBuilder setter <-> builder setter agree by name
R11.4 no integer `as` cast in the library crates narrows (or changes signedness): numeric settings (size_limit, dfa_size_limit,
      nest_limit) travel header(u64) <-> field(usize/u32); a lossy cast puts a value in force that was not the one given
R11.10 the inclusive/exclusive kind of declared start states is the constant belonging to the declaration pattern that matched
R11.9 pieces cut by Regex::split on a one-character separator pass a non-empty filter (names are separated by one OR MORE blanks)
R11.8 every escape form the regex engine interprets (table from its syntax documentation) is matched by RE_LEX_ESC_LITERAL, the
      lex parser's own list of escapes it must pass through unchanged
R11.7 both arms of parse_start_states (with / without a `<state>` prefix) return regex text that went through `unescape`
R11.6 the span recorded for a piece X = line[A..] of a rule line starts at (offset of the line) + A, on every path (A10)
R11.5 one definition of white space in the lex parser: every trim_*_matches uses `matches_whitespace` (or a literal), and no
      pattern-less trim()/is_whitespace()/split_whitespace() (Unicode White_Space, a different set) is called there
"""
from mirlib import *

META = {
    'level': 'other',
    'explanation': 'R11.1: every call that hands source text to a span-producing specification parser (lrlex LexParser '
                   'constructors, cfgrammar YaccParser::new) passes the caller\'s whole text (the parameter, or an owned copy), '
                   'never a value that went through slicing/trimming - every span the parser produces is relative to the string '
                   'it was given and is returned to the user unadjusted. R11.2: for each of the LexFlags fields (read from the '
                   'ADT) the header conversion reads the key of the same name into that field, the defaults merge pairs equal '
                   'field names, Rule::new feeds the RegexBuilder setter of the same name from that field, and each '
                   'CTLexerBuilder setter inserts the header key of its own name. NOT decided: rule splitting and escape '
                   'rewriting (`unescape`) denote the right regular language.',
}

SLICERS = {'index', 'index_mut', 'get', 'get_unchecked', 'split_at', 'trim', 'trim_start', 'trim_end', 'trim_matches',
           'trim_start_matches', 'trim_end_matches', 'strip_prefix', 'strip_suffix', 'split', 'lines', 'substring', 'slice'}
COPIERS = ('to_string', 'to_owned', 'clone', 'into', 'from', 'as_str', 'deref', 'borrow', 'as_ref', 'to_str', 'into_owned',
           'into_string', 'as_mut_str')


def r111(facts, res):
    R = 'R11.1'
    n = 0
    for b in facts.lib_bodies(['cfgrammar', 'lrlex', 'lrpar']):
        if b.from_expansion:
            continue
        for bb, t in b.calls():
            p = cpath(t) or ''
            sp = strip_generics(p)
            is_lex = sp.startswith('lrlex::parser::LexParser::new')
            is_yacc = sp == 'cfgrammar::yacc::parser::YaccParser::new'
            if not (is_lex or is_yacc):
                continue
            # the text argument: first argument of string type
            targ = None
            for a in t['args']:
                l = op_local(a)
                if l is not None and (b.lty(l) in ('alloc::string::String', '&str') or b.lty(l).startswith('&alloc::string::String')):
                    targ = a
                    break
            if targ is None:
                res.lost(R, 'cannot find the text argument of %s in %s' % (sp, b.path))
                continue
            n += 1
            r, projs, via = b.op_root(targ, through=COPIERS + tuple(SLICERS), stop_named=False)
            sl = [v for v in via if v in SLICERS]
            key = '%s->%s' % (strip_generics(b.path), sp.split('::')[-1])
            if sl:
                res.bad(R, key, loc_of(b, bb),
                        'the parser is given a SUB-SLICE of the text (%s): every span it produces (rule names, start states, errors) is '
                        'relative to that slice, not to the text the user wrote' % ', '.join(sl), {'function': b.path, 'block': bb})
            else:
                origin = 'parameter' if 1 <= r <= b.arg_count else ('local `%s`' % b.name_of(r) if b.name_of(r) else 'local _%d' % r)
                res.ok(R, key, loc_of(b, bb), 'whole text handed over (%s%s)' % (origin, ', via ' + '/'.join(via) if via else ''))
    res.floor(R, 'hand-overs of source text to span-producing parsers', n, 3)


def field_names(facts):
    adt = facts.adt('lrlex::lexer::LexFlags')
    if not adt:
        return None
    return [f['name'] for f in adt['variants'][0]['fields']]


def const_str_arg(b, op):
    c = op.get('const')
    if c and 'str' in c:
        return c['str']
    r, projs, via = b.op_root(op, through=('to_string', 'to_owned', 'into', 'as_str', 'deref', 'borrow'), stop_named=False)
    for bb, kind, x in b.defs().get(r, []):
        if kind == 'stmt' and 'use' in x:
            c = x['use'].get('const')
            if c and 'str' in c:
                return c['str']
    return None


def field_in(t, names):
    """names of LexFlags fields mentioned in a term"""
    out = set()
    for x in subterms(t):
        if isinstance(x, tuple) and x and x[0] == 'field' and len(x) > 3 and x[3] in names:
            out.add(x[3])
    return out


def r112(facts, res):
    R = 'R11.2'
    names = field_names(facts)
    if not names:
        res.lost(R, 'LexFlags ADT not found')
        return
    res.floor(R, 'LexFlags fields', len(names), 12)
    nset = set(names)
    # (a) header -> LexFlags
    tf = facts.find(crate='lrlex', name='try_from', path_re=r'TryFrom<&mut .*Header.*for lexer::LexFlags|lexer::<impl .*TryFrom.*LexFlags')
    tf = [b for b in facts.lib_bodies(['lrlex']) if b.name == 'try_from' and 'LexFlags' in (b.impl_of or '')]
    if len(tf) != 1:
        res.lost(R, 'LexFlags::try_from(&mut Header) not found (%d candidates)' % len(tf))
    else:
        b = tf[0]
        gets = [(bb, t) for bb, t in b.calls_named('get')]
        stopset = {bb for bb, t in b.calls() if cname(t) in ('get', 'mark_used')}
        seen = {}
        # `let LexFlags { a, b, .. } = &mut lex_flags` : locals that are references to fields
        ref_field = {}
        for l, ds in b.defs().items():
            if len(ds) == 1 and ds[0][1] == 'stmt' and 'ref' in ds[0][2]:
                for pr in ds[0][2]['ref']['p']:
                    if isinstance(pr, dict) and pr.get('name') in nset:
                        ref_field[l] = pr['name']
        for bb, t in gets:
            key = None
            for a in t['args'][1:]:
                key = key or const_str_arg(b, a)
            if key is None:
                continue
            w = Walker(b, facts, max_paths=64)
            ps = w.run(bb, stop=lambda x: x in stopset and x != bb)
            stored = set()
            for p in ps:
                for e in p.stores():
                    if e[2][0] in ref_field and e[2][1][:1] == (('deref',),):
                        stored.add(ref_field[e[2][0]])
                    for pr in e[2][1]:
                        if pr[0] == 'f' and pr[2] in nset:
                            stored.add(pr[2])
                    for pr in e[5][2]:
                        if pr[0] == 'f' and pr[2] in nset:
                            stored.add(pr[2])
                    # stores through the destructured `&mut` bindings: address root is a reference to a field
                    stored |= field_in(e[5][1], nset)
                # writes to locals that are refs to fields: look at final env mutations of fields
                for k, v in p.env.items():
                    if isinstance(k[0], int) and k[1]:
                        for pr in k[1]:
                            if pr[0] == 'f' and pr[2] in nset and has_get(v):
                                stored.add(pr[2])
            seen[key] = stored
        for f in names:
            if f not in seen:
                res.bad(R, 'header->flag:' + f, loc_of(b), 'the header conversion never reads key `%s`' % f)
            elif seen[f] == {f}:
                res.ok(R, 'header->flag:' + f, loc_of(b), 'key `%s` is converted into field `%s`' % (f, f))
            else:
                res.bad(R, 'header->flag:' + f, loc_of(b), 'key `%s` is stored into field(s) %s' % (f, sorted(seen[f]) or 'none'))
    # (b) defaults merge
    for b in [x for x in facts.lib_bodies(['lrlex']) if x.name.startswith('new_with_lex_flags') and 'LexParser' in (x.impl_of or '')]:
        ors = b.calls_named('or')
        if not ors:
            continue
        w = Walker(b, facts, max_paths=64)
        stopb = {bb for bb, t in b.calls_named('parse')}
        ps = w.run(0, stop=lambda x: x in stopb)
        merged = {}
        for p in ps[:1]:
            for e in p.calls(name='or'):
                a0 = field_in(e[3][0], nset)
                a1 = field_in(e[3][1], nset)
                # destination: the next store whose value is this call's result
                dest = set()
                for s in p.stores():
                    if s[3] == e[5]:
                        for pr in s[2][1]:
                            if pr[0] == 'f' and pr[2] in nset:
                                dest.add(pr[2])
                        dest |= field_in(s[5][1], nset)
                        for pr in s[5][2]:
                            if pr[0] == 'f' and pr[2] in nset:
                                dest.add(pr[2])
                for f in a0 | a1 | dest:
                    merged.setdefault(f, []).append((a0, a1, dest))
        for f in names:
            ms = merged.get(f)
            if not ms:
                res.bad(R, 'default-merge:' + f, loc_of(b), 'field `%s` is not merged with its default' % f)
            elif all(a0 == {f} and a1 == {f} and dest <= {f} for a0, a1, dest in ms):
                res.ok(R, 'default-merge:' + f, loc_of(b), '`%s` = `%s`.or(DEFAULT.%s)' % (f, f, f))
            else:
                res.bad(R, 'default-merge:' + f, loc_of(b), 'field `%s` is cross-wired in the defaults merge: %s' % (f, [(sorted(a), sorted(c), sorted(d)) for a, c, d in ms]))
    # (c) Rule::new -> RegexBuilder setters
    rn = [x for x in facts.lib_bodies(['lrlex']) if x.name == 'new' and (x.impl_of or '').startswith('lrlex::lexer::Rule<')]
    if len(rn) != 1:
        res.lost(R, 'Rule::new not found')
    else:
        b = rn[0]
        w = Walker(b, facts, max_paths=2048)
        ps = w.run()
        setters = {}
        for p in ps:
            for e in p.calls():
                c = e[2]
                if c is None or 'RegexBuilder' not in (c.get('resolved') or c['path']):
                    continue
                if c['name'] in ('new', 'build'):
                    continue
                src = set()
                for a in e[3][1:]:
                    src |= field_in(a, nset)
                setters.setdefault(c['name'], set()).update(src or {'<none>'})
        regex_flags = [f for f in names if f not in ('posix_escapes', 'allow_wholeline_comments')]
        for f in regex_flags:
            if f not in setters:
                res.bad(R, 'flag->regex:' + f, loc_of(b), 'RegexBuilder::%s is never called: the flag is not in force' % f)
            elif setters[f] == {f}:
                res.ok(R, 'flag->regex:' + f, loc_of(b), 'RegexBuilder::%s(lex_flags.%s)' % (f, f))
            else:
                res.bad(R, 'flag->regex:' + f, loc_of(b), 'RegexBuilder::%s is fed from %s' % (f, sorted(setters[f])))
        for s_ in setters:
            if s_ not in nset:
                res.bad(R, 'flag->regex:extra:' + s_, loc_of(b), 'RegexBuilder::%s is set without a corresponding LexFlags field' % s_)
    # (d) builder setters
    for f in names:
        bs = [x for x in facts.lib_bodies(['lrlex']) if x.name == f and 'CTLexerBuilder' in (x.impl_of or '')]
        if len(bs) != 1:
            res.bad(R, 'builder-setter:' + f, '', 'CTLexerBuilder has no setter named `%s`' % f)
            continue
        b = bs[0]
        keys = set()
        for bb, t in b.calls_named('insert'):
            for a in t['args'][1:2]:
                k = const_str_arg(b, a)
                if k:
                    keys.add(k)
        if keys == {f}:
            res.ok(R, 'builder-setter:' + f, loc_of(b), 'inserts header key `%s`' % f)
        else:
            res.bad(R, 'builder-setter:' + f, loc_of(b), 'setter `%s` inserts header key(s) %s' % (f, sorted(keys) or 'none'))


def has_get(t):
    return term_has(t, lambda x: isinstance(x, tuple) and x and x[0] == 'call' and strip_generics(x[1]).endswith('::get'))


def r113(facts, res):
    """sibling agreement inside `unescape`: the scan cursor (backslash pos, rest of the text from the escaped char, its pos,
    the char) is produced at two sites; both must build the `rest` component as text[pos..] (unbounded), because the
    escape classifier needs the characters AFTER the escaped one (\\xHH, \\uHHHH)"""
    R = 'R11.3'
    bodies = [b for b in facts.lib_bodies(['lrlex']) if b.path.startswith('lrlex::parser::') and '::unescape' in b.path]
    sites = []
    for b in bodies:
        for bb, i, st in b.stmts():
            if st['k'] != 'assign' or st['rv'].get('agg') != 'tuple' or len(st['rv']['ops']) != 4:
                continue
            tys = [b.lty(op_local(o)) if op_local(o) is not None else None for o in st['rv']['ops']]
            if tys != ['usize', '&str', 'usize', 'char']:
                continue
            sites.append((b, bb, st))
    res.floor(R, 'producers of the unescape cursor', len(sites), 2)
    shapes = []
    for b, bb, st in sites:
        ops = st['rv']['ops']
        # rest = &text[range]
        l = op_local(ops[1])
        shape = 'unknown'
        posroot = b.op_root(ops[2], through=(), stop_named=False)[0]
        seen = set()
        while l is not None and l not in seen:
            seen.add(l)
            ds = b.defs().get(l, [])
            if len(ds) != 1:
                break
            if ds[0][1] == 'call' and cname(ds[0][2]) == 'index':
                rl = op_local(ds[0][2]['args'][1])
                for d in b.defs().get(rl, []):
                    if d[1] == 'stmt' and 'agg' in d[2] and isinstance(d[2]['agg'], dict):
                        vn_ = d[2]['agg'].get('vname')
                        lo = b.op_root(d[2]['ops'][0], through=(), stop_named=False)[0] if d[2]['ops'] else None
                        shape = '%s(from %s)' % (vn_, 'the char position' if lo == posroot else 'another position')
                break
            x = ds[0][2]
            if ds[0][1] == 'stmt':
                pl = op_place(x['use']) if 'use' in x else x.get('ref')
                l = pl['l'] if pl else None
            else:
                break
        shapes.append((shape, b, bb))
    for i, (shape, b, bb) in enumerate(shapes):
        key = 'cursor-producer#%d' % i
        if shape == 'RangeFrom(from the char position)':
            res.ok(R, key, loc_of(b, bb), 'rest-of-text component is text[pos..]')
        else:
            res.bad(R, key, loc_of(b, bb), 'this producer builds the rest-of-text component as %s while the scan needs text[pos..]: multi-character escapes (\\xHH, \\uHHHH) after it are no longer recognised' % shape)


INT_BITS = {'u8': 8, 'u16': 16, 'u32': 32, 'u64': 64, 'usize': 64, 'u128': 128, 'i8': 8, 'i16': 16, 'i32': 32, 'i64': 64, 'isize': 64, 'i128': 128}


def r114(facts, res):
    """a number given as a setting is never narrowed with `as`: a lossy integer cast silently puts a different value in force"""
    R = 'R11.4'
    n = nn = 0
    for b in facts.lib_bodies(['cfgrammar', 'lrlex', 'lrpar', 'lrtable']):
        if b.from_expansion:
            continue
        for bi, blk in enumerate(b.blocks):
            for st in blk['stmts']:
                if st['k'] != 'assign' or st['rv'].get('cast') != 'IntToInt':
                    continue
                n += 1
                fr, to = st['rv']['from'], st['rv']['to']
                wf, wt = INT_BITS.get(fr), INT_BITS.get(to)
                lossy = wf is None or wt is None or wt < wf
                if not lossy:
                    continue
                # only numbers that are settings: the operand comes out of a `Setting::Num(..)` (header value), or the cast sits
                # in the flag conversion / builder code itself
                l = op_local(st['rv']['a'])
                from_num = False
                if l is not None:
                    r, projs, via = b.root(l, through=(), stop_named=False)
                    from_num = any(isinstance(q, dict) and q.get('name') in ('Num',) for pl in projs for q in pl)
                if not (from_num or 'LexFlags' in b.path or b.path.startswith(('lrlex::ctbuilder::', 'cfgrammar::header::'))):
                    continue
                nn += 1
                key = 'narrowing:%s/%s->%s' % (strip_generics(b.path), fr, to)
                res.bad(R, key, '%s:%s' % (b.file, st.get('line')), 'integer value narrowed with `as` (%s -> %s): a number outside the target range '
                        'silently becomes a different one (e.g. a setting `nest_limit: 4294967297` would be in force as 1); use a checked conversion and report the error' % (fr, to),
                        {'function': b.path})
    if nn == 0:
        res.ok(R, 'no-lossy-int-cast', '', 'no number that is a setting is narrowed with `as` (%d integer casts in the library crates examined)' % n)
    res.floor(R, 'integer `as` casts examined', n, 5)


UNICODE_WS = ('trim', 'trim_start', 'trim_end', 'trim_left', 'trim_right', 'split_whitespace', 'is_whitespace', 'is_ascii_whitespace',
              'trim_ascii', 'trim_ascii_start', 'trim_ascii_end', 'split_ascii_whitespace')


def r115(facts, res):
    """The lex parser has ONE definition of white space (Pattern_White_Space, `matches_whitespace` / the RE_WS family): wherever
    it strips or tests blanks it uses that one.  std's pattern-less trim()/is_whitespace() use Unicode White_Space, a different
    set (U+00A0, U+3000, ... are in it, U+200E/U+200F are not): a character of the difference at the edge of a regex or name
    then silently joins or leaves it."""
    R = 'R11.5'
    n = 0
    bad = 0
    for b in facts.lib_bodies(['lrlex']):
        if b.from_expansion or not b.path.startswith('lrlex::parser'):
            continue
        for bb, t in b.calls():
            c = callee_of(t)
            if c is None:
                continue
            p = c['path']
            nm = c['name']
            if nm.startswith('trim') and nm.endswith('matches') and 'core::str' in p:
                n += 1
                pat = (c.get('args') or [''])[0]
                key = 'pattern:%s/%s@%s' % (strip_generics(b.path), nm, len([i for i in res.instances if i['key'].startswith('R11.5:pattern:%s/%s@' % (strip_generics(b.path), nm))]))
                if 'matches_whitespace' in pat or pat in ('char', '&str', "&'static str") or pat.startswith('[char;') or pat.startswith('&[char'):
                    res.ok(R, key, loc_of(b, bb), 'blanks are stripped with %s' % (pat if len(pat) < 60 else pat[-60:]))
                else:
                    bad += 1
                    res.bad(R, key, loc_of(b, bb), '%s strips with the pattern %s, not with the parser\'s own white-space predicate' % (nm, pat[:80]))
            elif nm in UNICODE_WS and ('core::str' in p or 'core::char' in p):
                n += 1
                bad += 1
                res.bad(R, 'unicode-ws:%s/%s' % (strip_generics(b.path), nm), loc_of(b, bb),
                        '`%s` classifies blanks by Unicode White_Space, the lex parser\'s separators are Pattern_White_Space (matches_whitespace): a '
                        'character in one set but not the other (U+00A0, U+3000, U+200E, ...) at the edge of a regex or name is silently dropped or kept' % nm,
                        {'function': b.path})
    res.floor(R, 'blank-stripping/testing call sites in lrlex::parser', n, 5)


def r116(facts, res):
    """The span recorded for a piece X of the rule line is X's own position in the user's text: when X = line[A..] and the line is
    src[i..], a span built with X's length starts at i + A (+ a constant) - on every path, whichever way A was computed (after
    the blank, or after the `<state>` that follows it).  Decided with the linear forms of A10 (len(line[A..]) = len(line) - A)."""
    R = 'R11.6'
    import linarith as LA
    from lrstep import is_call, has_call
    bs = [b for b in facts.lib_bodies(['lrlex']) if b.name == 'parse_rule' and b.path.startswith('lrlex::parser::')]
    if len(bs) != 1:
        res.lost(R, 'lrlex parse_rule not found')
        return
    b = bs[0]
    ps = Walker(b, facts, max_paths=4096).run(0)
    n = 0
    bad = []
    for p in ps:
        for e in p.events:
            if e[0] != 'call' or not e[2] or not (e[2]['path'].endswith('span::Span::new')) or len(e[3]) != 2:
                continue
            s_, e_ = e[3]
            lens = [x for x in subterms(e_) if is_call(x, 'len') and x[2]]
            # X = index(L, RangeFrom(A)) with L a (trimmed) slice of the source starting at i0
            X = None
            for ln in lens:
                t = LA.canon_atom(ln[2][0])
                if isinstance(t, tuple) and t and t[0] == 'call' and strip_generics(t[1]).split('::')[-1] == 'index' and len(t[2]) == 2 \
                        and isinstance(t[2][1], tuple) and t[2][1] and t[2][1][0] == 'variant' and t[2][1][3] == 'RangeFrom':
                    X = t
            if X is None:
                continue
            L, A = LA.canon_atom(X[2][0]), X[2][1][4][0]
            base = L
            while isinstance(base, tuple) and base and base[0] == 'call' and strip_generics(base[1]).split('::')[-1] in LA.TRIMS and base[2]:
                base = LA.canon_atom(base[2][0])
            if not (isinstance(base, tuple) and base and base[0] == 'call' and strip_generics(base[1]).split('::')[-1] == 'index'
                    and isinstance(base[2][1], tuple) and base[2][1][0] == 'variant' and base[2][1][3] in ('Range', 'RangeFrom')):
                continue
            i0 = base[2][1][4][0]
            n += 1
            want0 = LA.lin(i0) + LA.lin(A)
            d_start = LA.lin(s_) - want0
            d_end = LA.lin(e_) - want0 - LA.length_of(X)
            if s_ == e_:
                # an empty span marking where the piece begins
                if not (d_start.is_const() and d_start.k == 0):
                    bad.append('an empty span marking the piece `%s` is placed at %s, but the piece starts at %s + %s (difference: %s)' % (
                        fmt_term(X)[:60], fmt_term(s_)[:50], fmt_term(i0)[:20], fmt_term(A)[:40], d_start.show()[:60]))
                continue
            if not (d_start.is_const() and d_end.is_const() and 0 <= d_start.k <= 1 and -1 <= d_end.k <= 0):
                bad.append('a span built with the length of the piece `%s` starts at %s, but the piece itself starts at %s + %s in the text (difference: %s)' % (
                    fmt_term(X)[:60], fmt_term(s_)[:50], fmt_term(i0)[:20], fmt_term(A)[:40], d_start.show()[:60]))
    if bad:
        res.bad(R, 'piece-span', loc_of(b), '; '.join(sorted(set(bad))[:2]), {'function': b.path})
    else:
        res.ok(R, 'piece-span', loc_of(b), 'every span built from the length of a piece of the rule line starts at that piece\'s own offset (%d span constructions on %d paths)' % (n, len(ps)))
    res.floor(R, 'span constructions from a piece of the rule line', n, 2)


def r117(facts, res):
    """parse_start_states splits `<states>regex` from `regex`.  Lex-level escape rewriting (`unescape`) is a property of the regex
    text, not of whether a start-state prefix precedes it: every successful return hands back regex text that went through the
    same rewriting (sibling agreement of the two arms)."""
    R = 'R11.7'
    from lrstep import has_call
    bs = [b for b in facts.lib_bodies(['lrlex']) if b.name == 'parse_start_states' and b.path.startswith('lrlex::parser::') and b.kind != 'closure']
    if len(bs) != 1:
        res.lost(R, 'lrlex parse_start_states not found')
        return
    b = bs[0]
    ps = [p for p in Walker(b, facts, max_paths=1024).run(0) if p.end[0] == 'return']
    oks = []
    for p in ps:
        ret = p.end[1]
        v = None
        for x in subterms(ret):
            if isinstance(x, tuple) and x and x[0] == 'variant' and x[3] == 'Ok':
                v = x
                break
        if v is None:
            continue
        prefixed = any(isinstance(c, tuple) and has_call(c, 'starts_with') and val == 1 for c, val in p.conds) or \
            any(isinstance(c, tuple) and has_call(c, 'find') for c, val in p.conds)
        oks.append((p, has_call(v, 'unescape'), prefixed))
    if len(oks) < 2:
        res.lost(R, 'expected successful returns with and without a start-state prefix in parse_start_states, found %d' % len(oks))
        return
    un = [x for x in oks if x[1]]
    no = [x for x in oks if not x[1]]
    if un and no:
        res.bad(R, 'unescape-both-arms', loc_of(b), '%d successful return(s) hand back the regex text after lex-level escape rewriting (unescape), %d hand it back as written (%s): '
                'the same regex means different things with and without a `<state>` prefix' % (len(un), len(no), 'the arm with a start-state prefix' if any(x[2] for x in no) else 'the arm without a prefix'),
                {'function': b.path})
    elif not un:
        res.lost(R, 'no successful return of parse_start_states goes through unescape')
    else:
        res.ok(R, 'unescape-both-arms', loc_of(b), 'all %d successful returns hand back regex text that went through unescape' % len(un))


# escapes to which the regex engine (regex-syntax 0.8, "Escape sequences" in the regex crate's syntax documentation) gives a
# meaning of their own; each with a continuation that makes it well-formed.  `\\<` and `\\>` are left out on purpose: lex needs
# `\\<` for a literal `<` at the start of a regex and the source asserts that choice (documented in lexcompatibility.md).
ENGINE_ESCAPES = {
    'a': 'a', 'f': 'f', 't': 't', 'n': 'n', 'r': 'r', 'v': 'v',
    'A': 'A', 'z': 'z', 'B': 'B',
    'd': 'd', 'D': 'D', 's': 's', 'S': 'S', 'w': 'w', 'W': 'W',
    'p{': 'p{L}', 'P{': 'P{L}', 'pL': 'pL',
    'x hex': 'x41', 'x{': 'x{41}', 'u hex': 'u0041', 'u{': 'u{41}', 'U hex': 'U00000041', 'U{': 'U{41}',
    'octal': '101', 'backslash': '\\\\',
}


def r118(facts, res):
    """The lex parser rewrites `\\c` to `c` unless `c` is special to lex or to the regex engine.  Its table of "special to the regex
    engine" is the regex literal RE_LEX_ESC_LITERAL (plus is_meta_character and a special case for `b`): every escape the engine
    gives a meaning of its own must be matched by that literal, or the escape silently turns into a plain letter."""
    R = 'R11.8'
    import re as _re
    import progress
    pr = progress.Progress(facts, ['lrlex'])
    lit = pr.regex_of_static('lrlex::parser::RE_LEX_ESC_LITERAL')
    if not lit:
        res.lost(R, 'the regex literal of lrlex::parser::RE_LEX_ESC_LITERAL was not found')
        return
    py = lit.replace('[:xdigit:]', '0-9A-Fa-f').replace('[:digit:]', '0-9').replace('[:alpha:]', 'A-Za-z').replace('[:alnum:]', '0-9A-Za-z')
    if '[:' in py or '&&' in py or '\\p' in py:
        res.lost(R, 'RE_LEX_ESC_LITERAL (%s) uses syntax the table comparison does not translate' % lit)
        return
    # nested classes `[[0-9]]` -> `[0-9]`
    py = _re.sub(r'\[\[([^\[\]]*)\]\]', r'[\1]', py)
    try:
        rx = _re.compile(py)
    except _re.error as e:
        res.lost(R, 'cannot translate RE_LEX_ESC_LITERAL (%s): %s' % (lit, e))
        return
    missing = []
    for name, sample in sorted(ENGINE_ESCAPES.items()):
        if not rx.match(sample):
            missing.append((name, sample))
    # `b` is special-cased by the rewriting code itself; make sure that special case exists
    unesc = [b for b in facts.lib_bodies(['lrlex']) if b.name == 'unescape' and b.path.startswith('lrlex::parser')]
    if missing:
        res.bad(R, 'engine-escapes', '', 'the regex engine gives `\\%s` a meaning of its own, but RE_LEX_ESC_LITERAL = %s does not match it: the lex parser rewrites it to the plain '
                'character(s) (`\\B` becomes `B`, `\\x{41}` becomes forty-one `x`)' % ('`, `\\'.join(s_ for _n, s_ in missing), lit), {'missing': [n for n, _s in missing]})
    else:
        res.ok(R, 'engine-escapes', '', 'RE_LEX_ESC_LITERAL = %s matches all %d escape forms the regex engine interprets' % (lit, len(ENGINE_ESCAPES)))


def pieces_guarded_in_loop(facts, b):
    """the pieces of a regex Split are consumed by a loop calling next() on it, and on every path of the loop body on which the
    piece is handed to anything but an emptiness/length/address query, `piece.is_empty()` was found false (or its length non-zero)"""
    from lrstep import is_call, widening_walker, loop_assigned
    loops = b.loops()
    nexts = [(bb, t) for bb, t in b.calls_named('next') if 'Split' in (callee_of(t).get('self_ty') or '') and 'regex' in (callee_of(t).get('self_ty') or '').lower()]
    if len(nexts) != 1:
        return False
    nb, nt = nexts[0]
    inl = sorted((h for h in loops if nb in loops[h]), key=lambda h: len(loops[h]))
    if not inl:
        return False
    h = inl[0]
    w = widening_walker(b, facts, max_paths=4096)
    w.widen_headers = set(loops) - {h}
    w.widen_assigned = {x: loop_assigned(b, x) for x in w.widen_headers}
    ps = w.run(h, stop=lambda x: x not in loops[h])
    if w.overflow or not ps:
        return False
    QUERY = ('is_empty', 'len', 'as_ptr')
    for p in ps:
        nx = [e for e in p.events if e[0] == 'call' and e[1] == nb]
        if not nx:
            continue
        piece = ('field', ('downcast', nx[0][5], 1, 'Some'), 0, '0')
        isp = lambda x: x == piece
        used = [e for e in p.events if e[0] == 'call' and e[1] != nb and e[2] and e[2]['name'] not in QUERY and any(term_has(a, isp) for a in e[3])]
        if not used:
            continue
        ok = False
        for c, v in p.conds:
            if is_call(c, 'is_empty') and term_has(c, isp) and v == 0:
                ok = True
            if c[0] == 'bin' and c[1] == 'Eq' and v == 0 and term_has(c, isp) and term_has(c, lambda x: is_call(x, 'len')) and ('const', 0) in (c[2], c[3]):
                ok = True
            if c[0] == 'bin' and c[1] == 'Lt' and v == 1 and c[2] == ('const', 0) and term_has(c[3], isp) and term_has(c[3], lambda x: is_call(x, 'len')):
                ok = True
        if not ok:
            return False
    return True


def r119(facts, res):
    """Items separated by "one or more blanks" (start-state names of a %s / %x declaration): when the text is cut with
    Regex::split on a separator regex that matches exactly ONE character, two separators in a row yield an empty piece - the
    pieces must pass a non-empty filter before they are treated as names, or the separator regex must be repeatable."""
    R = 'R11.9'
    import c15
    import progress
    pr = progress.Progress(facts, ['lrlex'])
    n = 0
    for b in facts.lib_bodies(['lrlex']):
        if b.from_expansion or not b.path.startswith('lrlex::parser'):
            continue
        for bb, t in b.calls_named('split'):
            c = callee_of(t)
            if not c or 'regex' not in c['path'].lower():
                continue
            n += 1
            key = 'split:%s' % strip_generics(b.path)
            # the separator regex: the regex static read closest before the call
            stat = [x['rv']['use']['const']['static'] for bi in range(len(b.blocks)) for x in b.blocks[bi]['stmts']
                    if x['k'] == 'assign' and 'use' in x['rv'] and isinstance(x['rv']['use'], dict) and x['rv']['use'].get('const', {}).get('static')
                    and (b.dominates(bi, bb)) and pr.regex_of_static(x['rv']['use']['const']['static'])]
            lit = pr.regex_of_static(stat[-1]) if stat else None
            if lit is None:
                res.lost(R, 'cannot read the separator regex of a Regex::split in %s' % b.path)
                continue
            import re as _re
            repeatable = lit.rstrip().endswith(('+', '*')) or bool(_re.search(r'\{\d+,\d*\}$', lit.rstrip()))
            holds, adapters, consumers = c15.flow(b, t['dest']['l'])
            guarded = False
            if not (repeatable or 'filter' in adapters or 'filter_map' in adapters):
                guarded = pieces_guarded_in_loop(facts, b)
            if repeatable or 'filter' in adapters or 'filter_map' in adapters or guarded:
                res.ok(R, key, loc_of(b, bb), 'pieces cut by `%s` %s' % (lit, 'cannot be empty between two separators' if repeatable else
                                                                         'are tested for emptiness in the loop before any use' if guarded else 'pass a filter before use'))
            else:
                res.bad(R, key, loc_of(b, bb), 'the text is cut with Regex::split on `%s`, which matches one character: two separators in a row produce an empty piece that is then '
                        'treated as a name (`%%s a  b` is rejected as "invalid start state name" although names are separated by one OR MORE blanks)' % lit, {'function': b.path})
    if n == 0:
        res.ok(R, 'no-regex-split', '', 'the lex parser no longer cuts lines with Regex::split: nothing to guard (the empty pieces such a split yields do not arise)')
    else:
        res.count(R + ' Regex::split calls in the lex parser', n)


def r1110(facts, res):
    """"the declared start states with their inclusive/exclusive kind": the kind handed to declare_start_states is decided by WHICH
    declaration pattern matched - a constant per arm: exclusive exactly on the paths on which the EXCLUSIVE pattern matched,
    inclusive exactly on those on which the INCLUSIVE pattern matched.  Re-deriving it from the text (a case-sensitive
    `starts_with('x')`) disagrees with the patterns, which accept both cases."""
    R = 'R11.10'
    from lrstep import is_call, has_call
    bs = [b for b in facts.lib_bodies(['lrlex']) if b.name == 'parse_declaration' and b.kind != 'closure' and b.path.startswith('lrlex::parser::')]
    if len(bs) != 1:
        res.lost(R, 'lrlex parse_declaration not found')
        return
    b = bs[0]
    ps = Walker(b, facts, max_paths=4096).run(0)
    rows = []
    bad = []
    for p in ps:
        ds = [e for e in p.events if e[0] == 'call' and e[2] and e[2]['name'] == 'declare_start_states']
        if not ds:
            continue
        K = ds[0][3][1]
        m = {}
        for c, v in p.conds:
            if is_call(c, 'is_match') and c[2]:
                stt = [x for x in subterms(c[2][0]) if isinstance(x, tuple) and x and x[0] == 'static']
                if stt:
                    m['EXCL' if 'EXCLUSIVE' in stt[0][1] else 'INCL' if 'INCLUSIVE' in stt[0][1] else stt[0][1]] = v
        rows.append((K, m))
        if not (is_const(K) and K[1] in (0, 1)):
            bad.append('the kind passed to declare_start_states is computed (%s), not fixed by the pattern that matched' % fmt_term(K)[:60])
            continue
        want = 1 if m.get('EXCL') == 1 else 0 if m.get('INCL') == 1 else None
        if want is None:
            bad.append('declare_start_states is called on a path on which neither declaration pattern matched')
        elif K[1] != want:
            bad.append('the %s pattern matched but the states are declared %s' % ('EXCLUSIVE' if want else 'INCLUSIVE', 'exclusive' if K[1] else 'inclusive'))
    kinds = {K[1] for K, m in rows if is_const(K)}
    if not rows:
        res.lost(R, 'no call of declare_start_states found in parse_declaration')
    elif bad:
        res.bad(R, 'start-state-kind', loc_of(b), '; '.join(sorted(set(bad))[:2]), {'function': b.path})
    elif kinds != {0, 1}:
        res.bad(R, 'start-state-kind', loc_of(b), 'only %s start states can be declared' % ('exclusive' if kinds == {1} else 'inclusive'))
    else:
        res.ok(R, 'start-state-kind', loc_of(b), 'exclusive exactly when the EXCLUSIVE pattern matched, inclusive exactly when the INCLUSIVE one did (%d call paths)' % len(rows))


def r1111(facts, res):
    """The offset of a piece of the source (a name cut out by splitting a line) is where the piece IS, not where its text is
    first found: `haystack.find(piece)` answers the first occurrence of the same characters, which for a name that also occurs
    earlier on the line (`%s s`) lies in front of it.  No offset obtained by searching for a non-constant needle reaches a span."""
    R = 'R11.11'
    n = 0
    bad = []
    for b in facts.lib_bodies(['lrlex']):
        if not b.path.startswith('lrlex::parser::') or b.from_expansion:
            continue
        seeds = {}
        for bb, t in b.calls(lambda t: cname(t) in ('find', 'rfind')):
            if not (cpath(t) or '').startswith('core::str::') or len(t['args']) < 2:
                continue
            needle = t['args'][1]
            if op_const(needle) is not None:
                continue
            nl = op_local(needle)
            if nl is None or not b.lty(nl).startswith('&') or 'str' not in b.lty(nl):
                continue        # a char, a closure or a char set: a search for a delimiter, not for a piece
            r_, _p, _v = b.op_root(needle, stop_named=False)
            from c03 import const_str_of
            if const_str_of(b, needle) is not None:
                continue
            n += 1
            seeds[t['dest']['l']] = (bb, t)
        if not seeds:
            continue
        tainted = dict((l, l) for l in seeds)
        changed = True
        while changed:
            changed = False
            for bb in sorted(b.reachable()):
                for st in b.blocks[bb]['stmts']:
                    if st['k'] != 'assign' or st['lhs']['p']:
                        continue
                    srcs = [op_place(o)['l'] for o in rv_operands(st['rv']) if op_place(o) is not None]
                    for k in ('ref',):
                        if k in st['rv']:
                            srcs.append(st['rv'][k]['l'])
                    for x in srcs:
                        if x in tainted and st['lhs']['l'] not in tainted:
                            tainted[st['lhs']['l']] = tainted[x]
                            changed = True
                t = b.term(bb)
                if t['k'] == 'call' and cname(t) in ('unwrap', 'expect', 'unwrap_or', 'map', 'unwrap_or_default') and t['args'] and op_local(t['args'][0]) in tainted and t['dest']['l'] not in tainted:
                    tainted[t['dest']['l']] = tainted[op_local(t['args'][0])]
                    changed = True
        for bb, t in b.calls():
            if (cpath(t) or '').endswith('span::Span::new'):
                for a in t['args']:
                    if op_local(a) in tainted:
                        sb, st_ = seeds[tainted[op_local(a)]]
                        bad.append((b, bb, 'a span bound is computed from `%s(<a piece of the text>)` (line %s): the first occurrence of the same characters, not the position of the piece' % (cname(st_), st_.get('line'))))
    if bad:
        b, bb, msg = bad[0]
        res.bad(R, 'offset-by-search:%s' % strip_generics(b.path).split('::')[-1], loc_of(b, bb), msg, {'function': b.path})
    else:
        res.ok(R, 'no-offset-by-search', '', 'no span bound in the .l parser is obtained by searching for the text of a piece (%d searches with a non-constant needle examined)' % n)


def r1112(facts, res):
    """`<A, B>re`: the start-state list is split at commas and EACH name is looked up.  Blanks around a name are not part of it
    (the reference grammar of the list allows them), so what reaches the lookup must be a trimmed piece - trimming the list as
    a whole leaves the blank after a comma attached to the next name, and a valid specification is refused as
    UnknownStartState."""
    R = 'R11.12'
    bs = [b for b in facts.lib_bodies(['lrlex']) if b.name == 'parse_start_states' and b.kind != 'closure' and 'LexParser' in b.path]
    if len(bs) != 1:
        return res.lost(R, 'LexParser::parse_start_states not found (%d)' % len(bs))
    b = bs[0]
    bodies = [b] + list(facts.closures_of(b))
    splits = [(x, bb, t) for x in bodies for bb, t in x.calls() if cname(t) in ('split', 'split_terminator', 'splitn')]
    if not splits:
        return res.ok(R, 'names-trimmed', loc_of(b), 'the list is not split by `split` here: not analysed (no instance)')
    n, bad = 0, []
    for x in bodies:
        for bb, t in x.calls_named('get_start_state_by_name'):
            n += 1
            ok = False
            for a in t['args'][1:]:
                l = op_local(a)
                if l is None or not x.lty(l).startswith('&') or 'str' not in x.lty(l):
                    continue
                root, projs, via = x.root(l, through=Body.THROUGH + ('trim', 'trim_matches', 'trim_start', 'trim_end', 'trim_start_matches', 'trim_end_matches', 'trim_ascii'), stop_named=False)
                if any((v or '').startswith('trim') for v in via):
                    ok = True
                # or it is itself the result of a trim call
                for _bb, kind, d in x.defs().get(l, ()):
                    if kind == 'call' and (cname(d) or '').startswith('trim'):
                        ok = True
            if not ok and x is not b:
                # the lookup sits in a closure of an adaptor chain: `.split(',').map(|s| s.trim..()).map(|s| lookup(s))` - walk the
                # chain back from the adaptor that takes this closure to the split, looking for a stage that trims each piece
                def closure_of(body, op):
                    l_ = op_local(op)
                    for _b2, k2, rv2 in body.defs().get(l_, ()) if l_ is not None else ():
                        if k2 == 'stmt' and isinstance(rv2.get('agg'), dict) and 'closure' in rv2['agg']:
                            return rv2['agg']['closure']
                    return None
                for pb in bodies:
                    for bb2, t2 in pb.calls():
                        if len(t2['args']) < 2 or closure_of(pb, t2['args'][1]) != x.path:
                            continue
                        cur = op_local(t2['args'][0])
                        for _ in range(12):
                            dcalls = [d for _b3, k3, d in pb.defs().get(cur, ()) if k3 == 'call'] if cur is not None else []
                            if not dcalls:
                                break
                            d = dcalls[0]
                            nm = cname(d) or ''
                            if nm.startswith('split'):
                                break
                            if nm in ('map', 'inspect', 'filter_map') and len(d['args']) > 1:
                                cp = closure_of(pb, d['args'][1])
                                cbody = facts.bodies.get(cp) if cp else None
                                if cbody is not None and any((cname(ct) or '').startswith('trim') for _b4, ct in cbody.calls()):
                                    ok = True
                            cur = op_local(d['args'][0]) if d['args'] else None
            if not ok:
                # the callee may trim its argument itself
                c = callee_of(t)
                cb = facts.bodies.get(c.get('resolved') or c.get('path') or '')
                if cb is not None and any((cname(ct) or '').startswith('trim') for _b, ct in cb.calls()):
                    ok = True
            if not ok:
                bad.append('line %s: the piece handed to get_start_state_by_name is not trimmed' % t.get('line'))
    if not n:
        return res.lost(R, 'parse_start_states no longer looks names up through get_start_state_by_name')
    if bad:
        res.bad(R, 'names-trimmed', loc_of(b), '; '.join(bad[:2]) + ': `<A, B>` is refused because ` B` is looked up with its blank', {'function': b.path})
    else:
        res.ok(R, 'names-trimmed', loc_of(b), 'each piece of the comma-separated list is trimmed before it is looked up (%d lookups)' % n)


def run(facts, res):
    r1111(facts, res)
    r1112(facts, res)
    r114(facts, res)
    r1110(facts, res)
    r119(facts, res)
    r118(facts, res)
    r117(facts, res)
    r116(facts, res)
    r115(facts, res)
    r113(facts, res)
    r111(facts, res)
    r112(facts, res)
