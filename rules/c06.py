"""C06 Repair sequences are the complete minimum-cost set, ranked as documented (DESIGN.md §4 C06) - partial.

R6.1 simplify_repairs: strip trailing shifts, THEN de-duplicate, THEN sort
R6.2 ranking comparator: avoid-insert sequences last, then by length
R6.3 an end-of-input token is never inserted
R6.4 neighbour table: insert iff exploring all and the last repair is not a delete; delete iff exploring all; shift always
R6.5 all token costs are asserted > 0 before parsing starts
R6.6 node compatibility (PathFNode::eq) and Hash reads a subset of what eq compares
R6.7 two-phase search: phase 1 explores everything, the sweep keeps only neighbours of the found cost
"""
from mirlib import *
from lrstep import *

META = {
    'level': 'other',
    'explanation': 'Structural necessary conditions of the documented ranking and of the search\'s completeness argument, each read '
                   'out of the MIR as a finite table or an ordering fact: post-processing order (R6.1), comparator table (R6.2), '
                   'no EOF insertion (R6.3), neighbour generation table incl. "never insert after delete" (R6.4), positive '
                   'costs (R6.5), the node-merging relation (R6.6), and the two phases of the search (R6.7). NOT decided: '
                   'minimality and completeness of the returned set as such - that needs the exhaustive reference search.',
}

CP = 'lrpar::cpctplus::'


def strip_by_truncate(facts, b):
    """(helper body, block in `b` where the strip happens, table ok?) for the form `v.truncate(rposition(|r| r is not a Shift) + 1 or 0)`"""
    pr = facts.adt('lrpar::parser::ParseRepair')
    shift_d = [v['discr'] for v in pr['variants'] if v['name'] == 'Shift'][0]
    cands = [(b, None)]
    for bb in sorted(b.reachable()):
        t = b.term(bb)
        if t['k'] != 'call':
            continue
        c = callee_of(t)
        p_ = (c.get('resolved') or c['path']) if c else None
        if p_ in facts.bodies and facts.bodies[p_].crate == 'lrpar':
            cands.append((facts.bodies[p_], bb))
        for a in t['args']:
            k = a.get('const')
            if k and 'fn' in k:
                p2 = k['fn'].get('resolved') or k['fn']['path']
                if p2 in facts.bodies:
                    cands.append((facts.bodies[p2], bb))
        for st in b.blocks[bb]['stmts']:
            if st['k'] == 'assign':
                for o in rv_operands(st['rv']):
                    k = o.get('const') if isinstance(o, dict) else None
                    if k and 'fn' in k:
                        p2 = k['fn'].get('resolved') or k['fn']['path']
                        if p2 in facts.bodies:
                            cands.append((facts.bodies[p2], bb))
    for hb, site in cands:
        tr = hb.calls_named('truncate')
        rp = hb.calls_named('rposition')
        if len(tr) != 1 or len(rp) != 1:
            continue
        # the predicate: true iff the element is not a Shift
        cl = [c for c in facts.closures_of(hb, recursive=False)]
        okp = False
        for c in cl:
            ps = [p for p in Walker(c, facts, max_paths=16).run() if p.end[0] == 'return']
            rows = set()

            def bv(t):
                return ('const', 1 - t[2][1]) if isinstance(t, tuple) and t[:2] == ('un', 'Not') and t[2][0] == 'const' and t[2][1] in (0, 1) and c.lty(0) == 'bool' else t
            for p in ps:
                p.end = (p.end[0], bv(p.end[1]))
                dv = [v for cd, v in p.conds if cd[0] == 'discr']
                if len(dv) == 1 and isinstance(dv[0], int):
                    rows.add((dv[0] == shift_d, p.end[1]))
                elif len(dv) == 1 and isinstance(dv[0], tuple) and dv[0][0] == 'ne':
                    rows.add((shift_d not in dv[0][1], p.end[1]))
            if rows and all((isshift and r == ('const', 0)) or (not isshift and r == ('const', 1)) for isshift, r in rows) and len(rows) >= 2:
                okp = True
        # keep = Some(i) => i + 1, None => 0
        okk = True
        nrows = 0
        for p in Walker(hb, facts, max_paths=64).run():
            te = p.calls(name='truncate')
            if not te:
                continue
            dv = [v for cd, v in p.conds if cd[0] == 'discr' and is_call(cd[1], 'rposition')]
            arg = te[0][3][1]
            if dv == [1]:
                nrows += 1
                okk = okk and isinstance(arg, tuple) and arg[0] == 'bin' and arg[1] == 'Add' and arg[3] == ('const', 1) and term_has(arg[2], lambda x: is_call(x, 'rposition'))
            elif dv == [0]:
                nrows += 1
                okk = okk and arg == ('const', 0)
            else:
                okk = False
        st_block = site if site is not None else tr[0][0]
        return hb, st_block, okp and okk and nrows >= 2
    return None


def r61(facts, res):
    R = 'R6.1'
    b = facts.one(R, 'simplify_repairs', crate='lrpar', name='simplify_repairs')
    pops = b.calls_named('pop')
    dedup = [(bb, t) for bb, t in b.calls_named('collect') if 'HashSet' in ' '.join(callee_of(t)['args'])]
    dedup += [(bb, t) for bb, t in b.calls() if cname(t) in ('dedup', 'dedup_by', 'dedup_by_key')]
    sorts = [(bb, t) for bb, t in b.calls() if (cname(t) or '').startswith('sort')]
    alt = None
    if not pops:
        alt = strip_by_truncate(facts, b)
    if alt is not None:
        # the strip is `v.truncate(last non-shift + 1)`, possibly in a helper applied to every sequence
        hb, site, okt = alt
        if okt:
            res.ok(R, 'strip-table', loc_of(hb), 'every sequence is cut back to just after its last repair that is not a Shift (rposition + truncate)')
        else:
            res.bad(R, 'strip-table', loc_of(hb), 'the sequence is not truncated to exactly one past its last non-Shift repair')
        if not dedup:
            res.bad(R, 'dedup', loc_of(b), 'sequences are never de-duplicated (no collection into a set)')
        if not sorts:
            res.bad(R, 'sort', loc_of(b), 'sequences are never sorted')
        if dedup and sorts:
            d = dedup[0][0]
            if b.dominates(site, d) and site not in b.reachable([d]):
                res.ok(R, 'strip-before-dedup', loc_of(b, d), 'all trailing shifts are stripped before sequences pass through the set')
            else:
                res.bad(R, 'strip-before-dedup', loc_of(b, d), 'sequences are de-duplicated before trailing shifts are stripped: stripping can make distinct sequences equal again')
            if b.dominates(d, sorts[0][0]) and d not in b.reachable(b.succs(sorts[0][0])):
                res.ok(R, 'dedup-before-sort', loc_of(b, sorts[0][0]), 'sorting happens after de-duplication')
            else:
                res.bad(R, 'dedup-before-sort', loc_of(b, sorts[0][0]), 'sorting is not performed after de-duplication (set iteration order would destroy it)')
        return
    if not pops:
        res.bad(R, 'strip', loc_of(b), 'trailing shifts are never stripped')
    if not dedup:
        res.bad(R, 'dedup', loc_of(b), 'sequences are never de-duplicated (no collection into a set)')
    if not sorts:
        res.bad(R, 'sort', loc_of(b), 'sequences are never sorted')
    if not (pops and dedup and sorts):
        return
    loops = b.loops()
    pl = [h for h in loops if pops[0][0] in loops[h]]
    outer = max(pl, key=lambda h: len(loops[h])) if pl else None
    # strip completes before dedup: dedup is not inside the strip loops and is dominated by the outer strip loop header
    d = dedup[0][0]
    ok1 = outer is not None and b.dominates(outer, d) and d not in loops[outer] and pops[0][0] not in b.reachable([d])
    ok2 = b.dominates(d, sorts[0][0]) and d not in b.reachable(b.succs(sorts[0][0]))
    if ok1:
        res.ok(R, 'strip-before-dedup', loc_of(b, d), 'all trailing shifts are stripped before sequences pass through the set')
    else:
        res.bad(R, 'strip-before-dedup', loc_of(b, d), 'sequences are de-duplicated before trailing shifts are stripped: stripping can make distinct sequences equal again')
    if ok2:
        res.ok(R, 'dedup-before-sort', loc_of(b, sorts[0][0]), 'sorting happens after de-duplication')
    else:
        res.bad(R, 'dedup-before-sort', loc_of(b, sorts[0][0]), 'sorting is not performed after de-duplication (set iteration order would destroy it)')
    # strip table: pop iff the last element is a Shift
    inner = min(pl, key=lambda h: len(loops[h])) if pl else None
    pr = facts.adt('lrpar::parser::ParseRepair')
    shift_d = [v['discr'] for v in pr['variants'] if v['name'] == 'Shift'][0]
    w = Walker(b, facts, max_paths=64)
    good = True
    n = 0
    for p in w.run(inner, stop=lambda x: x == inner or x not in loops[inner]):
        dv = [(c, v) for c, v in p.conds if c[0] == 'discr' and term_has(c, lambda x: is_call(x, 'index') or is_call(x, 'last') or x[0] == 'index')]
        popped = bool(p.calls(name='pop'))
        if not dv:
            if popped:
                good = False
            continue
        n += 1
        c, v = dv[-1]
        last_ok = term_has(c, lambda x: isinstance(x, tuple) and x[0] == 'bin' and x[1] == 'Sub' and x[3] == ('const', 1)) or has_call(c, 'last')
        if popped != (v == shift_d) or not last_ok:
            good = False
    if good and n >= 2:
        res.ok(R, 'strip-table', loc_of(b, inner), 'an element is popped iff the LAST element is a Shift')
    else:
        res.bad(R, 'strip-table', loc_of(b, inner), 'the strip loop does not pop exactly while the last repair is a Shift')


def r62(facts, res):
    R = 'R6.2'
    b = facts.one(R, 'simplify_repairs', crate='lrpar', name='simplify_repairs')
    clos = [c for c in facts.closures_of(b) if c.lty(0) == 'core::cmp::Ordering']
    if not clos:
        # the same ranking as a sort KEY: sort*_by_key(|x| (contains an avoided insertion?, x.len())) - ascending on that pair puts
        # sequences without avoided insertions first (false < true) and orders the rest by length
        for bb, t in b.calls():
            if not (cname(t) or '').endswith('by_key') or len(t['args']) < 2:
                continue
            cl = op_local(t['args'][1])
            kb = None
            for _bb, kind, rv in b.defs().get(cl, ()):
                if kind == 'stmt' and 'agg' in rv and isinstance(rv['agg'], dict) and 'closure' in rv['agg']:
                    kb = facts.bodies.get(rv['agg']['closure'])
            if kb is None:
                continue
            ps = [p for p in Walker(kb, facts, max_paths=16).run() if p.end[0] == 'return']
            good = bool(ps)
            for p in ps:
                r = p.end[1]
                if not (r[0] == 'tuple' and len(r[1]) == 2):
                    good = False
                    continue
                first, second = r[1]
                avoid_first = (first[0] in ('call', 'icall') and term_has(first, lambda x: x == ('param', 2)) and not has_call(first, 'len')) or \
                    (is_const(first) and any(term_has(cd, lambda x: x == ('param', 2)) and (cd[0] in ('call', 'icall')) and v == first[1] for cd, v in p.conds))
                if not (avoid_first and has_call(second, 'len') and term_has(second, lambda x: x == ('param', 2))):
                    good = False
            if good:
                res.ok(R, 'comparator', loc_of(kb), 'sorted ascending by the key (contains an avoided insertion, length): sequences without avoided insertions first, then shorter first')
            else:
                res.bad(R, 'comparator', loc_of(kb), 'the sort key is not (contains an avoided insertion, length)')
            return
    if len(clos) != 1:
        res.lost(R, 'ranking comparator closure not found (%d candidates)' % len(clos))
        return
    c = clos[0]
    ordd = {'Less': -1, 'Equal': 0, 'Greater': 1}
    rows = {}
    for p in Walker(c, facts, max_paths=256).run():
        if p.end[0] != 'return':
            continue
        flags = {}
        for cd, v in p.conds:
            t = cd
            neg = False
            while t[0] == 'un' and t[1] == 'Not':
                neg = not neg
                t = t[2]
            if t[0] == 'call' and (strip_generics(t[1]).split('::')[-1] in ('call', 'call_mut', 'call_once') or '{closure' in t[1]) or t[0] == 'icall':
                args = t[2]
                who = None
                for a in subterms(t):
                    if a == ('param', 2):
                        who = 'x'
                    elif a == ('param', 3):
                        who = 'y'
                if who:
                    flags[who] = (v == 1) != neg
        r = p.end[1]
        if r[0] == 'variant':
            out = r[3]
        elif r[0] == 'cmp':
            a, d = r[1], r[2]
            fa = 'x' if term_has(a, lambda q: q == ('param', 2)) else ('y' if term_has(a, lambda q: q == ('param', 3)) else '?')
            fd = 'x' if term_has(d, lambda q: q == ('param', 2)) else ('y' if term_has(d, lambda q: q == ('param', 3)) else '?')
            out = 'cmp(len %s, len %s)' % (fa, fd) if has_call(a, 'len') and has_call(d, 'len') else 'cmp(?)'
        else:
            out = fmt_term(r)[:60]
        rows[(flags.get('x'), flags.get('y'))] = out
    want = {(True, False): 'Greater', (False, True): 'Less'}
    ok = True
    for k, v in want.items():
        got = [o for (x, y), o in rows.items() if x == k[0] and (y == k[1] or y is None)]
        if not got or any(g != v for g in got):
            ok = False
    ties = [o for (x, y), o in rows.items() if (x, y) in ((True, True), (False, False)) or (x is False and y is False) or (x is True and y is True)]
    if not ties or any(t != 'cmp(len x, len y)' for t in ties):
        ok = False
    if ok:
        res.ok(R, 'comparator', loc_of(c), 'x avoid & y not -> Greater; y avoid & x not -> Less; otherwise x.len().cmp(y.len())')
    else:
        res.bad(R, 'comparator', loc_of(c), 'ranking comparator is not (avoid-insert last, then shorter first): %s' % rows)


def r62b(facts, res):
    """`contains an avoided insertion` is an ANY over the whole sequence: true as soon as one Insert of an %avoid_insert token is
    met, false only when the sequence is exhausted"""
    R = 'R6.2'
    b = facts.one(R, 'simplify_repairs', crate='lrpar', name='simplify_repairs')
    clos = [c for c in facts.closures_of(b) if c.lty(0) == 'bool' and c.calls_named('avoid_insert')]
    if len(clos) != 1:
        res.lost(R, 'the closure testing a sequence for avoided insertions was not found (%d candidates)' % len(clos))
        return
    c = clos[0]
    loops = c.loops()
    pr = facts.adt('lrpar::parser::ParseRepair')
    ins_d = [v['discr'] for v in pr['variants'] if v['name'] == 'Insert'][0]
    if not loops:
        # the same test as an iterator adaptor: Iterator::any over the whole sequence with an element predicate
        parent = facts.bodies.get(c.parent)
        anys = []
        for bb, t in (parent.calls_named('any') if parent is not None else []):
            st = callee_of(t).get('self_ty') or ''
            l = op_local(t['args'][1]) if len(t['args']) > 1 else None
            isc = any(kind == 'stmt' and 'agg' in rv and isinstance(rv['agg'], dict) and rv['agg'].get('closure') == c.path for _bb, kind, rv in parent.defs().get(l, ()))
            if isc and 'slice::iter::Iter<' in st and 'ParseRepair' in st:
                anys.append(bb)
        if len(anys) != 1 or parent.lty(0) != 'bool':
            res.lost(R, 'the avoid-insert test has no loop and is not one Iterator::any over the repair sequence')
            return
        pps = Walker(parent, facts, max_paths=64).run()
        if not pps or not all(p.end[0] == 'return' and is_call(p.end[1], 'any') for p in pps):
            res.bad(R, 'avoid-any', loc_of(parent, anys[0]), 'the result of any() over the sequence is not what the test answers')
            return
        probs = []
        n = 0
        for p in Walker(c, facts, max_paths=64).run():
            if p.end[0] != 'return':
                continue
            n += 1
            ret = p.end[1]
            isins = [v for cd, v in p.conds if cd[0] == 'discr' and isinstance(v, int)]
            av = [v for cd, v in p.conds if is_call(cd, 'avoid_insert')]
            if ins_d in isins:
                if not (is_call(ret, 'avoid_insert') or (av and ret == ('const', av[0]))):
                    probs.append('for an Insert the element predicate answers %s, not avoid_insert(token)' % fmt_term(ret)[:40])
            elif ret != ('const', 0):
                probs.append('for a repair that is not an Insert the element predicate answers %s' % fmt_term(ret)[:40])
        if probs or n < 2:
            res.bad(R, 'avoid-any', loc_of(c), '; '.join(sorted(set(probs))) or 'could not read the element predicate')
        else:
            res.ok(R, 'avoid-any', loc_of(c), 'Iterator::any over the whole sequence with the predicate "is an Insert of an avoided token"')
        return
    if len(loops) != 1:
        res.lost(R, 'expected one loop in the avoid-insert test')
        return
    h = list(loops)[0]
    w = Walker(c, facts, max_paths=64)
    ps = w.run(h, stop=lambda x: x == h)
    probs = []
    n = 0
    for p in ps:
        if p.end[0] != 'return':
            continue
        n += 1
        got = [v for cd, v in p.conds if cd[0] == 'discr' and is_call(cd[1], 'next')]
        exhausted = got == [0]
        ret = p.end[1]
        if exhausted:
            if ret != ('const', 0):
                probs.append('an exhausted sequence is reported as containing an avoided insertion')
            continue
        av = [v for cd, v in p.conds if is_call(cd, 'avoid_insert')]
        isins = [v for cd, v in p.conds if cd[0] == 'discr' and not is_call(cd[1], 'next') and isinstance(v, int)]
        if ret != ('const', 1) or av != [1] or ins_d not in isins:
            probs.append('the scan stops at an element and returns %s (insert=%s avoided=%s): only "this element is an avoided insertion" may end the scan early, with true'
                         % (fmt_term(ret)[:40], ins_d in isins, av))
    if probs or n < 2:
        res.bad(R, 'avoid-any', loc_of(c, h), '; '.join(sorted(set(probs))) or 'could not read the avoid-insert scan')
    else:
        res.ok(R, 'avoid-any', loc_of(c, h), 'true at the first avoided insertion anywhere in the sequence, false only when the sequence is exhausted')


def eof_excluding_filters(facts, b):
    """definition paths of closures handed to Iterator::filter in `b` that answer true
    only for a token different from eof_token_idx()"""
    out = []
    for bb, t in b.calls_named('filter'):
        if len(t['args']) < 2:
            continue
        l = op_local(t['args'][1])
        cb = None
        for _bb, kind, rv in b.defs().get(l, ()):
            if kind == 'stmt' and 'agg' in rv and isinstance(rv['agg'], dict) and 'closure' in rv['agg']:
                cb = facts.bodies.get(rv['agg']['closure'])
        if cb is None:
            continue
        ps = Walker(cb, facts, max_paths=64).run()
        good = bool(ps)
        for p in ps:
            r = p.end[1] if p.end[0] == 'return' else None
            if r is None:
                good = False
            elif r == ('const', 0):
                pass
            elif r[0] == 'bin' and r[1] == 'Ne' and has_call(r, 'eof_token_idx') and term_has(r, lambda x: x == ('param', 2)):
                pass
            elif r[0] == 'un' and r[1] == 'Not' and r[2][0] == 'bin' and r[2][1] == 'Eq' and has_call(r[2], 'eof_token_idx') and term_has(r[2], lambda x: x == ('param', 2)):
                pass
            elif any(c[0] == 'bin' and c[1] in ('Eq', 'Ne') and has_call(c, 'eof_token_idx') and term_has(c, lambda x: x == ('param', 2))
                     and ((v == 0) if c[1] == 'Eq' else (v == 1)) for c, v in p.conds):
                pass
            else:
                good = False
        if good:
            out.append(cb.path)
    return out


def r63(facts, res):
    R = 'R6.3'
    n = 0
    for b in facts.lib_bodies(['lrpar']):
        if not b.path.startswith(CP) or b.from_expansion:
            continue
        sites = []
        for bb, i, st in b.stmts():
            if st['k'] == 'assign' and 'agg' in st['rv'] and isinstance(st['rv']['agg'], dict) and st['rv']['agg'].get('vname') == 'InsertTerm' \
                    and st['rv']['agg'].get('adt', '').endswith('cpctplus::Repair'):
                sites.append((bb, st['lhs']['l']))
        for bb, lhs in sites:
            n += 1
            w = widening_walker(b, facts, max_paths=2048)
            ps = [p for p in w.run(0) if bb in p.blocks]
            key = 'insert-term:%s' % strip_generics(b.path).split('::')[-1]
            ok = bool(ps)
            filt = None
            for p in ps:
                guard = [(c, v) for c, v in p.conds if c[0] == 'bin' and c[1] in ('Eq', 'Ne') and has_call(c, 'eof_token_idx')]
                g = False
                for c, v in guard:
                    ne = (v == 0) if c[1] == 'Eq' else (v == 1)
                    if ne:
                        g = True
                if not g:
                    # the same guard as an iterator filter: the inserted token is drawn from Filter<_, P>::next and P excludes the EOF token
                    if filt is None:
                        filt = eof_excluding_filters(facts, b)
                    it = p.env.get((lhs, ()))
                    tok = it[4][0] if it is not None and it[0] == 'variant' and it[4] else None
                    if tok is not None and filt and term_has(tok, lambda x: isinstance(x, tuple) and x and x[0] == 'call' and 'filter::Filter<' in x[1] and x[1].endswith('::next')
                                                             and term_has(x, lambda y: isinstance(y, tuple) and y and y[0] == 'closure' and y[1] in filt)):
                        g = True
                if not g:
                    ok = False
            if ok:
                res.ok(R, key, loc_of(b, bb), 'InsertTerm(t) is only built under t != eof_token_idx()')
            else:
                res.bad(R, key, loc_of(b, bb), 'an InsertTerm repair can be built for the end-of-input token')
    res.floor(R, 'InsertTerm construction sites', n, 1)


def _origin_names(b, l, depth=0, seen=None):
    """names of the calls a local's value is computed from (through copies, borrows, fields, casts, operators); the
    arguments of comparison/conversion calls are followed, those of any other call are not (the call is the origin)"""
    seen = set() if seen is None else seen
    if l in seen or depth > 24:
        return set()
    seen.add(l)
    out = set()
    for bb, kind, d in b.defs().get(l, ()):
        if kind == 'call':
            nm = cname(d) or '?'
            out.add(nm)
            if nm in ('eq', 'ne', 'lt', 'le', 'gt', 'ge', 'cmp', 'partial_cmp', 'deref', 'clone', 'from', 'into', 'borrow', 'not', 'as_ref', 'unwrap', 'is_eq', 'is_ne', 'is_gt', 'is_lt', 'is_ge', 'is_le'):
                for a in d['args']:
                    if op_local(a) is not None:
                        out |= _origin_names(b, op_local(a), depth + 1, seen)
        else:
            pls = [d[k] for k in ('ref', 'discr', 'len') if isinstance(d.get(k), dict) and 'l' in d[k]]
            pls += [op_place(o) for o in rv_operands(d) if op_place(o) is not None]
            if 'cast' in d and isinstance(d['cast'], dict):
                o = d['cast'].get('op') or d['cast']
                if isinstance(o, dict) and op_place(o) is not None:
                    pls.append(op_place(o))
            if not pls and not any(k in d for k in ('const',)) and 'agg' not in d:
                out.add('?')
            for pl in pls:
                out |= _origin_names(b, pl['l'], depth + 1, seen)
    if l <= b.arg_count and l >= 1:
        out.add('param')
    return out


DROPPING_ADAPTORS = ('filter', 'filter_map', 'skip', 'skip_while', 'take', 'take_while', 'step_by', 'map_while', 'flat_map', 'nth', 'find', 'find_map', 'position', 'any', 'all')


def r612(facts, res):
    """CPCT+'s insert rule proposes EVERY token the state has an action for except end-of-input, and keeps each proposal the
    side-effect-free parse can shift.  Decided on the shape of CPCTPlus::insert: the branches that decide whether the
    InsertTerm neighbour is built (classical control dependence, transitively, inside the candidate loop) may test only
    (a) that the candidate iterator has another element, (b) the candidate against eof_token_idx(), (c) the outcome of the
    trial parse (lr_cactus / lr_upto).  A test of anything else - the look-ahead token, the cost, a counter - drops
    candidates from the search, so a minimum-cost repair that needs them is not reported."""
    R = 'R6.12'
    n = 0
    for b in facts.lib_bodies(['lrpar']):
        if not b.path.startswith(CP) or b.from_expansion:
            continue
        sites = [bb for bb, i, st in b.stmts() if st['k'] == 'assign' and 'agg' in st['rv'] and isinstance(st['rv']['agg'], dict)
                 and st['rv']['agg'].get('vname') == 'InsertTerm' and st['rv']['agg'].get('adt', '').endswith('cpctplus::Repair')]
        for site in sorted(set(sites)):
            n += 1
            key = 'insert-candidates:%s' % strip_generics(b.path).split('::')[-1]
            deps, todo = set(), [site]
            while todo:
                x = todo.pop()
                for s in b.control_deps_pd(x):
                    if s not in deps:
                        deps.add(s)
                        todo.append(s)
            bad, kinds = [], {'more-candidates': 0, 'eof': 0, 'trial-parse': 0}
            for s in sorted(deps):
                t = b.term(s)
                l = op_local(t['on'])
                names = _origin_names(b, l) if l is not None else {'?'}
                if 'eof_token_idx' in names and not (names - {'eof_token_idx', 'eq', 'ne', 'param', 'next', 'deref', 'clone', 'from', 'into', 'borrow', 'not', 'as_ref'}):
                    kinds['eof'] += 1
                elif names & {'lr_cactus', 'lr_upto'}:
                    kinds['trial-parse'] += 1
                elif names and names <= {'next', 'param'} and 'next' in names:
                    kinds['more-candidates'] += 1
                else:
                    bad.append('line %s: the neighbour is built or not depending on a test of %s' % (t.get('line'), ', '.join(sorted(names - {'param', 'eq', 'ne', 'not'})) or 'a parameter'))
            for bb, t in b.calls():
                nm = cname(t)
                if nm in DROPPING_ADAPTORS and 'iter' in (callee_of(t).get('path') or ''):
                    if nm == 'filter' and eof_excluding_filters(facts, b) and len(eof_excluding_filters(facts, b)) >= len(b.calls_named('filter')):
                        kinds['eof'] += 1
                        continue
                    bad.append('line %s: the candidates pass through Iterator::%s' % (t.get('line'), nm))
            if not kinds['eof'] and not bad:
                # R6.3's business, but say it here too: without it the count below is meaningless
                bad.append('no test against eof_token_idx() decides the neighbour')
            if bad:
                res.bad(R, key, loc_of(b, site), '; '.join(bad[:3]) + ': the insert rule must propose every token the state has an action for, except end-of-input, '
                        'and keep each proposal the trial parse shifts', {'function': b.path})
            else:
                res.ok(R, key, loc_of(b, site), 'whether the InsertTerm neighbour is built depends only on: another candidate (%d), candidate != end-of-input (%d), the trial parse (%d)'
                       % (kinds['more-candidates'], kinds['eof'], kinds['trial-parse']))
    res.floor(R, 'InsertTerm construction sites', n, 1)


def r64(facts, res):
    R = 'R6.4'
    rec = [x for x in facts.lib_bodies(['lrpar']) if x.name == 'recover' and 'CPCTPlus' in (x.impl_of or '')]
    if len(rec) != 1:
        res.lost(R, 'CPCTPlus::recover not found')
        return
    nb = [c for c in facts.closures_of(rec[0]) if c.calls_named('shift') and c.calls_named('delete')]
    if len(nb) != 1:
        res.lost(R, 'neighbour closure not found')
        return
    c = nb[0]
    rp = facts.adt(CP + 'Repair')
    del_d = [v['discr'] for v in rp['variants'] if v['name'] == 'Delete'][0]
    bad = []
    n = 0
    for p in Walker(c, facts, max_paths=512).run():
        if p.end[0] != 'return':
            continue
        n += 1
        late = None
        for cd, v in p.conds:
            if cd[0] == 'bin' and term_has(cd, lambda x: is_call(x, 'now')):
                # Le(finish_by, now) / Lt(now, finish_by)...
                if cd[1] == 'Le':
                    late = (v == 1) if is_call(strip_ref(cd[3]), 'now') else (v == 0)
                elif cd[1] == 'Lt':
                    late = (v == 0) if is_call(strip_ref(cd[2]), 'now') else (v == 1)
        explore = [v for cd, v in p.conds if cd == ('param', 2)]
        explore = bool(explore[0]) if explore else None
        lastdel = None
        for cd, v in p.conds:
            if cd[0] == 'discr' and has_call(cd, 'last_repair'):
                if cd[1][0] == 'call':
                    if v == 0:
                        lastdel = False  # None
                else:
                    lastdel = (v == del_d)
        ins, dele, shf = bool(p.calls(name='insert')), bool(p.calls(name='delete')), bool(p.calls(name='shift'))
        ret = p.end[1]
        if late:
            if ins or dele or shf or ret != ('const', 0):
                bad.append('after the deadline neighbours are still generated')
            continue
        if ret != ('const', 1) or not shf:
            bad.append('before the deadline the generator must shift and report true')
        if explore is None:
            bad.append('generation does not depend on explore_all')
            continue
        if dele != explore:
            bad.append('delete generated=%s with explore_all=%s' % (dele, explore))
        want_ins = explore and (lastdel is False)
        if lastdel is None and explore:
            bad.append('insertion does not depend on the last repair')
        elif ins != bool(want_ins):
            bad.append('insert generated=%s with explore_all=%s last-is-delete=%s' % (ins, explore, lastdel))
    if not bad and n >= 4:
        res.ok(R, 'neighbour-table', loc_of(c), 'insert iff explore_all and last repair is not Delete; delete iff explore_all; shift always; nothing after the deadline (%d paths)' % n)
    else:
        res.bad(R, 'neighbour-table', loc_of(c), '; '.join(sorted(set(bad))) or 'could not read the neighbour table')


def cost_assert_loops(b):
    """headers of loops of `b` that call the token-cost function and compare something with 0 on the way to a diverging call"""
    out = []
    for h, body in b.loops().items():
        cost_calls = [(bb, t) for bb, t in b.calls(blocks=body) if cname(t) in ('call', 'call_mut') or callee_of(t) is None]
        gts = []
        for bb in body:
            for st in b.blocks[bb]['stmts']:
                if st['k'] == 'assign' and 'bin' in st['rv'] and st['rv']['bin'] in ('Gt', 'Lt', 'Ne', 'Eq', 'Ge', 'Le'):
                    c = st['rv']['b'].get('const') or st['rv']['a'].get('const')
                    if c is not None and c.get('int') == 0:
                        gts.append(st['rv']['bin'])
        if cost_calls and gts and gts[0] in ('Gt', 'Lt', 'Ne'):
            out.append(h)
    return out


def reaches_lr(facts, path, depth=3):
    b = facts.bodies.get(path)
    if b is None or depth == 0:
        return False
    if b.name == 'lr' and (b.impl_of or '').startswith('lrpar::parser::Parser<'):
        return True
    return any(reaches_lr(facts, cpath(t) or '', depth - 1) for _bb, t in b.calls() if (cpath(t) or '').startswith('lrpar::parser::'))


def r65(facts, res):
    R = 'R6.5'
    n = 0
    for name in ('parse_map', 'parse_actions'):
        bs = [x for x in facts.lib_bodies(['lrpar']) if x.name == name and (x.impl_of or '').startswith('lrpar::parser::Parser<')]
        for b in bs:
            n += 1
            # where parsing starts: the call of lr(), or of a local helper that gets there
            lrs = [(bb, t) for bb, t in b.calls() if reaches_lr(facts, cpath(t) or '')]
            # the assertion: a loop in this function, or in a local helper called (unconditionally) before parsing starts
            okl = None
            for h in cost_assert_loops(b):
                if lrs and b.dominates(h, lrs[0][0]):
                    okl = h
            if okl is None and lrs:
                for bb, t in b.calls():
                    hb = facts.bodies.get(cpath(t) or '')
                    if hb is not None and hb.crate == 'lrpar' and hb.kind in ('fn', 'assoc_fn') and b.dominates(bb, lrs[0][0]) and bb != lrs[0][0]:
                        hl = cost_assert_loops(hb)
                        # the helper's loop runs on every call of it: its header dominates every return
                        rets = [x for x in hb.reachable() if hb.term(x)['k'] == 'return']
                        if hl and rets and all(any(hb.dominates(h2, r) for h2 in hl) for r in rets):
                            okl = bb
            if okl is not None:
                res.ok(R, 'costs-positive:' + name, loc_of(b, okl), 'every token cost is asserted > 0 before lr() starts')
            else:
                res.bad(R, 'costs-positive:' + name, loc_of(b), 'token costs are not asserted > 0 before parsing: a zero cost makes insert/delete free and the search non-minimal')
    res.floor(R, 'parser entry points with cost functions', n, 2)


def r66(facts, res):
    R = 'R6.6'
    eqs = [x for x in facts.lib_bodies(['lrpar']) if x.name == 'eq' and 'PathFNode' in (x.impl_of or '') and not x.from_expansion]
    hs = [x for x in facts.lib_bodies(['lrpar']) if x.name == 'hash' and 'PathFNode' in (x.impl_of or '') and not x.from_expansion]
    if len(eqs) != 1 or len(hs) != 1:
        res.lost(R, 'PathFNode eq/hash not found (%d/%d)' % (len(eqs), len(hs)))
        return
    b = eqs[0]
    rp = facts.adt(CP + 'Repair')
    rdis = {v['name']: v['discr'] for v in rp['variants']}
    # finite-model comparison: every abstract model consistent with a path's branch literals must agree with
    #   eq <=> same index and same stack and not(exactly one side ends in Delete) and equal trailing-shift counts
    import itertools
    lasts = [None] + sorted(rdis)
    models = [dict(la=la, ps=ps, s=s_, o=o_) for la in (0, 1) for ps in (0, 1) for s_ in lasts for o_ in lasts]

    class Unknown(Exception):
        pass

    def side(t):
        if term_has(t, lambda x: x == ('param', 1)):
            return 's'
        if term_has(t, lambda x: x == ('param', 2)):
            return 'o'
        raise Unknown()

    def ev(c, m):
        if c[0] == 'bin' and c[1] in ('Eq', 'Ne'):
            def whole_field(t, f):
                # the operand IS the field (of self or other), not something computed from it (its length, its top, ...)
                t = strip_ref(t)
                while isinstance(t, tuple) and t and t[0] in ('deref', 'ref'):
                    t = t[1]
                return isinstance(t, tuple) and len(t) > 3 and t[0] == 'field' and t[3] == f
            for f, k in (('laidx', 'la'), ('pstack', 'ps')):
                if whole_field(c[2], f) and whole_field(c[3], f):
                    return int(m[k] == 1) if c[1] == 'Eq' else int(m[k] != 1)
            raise Unknown()
        if c[0] == 'discr' and has_call(c, 'last_repair'):
            inner = c[1]
            sd = side(inner)
            if inner[0] == 'call':
                return int(m[sd] is not None)
            if term_has(inner, lambda x: isinstance(x, tuple) and x[0] == 'downcast'):
                if m[sd] is None:
                    raise Unknown()  # payload of a None: path infeasible for this model
                return rdis[m[sd]]
        raise Unknown()

    bad = []
    n = 0
    covered = set()
    for p in Walker(b, facts, max_paths=512).run():
        if p.end[0] != 'return':
            continue
        n += 1
        ret = p.end[1]
        for i, m in enumerate(models):
            sat = True
            for c, v in p.conds:
                try:
                    x = ev(c, m)
                except Unknown:
                    if c[0] == 'discr' and has_call(c, 'last_repair') and term_has(c[1], lambda x: isinstance(x, tuple) and x[0] == 'downcast'):
                        sat = False  # examines the payload of a side that is None in this model
                        break
                    continue
                if isinstance(v, int):
                    if x != v:
                        sat = False
                        break
                elif isinstance(v, tuple) and v[0] == 'ne' and x in v[1]:
                    sat = False
                    break
            if not sat:
                continue
            covered.add(i)
            must_false = (m['la'] != 1) or (m['ps'] != 1) or ((m['s'] == 'Delete') != (m['o'] == 'Delete'))
            if must_false:
                if ret != ('const', 0):
                    bad.append('nodes with %s compare as possibly equal' % (
                        'different input index' if m['la'] != 1 else 'different stacks' if m['ps'] != 1 else
                        'exactly one repair sequence ending in Delete (self ends in %s, other in %s)' % (m['s'], m['o'])))
            else:
                if not (ret[0] == 'bin' and ret[1] == 'Eq'):
                    bad.append('compatible nodes (self ends in %s, other in %s) are not compared by their trailing-shift counts' % (m['s'], m['o']))
    if len(covered) != len(models):
        bad.append('%d of %d abstract cases are covered by no path' % (len(models) - len(covered), len(models)))
    if not bad and n >= 4:
        res.ok(R, 'node-eq', loc_of(b), 'unequal index/stack -> false; exactly one side ends in Delete -> false; else equality of trailing-shift counts (%d abstract cases over %d paths)' % (len(models), n))
    else:
        res.bad(R, 'node-eq', loc_of(b), '; '.join(sorted(set(bad))[:3]) or 'could not read PathFNode::eq')
    h = hs[0]
    read = set()
    for bb, i, st in h.stmts():
        if st['k'] != 'assign':
            continue
        pls = [st['rv'][k] for k in ('ref', 'rawptr') if k in st['rv']] + [op_place(o) for o in rv_operands(st['rv'])]
        for pl in pls:
            if pl and pl['l'] == 1:
                for q in pl['p']:
                    if isinstance(q, dict) and 'name' in q and 'f' in q:
                        read.add(q['name'])
    if read and read <= {'pstack', 'laidx'}:
        res.ok(R, 'node-hash', loc_of(h), 'Hash reads %s: a subset of what eq requires to be equal' % sorted(read))
    else:
        res.bad(R, 'node-hash', loc_of(h), 'Hash reads %s but eq only requires pstack and laidx to be equal: equal nodes may hash differently' % sorted(read))


def r67(facts, res):
    R = 'R6.7'
    b = facts.one(R, 'dijkstra', crate='lrpar', name='dijkstra')
    calls = [(bb, t) for bb, t in b.calls() if cname(t) in ('call', 'call_mut') and len(t['args']) == 2]
    nb = []
    for bb, t in calls:
        # args tuple: (bool, &N, &mut Vec)
        l = op_local(t['args'][1])
        for d in b.defs().get(l, []):
            if d[1] == 'stmt' and d[2].get('agg') == 'tuple' and len(d[2]['ops']) == 3:
                c = d[2]['ops'][0].get('const')
                if c is not None and 'int' in c:
                    nb.append((bb, c['int']))
    nb.sort()
    if [v for _, v in nb] != [1, 0]:
        res.bad(R, 'two-phase', loc_of(b), 'the search does not call the neighbour generator first with explore_all=true and then with false (found %s)' % [v for _, v in nb])
        return
    loops = b.loops()
    l1 = [h for h in loops if nb[0][0] in loops[h]]
    l2 = [h for h in loops if nb[1][0] in loops[h]]
    if not l1 or not l2 or min(l1, key=lambda h: len(loops[h])) == min(l2, key=lambda h: len(loops[h])):
        res.bad(R, 'two-phase', loc_of(b), 'the two phases are not separate loops')
        return
    res.ok(R, 'two-phase', loc_of(b, nb[0][0]), 'phase 1 explores all neighbours; the sweep only follows shifts')
    # sweep keeps only neighbours of the fixed cost
    h2 = min(l2, key=lambda h: len(loops[h]))
    def keeps(t):
        # a neighbour is kept by entry()/insert() on a bucket, or by calling a local helper closure that does that
        if cname(t) in ('entry', 'insert'):
            return True
        cb = facts.bodies.get(cpath(t) or '')
        return cb is not None and cb.kind == 'closure' and cb.root_parent == b.path and bool(cb.calls_named('entry') or cb.calls_named('insert'))
    ins = [(bb, t) for bb, t in b.calls(blocks=loops[h2]) if keeps(t)]
    good = bool(ins)
    for bb, t in ins:
        inner = [h for h in loops if bb in loops[h]]
        ih = min(inner, key=lambda h: len(loops[h]))
        # the loop may draw its elements from `drain(..).filter(|(cost, _)| *cost == c)`: then every element it sees has the cost
        filtered = False
        for nb, nt in b.calls_named('next', loops[ih]):
            if 'filter::Filter<' not in (callee_of(nt).get('self_ty') or ''):
                continue
            for fb_, ft in b.calls_named('filter'):
                cl = op_local(ft['args'][1]) if len(ft['args']) > 1 else None
                for _bb, kind, rv in b.defs().get(cl, ()):
                    if kind == 'stmt' and 'agg' in rv and isinstance(rv['agg'], dict) and 'closure' in rv['agg']:
                        fcb = facts.bodies.get(rv['agg']['closure'])
                        fps = Walker(fcb, facts, max_paths=8).run() if fcb is not None else []
                        if fps and all(p.end[0] == 'return' and p.end[1][0] == 'bin' and p.end[1][1] == 'Eq' and term_has(p.end[1], lambda x: x == ('param', 2))
                                       and term_has(p.end[1], lambda x: isinstance(x, tuple) and len(x) > 2 and x[0] == 'field' and x[1] in (('param', 1), ('deref', ('param', 1)))) for p in fps):
                            filtered = b.dominates(fb_, nb)
        if filtered:
            continue
        w = Walker(b, facts, max_paths=64)
        ps = [p for p in w.run(ih, stop=lambda x: x == ih or x not in loops[ih]) if bb in p.blocks]
        for p in ps:
            if not any(cd[0] == 'bin' and ((cd[1] == 'Eq' and v == 1) or (cd[1] == 'Ne' and v == 0)) for cd, v in p.conds):
                good = False
    if good:
        res.ok(R, 'sweep-cost-filter', loc_of(b, ins[0][0]), 'the sweep keeps a neighbour only when its cost equals the cost of the first success')
    else:
        res.bad(R, 'sweep-cost-filter', loc_of(b), 'the sweep keeps neighbours regardless of cost')


def r68(facts, res):
    """rank_cnds compares how far each candidate lets the parse continue and keeps the furthest ones: the comparison is only
    meaningful when every candidate is test-parsed up to the SAME end point, i.e. the bound handed to lr_upto is built from
    the function's own inputs (the error position) and constants - never from the candidate just applied."""
    R = 'R6.8'
    bs = [b for b in facts.lib_bodies(['lrpar']) if b.name == 'rank_cnds' and b.path.startswith('lrpar::cpctplus::')]
    if len(bs) != 1:
        res.lost(R, 'rank_cnds not found')
        return
    b = bs[0]
    loops = b.loops()
    calls = [(bb, t) for bb, t in b.calls_named('lr_upto') if any(bb in loops[h] for h in loops)]
    if not calls and not b.calls_named('lr_upto'):
        # the trial parse lives in a local closure that the candidate loop calls
        cls = [c for c in facts.closures_of(b, recursive=False) if len(c.calls_named('lr_upto')) == 1]
        if len(cls) == 1:
            c = cls[0]
            # what the closure captures: environment field k -> local of rank_cnds
            caps = {}
            for bb, _i, st in b.stmts():
                if st['k'] == 'assign' and isinstance(st['rv'].get('agg'), dict) and st['rv']['agg'].get('closure') == c.path:
                    for k, o in enumerate(st['rv']['ops']):
                        caps[k] = b.op_root(o, through=Body.THROUGH, stop_named=False)[0]
            called_in_loop = any(bb in loops[h] for h in loops for bb, t in b.calls() if (callee_of(t) or {}).get('resolved') == c.path or cpath(t) == c.path)
            bad = None
            end = None
            n_ = 0
            for p in Walker(c, facts, max_paths=256).run():
                for e in p.calls(name='lr_upto'):
                    n_ += 1
                    if len(e[3]) < 4:
                        bad = 'lr_upto is called with %d arguments' % len(e[3])
                        continue
                    end = e[3][3]
                    for x in subterms(end):
                        if not (isinstance(x, tuple) and x):
                            continue
                        if x[0] in ('call', 'icall', 'widen', 'uninit', 'mutated') or (x[0] == 'param' and x[1] != 1):
                            bad = 'the end point of the trial parse, %s, depends on per-candidate state (%s): candidates are measured against different end points' % (fmt_term(end)[:90], fmt_term(x)[:60])
                        if x[0] == 'field' and strip_ref(x[1]) in (('deref', ('param', 1)), ('param', 1)):
                            cl = caps.get(x[2])
                            if cl is None or not (1 <= cl <= b.arg_count):
                                bad = 'the end point of the trial parse, %s, uses a captured value that is not an input of rank_cnds' % fmt_term(end)[:90]
                    if not term_has(end, lambda x: isinstance(x, tuple) and x and x[0] == 'field'):
                        bad = bad or 'the end point of the trial parse, %s, does not depend on the error position' % fmt_term(end)[:90]
            if not called_in_loop or not n_:
                res.lost(R, 'the closure holding the trial parse of rank_cnds is not called from the candidate loop')
            elif bad:
                res.bad(R, 'same-end-point', loc_of(c), bad)
            else:
                res.ok(R, 'same-end-point', loc_of(c), 'every candidate is test-parsed (in a local closure) up to %s (inputs of rank_cnds and constants only)' % fmt_term(end)[:60])
            return
    if len(calls) != 1:
        res.lost(R, 'expected one lr_upto call inside the candidate loop of rank_cnds, found %d' % len(calls))
        return
    cbb, ct = calls[0]
    h = min((x for x in loops if cbb in loops[x]), key=lambda x: len(loops[x]))
    w = widening_walker(b, facts)
    w.widen_headers = set(loops) - {h}
    w.widen_assigned = {x: loop_assigned(b, x) for x in w.widen_headers}
    ps = [p for p in w.run(h, stop=lambda x: x not in loops[h]) if any(e[0] == 'call' and e[1] == cbb for e in p.events)]
    if not ps:
        res.lost(R, 'no path through the lr_upto call of rank_cnds')
        return
    bad = None
    for p in ps:
        e = [e for e in p.events if e[0] == 'call' and e[1] == cbb][0]
        if len(e[3]) < 4:
            bad = 'lr_upto is called with %d arguments' % len(e[3])
            break
        end = e[3][3]
        dep = [x for x in subterms(end) if isinstance(x, tuple) and x and x[0] in ('call', 'icall', 'widen', 'uninit', 'mutated', 'field', 'deref')]
        if dep:
            bad = 'the end point of the trial parse, %s, depends on per-candidate state (%s): candidates are measured against different end points, so "parsed furthest" no longer compares like with like' % (
                fmt_term(end)[:90], fmt_term(dep[0])[:60])
            break
        if not term_has(end, lambda x: isinstance(x, tuple) and x and x[0] == 'param'):
            bad = 'the end point of the trial parse, %s, does not depend on the error position' % fmt_term(end)[:90]
            break
    if bad:
        res.bad(R, 'same-end-point', loc_of(b, cbb), bad)
    else:
        res.ok(R, 'same-end-point', loc_of(b, cbb), 'every candidate is test-parsed up to %s (function inputs and constants only)' % fmt_term(end)[:60])


def r69(facts, res):
    """The forward move of the search (CPCTPlus::shift) may discard its successor only when the move made NO progress: every path
    through shift() that pushes no neighbour must have established that no lexeme was consumed (new position <= old position).
    Judging progress by the parse stack alone is not enough - reduce, reduce, shift on a left-recursive list ends with a stack
    equal by value to the starting one - and a discarded successor removes every repair that continues through it."""
    R = 'R6.9'
    bs = [b for b in facts.lib_bodies(['lrpar']) if b.name == 'shift' and 'cpctplus::CPCTPlus' in b.path]
    if len(bs) != 1:
        res.lost(R, 'CPCTPlus::shift not found')
        return
    b = bs[0]
    ps = Walker(b, facts, max_paths=512).run(0)
    lc = b.calls_named('lr_cactus')
    if len(lc) != 1 or not ps:
        res.lost(R, 'expected one lr_cactus call in CPCTPlus::shift, found %d' % len(lc))
        return
    bad = None
    npush = nskip = 0
    for p in ps:
        if p.end[0] != 'return':
            continue
        pushes = [e for e in p.calls(name='push')]
        if pushes:
            npush += 1
            continue
        nskip += 1
        # some condition on the path says: position returned by lr_cactus (.0) is not greater than the node's position
        noprog = False
        for c, v in p.conds:
            if not (isinstance(c, tuple) and c and c[0] == 'bin' and c[1] in ('Lt', 'Le', 'Gt', 'Ge', 'Eq', 'Ne') and isinstance(v, int)):
                continue
            def is_new(t):
                return isinstance(t, tuple) and t and t[0] == 'field' and is_call(t[1], 'lr_cactus') and t[2] == 0
            def is_old(t):
                return isinstance(t, tuple) and len(t) > 3 and t[0] == 'field' and t[3] == 'laidx'
            op = c[1] if v else {'Lt': 'Ge', 'Ge': 'Lt', 'Le': 'Gt', 'Gt': 'Le', 'Eq': 'Ne', 'Ne': 'Eq'}[c[1]]
            a, d = strip_ref(c[2]), strip_ref(c[3])
            if is_old(a) and is_new(d) and op in ('Ge', 'Eq'):       # old >= new
                noprog = True
            if is_new(a) and is_old(d) and op in ('Le', 'Eq'):       # new <= old
                noprog = True
        if not noprog:
            bad = 'a path through shift() (blocks %s) discards the successor without having established that no lexeme was consumed: progress is judged by the parse stack alone' % p.blocks[:10]
    if bad:
        res.bad(R, 'progress-kept', loc_of(b, lc[0][0]), bad)
    elif npush == 0:
        res.lost(R, 'no path of CPCTPlus::shift pushes a neighbour')
    else:
        res.ok(R, 'progress-kept', loc_of(b, lc[0][0]), '%d paths push the successor; the %d that do not have tested that the input position did not advance' % (npush, nskip))


def r610(facts, res, R='R6.10'):
    """A forward move is recorded as a Shift repair exactly when it consumed a lexeme: on every path through CPCTPlus::shift() that
    pushes a neighbour, the neighbour's repairs are extended by Repair::Shift iff the position returned by lr_cactus is beyond the
    node's.  Counting a reduce-only move as a shift lets the success test ("three trailing shifts") accept a repair after which
    fewer than three lexemes parse."""
    bs = [b for b in facts.lib_bodies(['lrpar']) if b.name == 'shift' and 'cpctplus::CPCTPlus' in b.path]
    if len(bs) != 1:
        res.lost(R, 'CPCTPlus::shift not found')
        return
    b = bs[0]
    ps = [p for p in Walker(b, facts, max_paths=512).run(0) if p.end[0] == 'return' and p.calls(name='push')]
    if not ps:
        res.lost(R, 'no path of CPCTPlus::shift pushes a neighbour')
        return

    def is_new(t):
        return isinstance(t, tuple) and t and t[0] == 'field' and is_call(t[1], 'lr_cactus') and t[2] == 0

    def is_old(t):
        return isinstance(t, tuple) and len(t) > 3 and t[0] == 'field' and t[3] == 'laidx'
    bad = None
    n = 0
    for p in ps:
        pushed = p.calls(name='push')[0][3][1]
        shifted = term_has(pushed, lambda x: isinstance(x, tuple) and x and x[0] == 'variant' and x[3] == 'Shift' and x[1].endswith('cpctplus::Repair'))
        # what the path knows about new vs old position
        prog = None
        for c, v in p.conds:
            if not (isinstance(c, tuple) and c and c[0] == 'bin' and c[1] in ('Lt', 'Le', 'Eq') and isinstance(v, int)):
                continue
            a, d = strip_ref(c[2]), strip_ref(c[3])
            if is_old(a) and is_new(d):
                prog = {('Lt', 1): True, ('Lt', 0): False, ('Le', 0): False, ('Eq', 1): False, ('Eq', 0): True}.get((c[1], v), prog)     # old < new (new >= old always)
            elif is_new(a) and is_old(d):
                prog = {('Le', 1): False, ('Le', 0): True, ('Lt', 0): None, ('Eq', 1): False, ('Eq', 0): True}.get((c[1], v), prog)
        n += 1
        if shifted and prog is not True:
            bad = 'a neighbour is given a Repair::Shift on a path (blocks %s) that has not established that the input position advanced: a move that only reduces counts as a shifted lexeme' % p.blocks[-8:]
        elif not shifted and prog is True:
            bad = 'a move that consumed a lexeme is not recorded as a Shift'
    if bad:
        res.bad(R, 'shift-iff-consumed', loc_of(b), bad, {'function': b.path})
    else:
        res.ok(R, 'shift-iff-consumed', loc_of(b), 'on each of the %d pushing paths a Shift repair is recorded exactly when lr_cactus moved the input position' % n)


def r611(facts, res):
    """A deletion is charged the cost of the token it deletes and moves one lexeme on: in CPCTPlus::delete the cost added is
    token_cost(next_tidx(n.laidx)) for the very position n.laidx of the node, and the new node stands at n.laidx + 1.  (Dijkstra's
    buckets are keyed by accumulated cost: a wrong charge reorders the search and the reported set is no longer the minimum.)"""
    R = 'R6.11'
    bs = [b for b in facts.lib_bodies(['lrpar']) if b.name == 'delete' and 'cpctplus::CPCTPlus' in b.path]
    if len(bs) != 1:
        res.lost(R, 'CPCTPlus::delete not found')
        return
    b = bs[0]
    ps = [p for p in Walker(b, facts, max_paths=256).run(0) if p.end[0] == 'return' and p.calls(name='push')]
    if not ps:
        res.lost(R, 'no path of CPCTPlus::delete pushes a neighbour')
        return
    bad = []
    for p in ps:
        pushed = p.calls(name='push')[0][3][1]
        node = [x for x in subterms(pushed) if isinstance(x, tuple) and x and x[0] == 'variant' and x[1].endswith('PathFNode')]
        if not node:
            bad.append('the neighbour pushed is not a PathFNode literal')
            continue
        adt = facts.adt(node[0][1])
        fv = dict(zip([f['name'] for f in adt['variants'][0]['fields']], node[0][4]))
        old = [x for x in subterms(fv.get('laidx')) if isinstance(x, tuple) and len(x) > 3 and x[0] == 'field' and x[3] == 'laidx']
        la = fv.get('laidx')
        if not (la is not None and la[0] == 'bin' and la[1] == 'Add' and ('const', 1) in (la[2], la[3]) and old):
            bad.append('the new node does not stand one lexeme after the old one')
            continue
        oldpos = old[0]
        nts = [x for x in subterms(fv.get('cf')) if is_call(x, 'next_tidx')]
        if not nts:
            bad.append('the cost added is not that of next_tidx(..)')
        elif strip_ref(nts[0][2][1]) != oldpos:
            bad.append('the deletion is charged token_cost(next_tidx(%s)), not the cost of the token at the node\'s own position: a deletion costs what the deleted token costs' % fmt_term(nts[0][2][1])[:60])
    if bad:
        res.bad(R, 'delete-charge', loc_of(b), '; '.join(sorted(set(bad))), {'function': b.path})
    else:
        res.ok(R, 'delete-charge', loc_of(b), 'delete: cf + token_cost(next_tidx(n.laidx)), new position n.laidx + 1')


def run(facts, res):
    r610(facts, res)
    r611(facts, res)
    r68(facts, res)
    r69(facts, res)
    r61(facts, res)
    r62(facts, res)
    r62b(facts, res)
    r63(facts, res)
    r612(facts, res)
    # the cost buckets: a neighbour of ANY permitted cost (1..255) has a bucket to go to (= R7.5, judged here for 'all token-cost functions')
    import c07
    c07.r75(facts, res, 'R6.13')
    r64(facts, res)
    r65(facts, res)
    r66(facts, res)
    r67(facts, res)
