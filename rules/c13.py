"""C13 A compile-time generated parser and lexer behave exactly like the run-time ones (DESIGN.md §4 C13) - the plumbing
clauses only.

What is decided is what the code generators WRITE: the token sequences that `quote!` pushes are read from the generators'
MIR (A12, rules/quotelib.py) and compared with the builder values interpolated into them.

R13.1 the generated lexerdef() sets every field of LexFlags from the value of that same field of the flags the lexer was
      built with, falling back to that same field of the defaults.
R13.2 every generated way of running the parser (one per action kind) hands the builder's recovery setting to
      RTParserBuilder::recoverer.
R13.3 the generated reader selects, per SerialisationFormat variant, the integer encoding the builder wrote that variant with.
R13.4 every generated `AStackType::Lexeme(v) =>` arm hands v to the action as Err when v.faulty() and as Ok otherwise.
R13.5 an enum value written into generated code as a path names its own variant.
The behavioural equivalence itself (same lexemes, trees, errors and repairs for every input) is NOT decided.
"""
import re
from mirlib import *
from harness import loc_of
from quotelib import quote_events, by_stream, interp_origin, Flat

META = {
    'level': 'other',
    'explanation': 'Decides three plumbing clauses of C13 from the code generators\' MIR: the token sequences pushed by quote! '
                   '(identifiers, punctuation, groups, interpolated values, in program order) are reconstructed and the value '
                   'interpolated next to each generated name is traced back to the builder field it came from. R13.1: each of the '
                   'LexFlags fields is assigned in the generated lexerdef() from the same-named field of the flags in force and '
                   'of the defaults, and none is left out. R13.2: every generated RTParserBuilder::new(..) chain calls '
                   '.recoverer(#x) with x = the builder\'s recoverer. R13.3: the generated match on the serialisation format '
                   'names, per variant, the with_*_encoding() the writer used for that variant. NOT decided: that generated and '
                   'run-time parsers produce the same lexemes, values, errors and repairs (needs both pipelines to be run), '
                   '$-substitution and wrapper argument order (a slip there fails to compile or fails every cttest).',
}


def _txt(e):
    return e[3] if e[2] in ('ident', 'punct', 'lit') else None


def _param_deps(b, op_or_local):
    """parameters of `b` that the value depends on (backward slice over definitions)"""
    l = op_or_local if isinstance(op_or_local, int) else op_local(op_or_local)
    if l is None:
        return set()
    seen, todo, out = set(), [l], set()
    while todo:
        x = todo.pop()
        if x in seen:
            continue
        seen.add(x)
        if 1 <= x <= b.arg_count:
            out.add(x)
            continue
        for d in b.defs().get(x, []):
            ops = rv_operands(d[2]) if d[1] == 'stmt' else d[2]['args']
            if d[1] == 'stmt':
                for k in ('ref', 'rawptr', 'discr', 'len'):
                    if k in d[2]:
                        todo.append(d[2][k]['l'])
            for o in ops:
                pl = op_place(o)
                if pl is not None:
                    todo.append(pl['l'])
    return out


def r131(facts, res):
    R = 'R13.1'
    b = facts.one(R, 'CTLexerBuilder::build', crate='lrlex', name='build', impl_re=r'^lrlex::ctbuilder::CTLexerBuilder<')
    adt = facts.adt('lrlex::lexer::LexFlags')
    if adt is None:
        return res.lost(R, 'struct lrlex::lexer::LexFlags not found')
    fields = [f['name'] for f in adt['variants'][0]['fields']]
    S = by_stream(quote_events(b))
    # the generated variable: `let mut V = ::lrlex::DEFAULT_LEX_FLAGS;`
    found = {}
    for s, evs in S.items():
        t = [_txt(e) for e in evs]
        for i in range(len(evs) - 4):
            if not (evs[i][2] == 'ident' and t[i + 1] == 'dot' and evs[i + 2][2] == 'ident' and t[i + 3] == 'eq' and evs[i + 4][2] == 'interp'):
                continue
            var, F = t[i], t[i + 2]
            if F not in fields:
                continue
            root, names = interp_origin(b, evs[i + 4][3])
            if 'LexFlags' not in b.lty(root).replace('&', ''):
                # not a flags value at all
                src = None
            else:
                src = names[-1] if names else None
            # `.or(<defaults>.G)`
            G = None
            if t[i + 5:i + 7] == ['dot', 'or'] and i + 7 < len(evs) and evs[i + 7][2] == 'group':
                inner = S.get(evs[i + 7][3], [])
                it = [_txt(e) for e in inner]
                if len(it) >= 2 and it[-2] == 'dot' and inner[-1][2] == 'ident':
                    G = it[-1]
            found.setdefault(F, []).append((evs[i][0], var, src, G))
    # the same line produced by a local template helper: fn h(field: &str, val: Option<T>) -> quote!{ v . #field = #val . or ( d . #field ) }
    for hb in facts.bodies.values():
        if hb.crate != 'lrlex' or not (hb.path.startswith(b.path) or hb.parent == b.path or (hb.file == b.file and hb.kind in ('fn', 'closure'))):
            continue
        if hb.path == b.path:
            continue
        HS = by_stream(quote_events(hb))
        for s_, evs in HS.items():
            t = [_txt(e) for e in evs]
            for i in range(len(evs) - 4):
                if not (evs[i][2] == 'ident' and t[i + 1] == 'dot' and evs[i + 2][2] == 'interp' and t[i + 3] == 'eq' and evs[i + 4][2] == 'interp'):
                    continue
                pi, pv = _param_deps(hb, evs[i + 2][3]), _param_deps(hb, evs[i + 4][3])
                if len(pi) != 1 or len(pv) != 1 or pi == pv:
                    continue
                gi = None
                if t[i + 5:i + 7] == ['dot', 'or'] and i + 7 < len(evs) and evs[i + 7][2] == 'group':
                    inner = HS.get(evs[i + 7][3], [])
                    if inner and inner[-1][2] == 'interp':
                        gi = _param_deps(hb, inner[-1][3])
                    elif inner and inner[-1][2] == 'ident':
                        gi = inner[-1][3]
                off = 1 if hb.kind == 'closure' else 0      # a closure's first parameter is its environment
                for cbb, ct in b.calls(lambda ct: (callee_of(ct) or {}).get('path') == hb.path or (callee_of(ct) or {}).get('resolved') == hb.path):
                    args = ct['args']
                    ai, av = list(pi)[0] - 1, list(pv)[0] - 1
                    if max(ai, av) >= len(args):
                        continue
                    from c03 import const_str_of
                    F = const_str_of(b, args[ai])
                    if F not in fields:
                        continue
                    root, names = interp_origin(b, args[av])
                    src = names[-1] if names and 'LexFlags' in b.lty(root).replace('&', '') else None
                    G = F if (gi == pi) else (gi if isinstance(gi, str) else None)
                    found.setdefault(F, []).append((cbb, t[i], src, G))
    for F in fields:
        key = 'generated-flag:' + F
        if F not in found:
            res.bad(R, key, loc_of(b), 'the generated lexerdef() never assigns `%s`: the generated lexer runs with the default although the '
                    'lexer was built with another value' % F)
            continue
        bb, var, src, G = found[F][0]
        if len(found[F]) > 1:
            res.bad(R, key, loc_of(b, bb), '`%s` is assigned %d times in the generated lexerdef()' % (F, len(found[F])))
        elif src != F:
            res.bad(R, key, loc_of(b, bb), 'the generated `%s.%s` is given the value of %s' % (var, F, ('the flag `%s`' % src) if src else 'something that is not a field of the flags in force'))
        elif G is not None and G != F:
            res.bad(R, key, loc_of(b, bb), 'the generated `%s.%s` falls back to the default of `%s`' % (var, F, G))
        else:
            res.ok(R, key, loc_of(b, bb), 'generated `%s.%s` = value of `%s` in the flags the lexer was built with%s' % (var, F, F, ' (fallback: its own default)' if G else ''))
    res.floor(R, 'fields of LexFlags', len(fields), 12)


def r132(facts, res):
    R = 'R13.2'
    b = facts.one(R, 'CTParserBuilder::gen_parse_function', crate='lrpar', name='gen_parse_function', impl_re=r'^lrpar::ctbuilder::CTParserBuilder<')
    F = Flat(facts, b)
    n = 0

    def scan(items):
        nonlocal n
        t = [it[1] if it[0] in ('ident', 'punct', 'lit') else None for it in items]
        for i, x in enumerate(t):
            if x == 'RTParserBuilder' and t[i + 1:i + 3] == ['colon2', 'new']:
                key = 'run-parser#%d' % n
                n += 1
                chain = []
                j = i + 3
                if j < len(items) and items[j][0] == 'group':
                    j += 1
                while j + 1 < len(items) and t[j] == 'dot' and items[j + 1][0] in ('ident', 'lit'):
                    g = items[j + 2] if j + 2 < len(items) and items[j + 2][0] == 'group' else None
                    chain.append((t[j + 1], g))
                    j += 3 if g is not None else 2
                rec = [g for nm, g in chain if nm == 'recoverer']
                where = loc_of(b, items[i][2])
                if not rec:
                    res.bad(R, key, where, 'this generated parser run (%s) never calls .recoverer(..): the generated parser recovers with the default '
                            'recoverer whatever the builder was told' % ' . '.join(nm for nm, _ in chain))
                    continue
                inner = rec[0][1] if rec[0] is not None else []
                srcs = [interp_origin(b, it[1]) for it in inner if it[0] == 'interp']
                if len(inner) == 1 and len(srcs) == 1 and srcs[0][0] == 1 and srcs[0][1][-1:] == ['recoverer']:
                    res.ok(R, key, where, 'generated `RTParserBuilder::new(..).recoverer(#x)` with x = the builder\'s recoverer (then .%s)' % (chain[-1][0] if chain else '?'))
                else:
                    res.bad(R, key, where, 'the argument generated for .recoverer(..) is not the builder\'s `recoverer` field')
        for it in items:
            if it[0] == 'group':
                scan(it[1])
    for s_ in sorted(F.roots()):
        scan(F.flat(s_))
    res.floor(R, 'generated parser runs', n, 3)


def r133(facts, res):
    R = 'R13.3'
    b = facts.one(R, 'CTParserBuilder::gen_parse_function', crate='lrpar', name='gen_parse_function', impl_re=r'^lrpar::ctbuilder::CTParserBuilder<')
    sf = facts.adt('lrpar::ctbuilder::SerialisationFormat')
    if sf is None:
        return res.lost(R, 'enum SerialisationFormat not found')
    vn = {v['discr']: v['name'] for v in sf['variants']}
    # write side: which with_*_encoding() is called under which variant arm
    wmap = {}
    for bb, t in b.calls(lambda t: re.match(r'with_\w+_encoding$', cname(t) or '') is not None):
        if t.get('exp'):
            continue
        arm = None
        for sb in b.reachable():
            tt = b.term(sb)
            if tt['k'] != 'switch':
                continue
            l = op_local(tt['on'])
            ds = b.defs().get(l, []) if l is not None else []
            if not (len(ds) == 1 and ds[0][1] == 'stmt' and 'discr' in ds[0][2] and ds[0][2].get('adt', '').endswith('SerialisationFormat')):
                continue
            for v, tgt in tt['targets']:
                if b.dominates(tgt, bb):
                    arm = vn.get(v)
            if arm is None and b.dominates(tt['otherwise'], bb):
                rest = set(vn) - {v for v, _ in tt['targets']}
                if len(rest) == 1:
                    arm = vn[rest.pop()]
        wmap.setdefault(arm, set()).add(cname(t))
    # read side: the generated match (splices and template helpers expanded)
    F = Flat(facts, b)

    def idents_under(items):
        out = []
        for it in items:
            if it[0] == 'ident':
                out.append(it[1])
            elif it[0] == 'group':
                out += idents_under(it[1])
        return out
    rmap = {}
    where = {}

    def scan(items):
        t = [it[1] if it[0] in ('ident', 'punct', 'lit') else None for it in items]
        for i, x in enumerate(t):
            if x == 'SerialisationFormat' and t[i + 1:i + 2] == ['colon2'] and i + 4 < len(items) and items[i + 2][0] == 'ident' and t[i + 3] == 'fat_arrow':
                body = items[i + 4][1] if items[i + 4][0] == 'group' else []
                if items[i + 4][0] != 'group':
                    # an arm without braces: the tokens up to the next comma
                    for it in items[i + 4:]:
                        if it[0] == 'punct' and it[1] == 'comma':
                            break
                        body.append(it)
                ids = idents_under(body)
                if '_reconstitute' not in ids:
                    continue
                rmap.setdefault(t[i + 2], set()).update(y for y in ids if re.match(r'with_\w+_encoding$', y))
                where[t[i + 2]] = items[i][2]
        for it in items:
            if it[0] == 'group':
                scan(it[1])
    for s_ in sorted(F.roots()):
        scan(F.flat(s_))
    if None in wmap:
        res.bad(R, 'write:unattributed', loc_of(b), 'an integer encoding is chosen outside the arms of the match on the serialisation format')
    for v in vn.values():
        key = 'format:' + v
        w, r = wmap.get(v), rmap.get(v)
        if not w or not r:
            res.bad(R, key, loc_of(b, where.get(v)), 'the %s has no arm for format variant %s' % ('builder' if not w else 'generated reader', v))
        elif w != r or len(w) != 1:
            res.bad(R, key, loc_of(b, where.get(v)), 'the builder writes %s data with %s, the generated reader reads it with %s' % (v, sorted(w), sorted(r)))
        else:
            res.ok(R, key, loc_of(b, where.get(v)), 'written and (in the generated module) read with %s()' % sorted(w)[0])
    res.floor(R, 'serialisation format variants', len(vn), 2)


def r134(facts, res):
    """A lexeme reaches a user action as Ok(..) exactly when it is a real one and as Err(..) when error recovery inserted
    it: every generated match arm `AStackType::Lexeme(v) => ..` asks `v.faulty()` and answers Err on the faulty side, Ok on
    the other."""
    R = 'R13.4'
    b = facts.one(R, 'CTParserBuilder::gen_wrappers', crate='lrpar', name='gen_wrappers', impl_re=r'^lrpar::ctbuilder::CTParserBuilder<')
    n = 0
    for body in [b] + facts.closures_of(b):
        S = by_stream(quote_events(body))

        def idents(s_, depth=0):
            out = []
            for e in S.get(s_, []):
                if e[2] in ('ident', 'punct'):
                    out.append(e[3])
                elif e[2] == 'group' and depth < 6:
                    out += idents(e[3], depth + 1)
            return out
        for s_ in sorted(S):
            evs = S[s_]
            t = [_txt(e) for e in evs]
            for i, x in enumerate(t):
                if x != 'Lexeme' or t[i - 2:i] != ['AStackType', 'colon2'] or i + 3 >= len(evs) or evs[i + 1][2] != 'group' or t[i + 2] != 'fat_arrow':
                    continue
                key = 'lexeme-arm#%d' % n
                n += 1
                where = loc_of(body, evs[i][0])
                # the arm's value: a braced group, or the tokens up to the next comma
                if evs[i + 3][2] == 'group':
                    arm = S.get(evs[i + 3][3], [])
                else:
                    arm = []
                    for e in evs[i + 3:]:
                        if e[2] == 'punct' and e[3] == 'comma':
                            break
                        arm.append(e)
                at = [_txt(e) for e in arm]
                if 'faulty' not in at:
                    flat = []
                    for e in arm:
                        flat += [e[3]] if e[2] in ('ident', 'punct') else (idents(e[3]) if e[2] == 'group' else [])
                    if 'faulty' not in flat:
                        res.bad(R, key, where, 'this generated arm hands the lexeme to the action as %s without asking `faulty()`: an inserted lexeme '
                                'and a real one look the same to the action' % ('/'.join(x for x in flat if x in ('Ok', 'Err')) or 'is'))
                    else:
                        res.ok(R, key, where, 'asks faulty() (form not analysed further)')
                        res.note('R13.4: the Lexeme arm at %s tests faulty() in a form that is not if/else; which side is Err is not decided' % where)
                    continue
                j = at.index('faulty')
                neg = j >= 3 and at[j - 3] == 'bang'
                if not (at[0] == 'if' and 'else' in at):
                    res.ok(R, key, where, 'asks faulty() (form not analysed further)')
                    res.note('R13.4: the Lexeme arm at %s tests faulty() in a form that is not if/else; which side is Err is not decided' % where)
                    continue
                k = at.index('else')
                then_g = [e for e in arm[j + 1:k] if e[2] == 'group']
                else_g = [e for e in arm[k + 1:] if e[2] == 'group']
                th = idents(then_g[-1][3]) if then_g else []
                el = idents(else_g[0][3]) if else_g else []
                want_then, want_else = ('Ok', 'Err') if neg else ('Err', 'Ok')
                if want_then in th and want_else in el and want_else not in th and want_then not in el:
                    res.ok(R, key, where, 'generated: faulty() -> Err, otherwise Ok')
                else:
                    res.bad(R, key, where, 'the generated arm answers %s when the lexeme is faulty and %s when it is real' % (
                        '/'.join(x for x in (el if neg else th) if x in ('Ok', 'Err')) or '?', '/'.join(x for x in (th if neg else el) if x in ('Ok', 'Err')) or '?'))
    res.floor(R, 'generated Lexeme arms', n, 1)


def r135(facts, res):
    """A value of a workspace enum that is written into generated code as a path `..::Enum::Variant` names its OWN variant: in
    every quoting function of an enum (ToTokens::to_tokens, to_variant_tokens) each arm that emits the enum's name emits, right
    after it, the name of the variant that arm matched.  `ReplaceStack => quote!(::lrlex::StartStateOperation::Push)` compiles,
    and only lexers with that operation behave differently once generated."""
    R = 'R13.5'
    n = 0
    for b in sorted(facts.lib_bodies(['cfgrammar', 'lrtable', 'lrpar', 'lrlex']), key=lambda x: x.path):
        if b.name not in ('to_tokens', 'to_variant_tokens') or b.kind == 'closure':
            continue
        ename = (b.impl_of or '').split('<')[0]
        ad = facts.adt(ename)
        if ad is None or ad['kind'] != 'enum':
            continue
        short = ename.rsplit('::', 1)[-1]
        vn = {v['discr']: v['name'] for v in ad['variants']}
        w = Walker(b, facts, max_paths=256)
        ps = [p for p in w.run() if p.end[0] == 'return']
        if w.overflow:
            continue
        seen = {}
        for p in ps:
            d = None
            for c, v in p.conds:
                if c[0] == 'discr' and isinstance(v, int) and term_has(c[1], lambda x: x == ('param', 1)) and not term_has(c[1], lambda x: isinstance(x, tuple) and x and x[0] == 'downcast'):
                    d = v
            if d is None or d not in vn:
                continue
            idents = []
            for e in p.calls(name='push_ident'):
                a = strip_ref(e[3][1]) if len(e[3]) > 1 else None
                if a is not None and is_const(a) and isinstance(a[1], str):
                    idents.append(a[1])
            if short not in idents:
                continue        # this arm does not write a path to the enum (e.g. Visibility -> `pub`)
            i = idents.index(short)
            emitted = idents[i + 1] if i + 1 < len(idents) else None
            seen.setdefault(vn[d], set()).add(emitted)
        for vname, ems in sorted(seen.items()):
            n += 1
            key = 'variant-path:%s::%s' % (short, vname)
            if ems == {vname}:
                res.ok(R, key, loc_of(b), 'generated as `%s::%s`' % (short, vname))
            else:
                res.bad(R, key, loc_of(b), 'the arm for `%s::%s` writes `%s::%s` into the generated code: the generated module is built with another value than the builder had'
                        % (short, vname, short, '/'.join(sorted(str(x) for x in ems))))
    res.floor(R, 'enum variants written as paths into generated code', n, 16)


def r136(facts, res):
    """The generated `lexerdef()` rebuilds the lexer through `LRNonStreamingLexerDef::from_rules(start_states, rules)` from the
    rule list the builder serialised; the run-time path stores the parser's list as it is.  Both lexers run the same rules only
    if from_rules stores what it is given: the `rules` and `start_states` fields of the value it builds are the parameters, moved,
    and nothing in the function takes the parameters by `&mut` (retain / sort / truncate / dedup ...) before that."""
    R = 'R13.6'
    bs = [b for b in facts.lib_bodies(['lrlex']) if b.name == 'from_rules' and b.kind != 'closure' and 'LRNonStreamingLexerDef' in b.path]
    if len(bs) != 1:
        return res.lost(R, 'LRNonStreamingLexerDef::from_rules not found (%d)' % len(bs))
    b = bs[0]
    adt = facts.adt('lrlex::lexer::LRNonStreamingLexerDef')
    names = [f['name'] for f in adt['variants'][0]['fields']] if adt else []
    params = {}
    for i in range(1, b.arg_count + 1):
        ty = b.lty(i)
        if 'Vec<' in ty and 'Rule<' in ty:
            params['rules'] = i
        elif 'Vec<' in ty and 'StartState' in ty:
            params['start_states'] = i
    aggs = [(bb, st) for bb, i, st in b.stmts() if st['k'] == 'assign' and isinstance(st['rv'].get('agg'), dict) and st['rv']['agg'].get('adt', '').endswith('lexer::LRNonStreamingLexerDef')]
    if len(params) != 2 or not aggs or not names:
        return res.lost(R, 'from_rules: parameters (%s) or the built value (%d) not recognised' % (sorted(params), len(aggs)))
    for fld, pi in sorted(params.items()):
        key = 'from_rules/%s' % fld
        bad = []
        for bb, st in aggs:
            ops = st['rv'].get('ops') or []
            if fld not in names or names.index(fld) >= len(ops):
                bad.append('field not found in the built value')
                continue
            l = op_local(ops[names.index(fld)])
            root = b.root(l, through=(), stop_named=False)[0] if l is not None else None
            if root != pi:
                bad.append('line %s: the `%s` stored are not the parameter as given (they are computed from something else)' % (st.get('line'), fld))
        for bb, t in b.calls():
            for a in t['args']:
                l = op_local(a)
                if l is None:
                    continue
                if b.root(l, stop_named=False)[0] == pi and (b.lty(l).startswith('&mut') or 'move' in a and b.lty(l).startswith('alloc::vec::Vec')):
                    bad.append('line %s: `%s` is handed to `%s` before it is stored' % (t.get('line'), fld, cname(t)))
        if bad:
            res.bad(R, key, loc_of(b), '; '.join(sorted(set(bad))[:2]) + ': the lexer that generated code rebuilds no longer has the %s the builder serialised, '
                    'while the run-time lexer keeps them all' % fld, {'function': b.path})
        else:
            res.ok(R, key, loc_of(b), 'stored exactly as given: a move of the parameter, no call takes it by &mut or by value')


def r137(facts, res):
    """What the generator writes for a rule is the rule's own data.  In the per-rule closure of CTLexerBuilder::build every value
    obtained from a getter of `Rule` (start_states, name_span, target_state, name) and handed on to the quotation has ONE
    definition chain: a local that receives the getter's result on one path and something else on another (`match
    r.start_states() { [0] => &[], ss => ss }`: "INITIAL is implicit") makes the generated lexer differ from the run-time one
    exactly for the rules the special case was written for."""
    R = 'R13.7'
    GETTERS = ('start_states', 'name_span', 'target_state', 'name')
    n = 0
    for x in facts.lib_bodies(['lrlex']):
        if 'ctbuilder::CTLexerBuilder' not in x.path or x.from_expansion and False:
            continue
        for bb, t in x.calls():
            c = callee_of(t)
            if c['name'] not in GETTERS or 'lexer::Rule' not in (c.get('path') or '') + (c.get('self_ty') or ''):
                continue
            n += 1
            key = 'rule-data:%s' % c['name']
            tainted = {t['dest']['l']}
            changed = True
            while changed:
                changed = False
                for b2, i, st in x.stmts():
                    if st['k'] != 'assign' or st['lhs']['p']:
                        continue
                    rv = st['rv']
                    srcs = [op_local(o) for o in rv_operands(rv)]
                    for k in ('ref', 'discr', 'len'):
                        if isinstance(rv.get(k), dict) and 'l' in rv[k]:
                            srcs.append(rv[k]['l'])
                    plain = ('use' in rv or 'ref' in rv or 'cast' in rv) and 'bin' not in rv
                    if plain and any(s_ in tainted for s_ in srcs) and st['lhs']['l'] not in tainted:
                        tainted.add(st['lhs']['l'])
                        changed = True
            bad = []
            for l in sorted(tainted):
                ds = x.defs().get(l, ())
                if len(ds) < 2:
                    continue
                foreign = 0
                for _b, kind, d in ds:
                    if kind == 'call':
                        foreign += (_b, d) != (bb, t)
                        continue
                    srcs = [op_local(o) for o in rv_operands(d)]
                    if isinstance(d.get('ref'), dict):
                        srcs.append(d['ref'].get('l'))
                    if not any(s_ in tainted for s_ in srcs):
                        foreign += 1
                if foreign:
                    bad.append('`%s` receives the result of Rule::%s on one path and something else on another' % (x.name_of(l) or '_%d' % l, c['name']))
            if bad:
                res.bad(R, key, loc_of(x, bb), '; '.join(bad[:2]) + ': the generated rule is not always built from the rule\'s own data', {'function': x.path})
            else:
                res.ok(R, key, loc_of(x, bb), 'the value of Rule::%s has one definition chain on its way to the quotation (%d locals)' % (c['name'], len(tainted)))
    res.floor(R, 'Rule getters read by the lexer generator', n, 3)


def run(facts, res):
    r131(facts, res)
    r132(facts, res)
    r133(facts, res)
    r134(facts, res)
    r135(facts, res)
    r136(facts, res)
    r137(facts, res)
