"""C20 Results are independent of index storage width; too-small widths refused cleanly (DESIGN.md §4 C20).

R20.1 guard-before-narrowing (A7): every unchecked usize -> StorageT narrowing (`AsPrimitive::as_`) of the length of, or an
      index into, a vector UNDER CONSTRUCTION is bounded by a 'not big enough' guard on that same vector which lies after
      the vector's last growth and dominates every normal exit.
R20.2 state-count guards in pager_stategraph / StateGraph::new / StateTable::new
R20.3 lexer rule ids come from a checked conversion whose failure panics
R20.5 every width refusal (diverging exit decided by a comparison with StorageT::max_value()) carries the documented "not big
      enough" message
R20.4 the iteration order of hash containers whose keys contain StorageT values (fixed hasher, but the keys hash differently
      per width) reaches no ordered result: otherwise numbering / table contents differ between widths that accept the grammar
"""
from mirlib import *
import re

META = {
    'level': 'other',
    'explanation': 'R20.1 classifies all unchecked narrowing casts (calls of <usize as AsPrimitive<StorageT>>::as_) in the four '
                   'library crates. Casts in functions that read an already constructed grammar/graph/table are bounded '
                   'by construction (class P1, counted). Casts whose operand is the length of - or an enumerate index '
                   'over - a local vector that is still being built (class P2) must be covered by a guard comparing the '
                   'length of that same vector with StorageT::max_value() whose failing side panics, with no growth of '
                   'the vector reachable after the guard, and the guard dominating every return reachable from the cast. '
                   'A short table lists operands trusted for a stated reason (class P3). Anything else is reported. '
                   'R20.2/R20.3 check the existence and placement of the state-count guards and the checked lexer id '
                   'conversion. Together these are the necessary condition for "no width ever yields wrapped-around sizes '
                   'or indices". R20.4 decides one further necessary condition of "the same numbering and table contents in all '
                   'widths": no width-dependent hash order (FNV maps keyed by StorageT values) reaches an ordered result. NOT '
                   'decided: equality of results across widths beyond these two conditions.',
}

CRATES = ['cfgrammar', 'lrtable', 'lrpar', 'lrlex']

CONSTRUCTED = ('cfgrammar::yacc::grammar::YaccGrammar<', 'lrtable::stategraph::StateGraph<', 'lrtable::statetable::StateTable<',
               'lrtable::itemset::Itemset<', 'lrtable::statetable::StateActionsIterator<', 'lrtable::statetable::CoreReducesIterator<',
               'cfgrammar::yacc::firsts::YaccFirsts<', 'cfgrammar::yacc::follows::YaccFollows<')

GROW = {'push', 'extend', 'insert', 'resize', 'append', 'extend_from_slice', 'resize_with', 'push_back', 'push_front', 'insert_full', 'entry'}
SHRINK = {'pop', 'truncate', 'clear', 'remove', 'swap_remove', 'drain', 'retain', 'split_off', 'dedup'}

# P3: operands trusted for a stated reason.  key: (function, description substring of the operand's origin)
TRUSTED = [
    ('cfgrammar::yacc::grammar::YaccGrammar::new_from_ast_with_validity_info', 'pidxs',
     'AST production index: < ast.prods.len(), and the production vector starts with ast.prods.len() entries and only grows, '
     'so it is bounded by the guarded final production count'),
    ('lrtable::statetable::StateTable::decode', 'arithmetic Shr',
     'payload of an action cell, which encode() produced from a StIdx/PIdx value of the same width'),
    ('lrtable::statetable::StateTable::decode', 'arithmetic Div',
     'the same payload extracted by a division instead of a shift (R16.4 decides that it undoes encode)'),
]


def sinks(facts):
    out = []
    for b in facts.lib_bodies(CRATES):
        if b.from_expansion:
            continue
        for bb, t in b.calls_named('as_'):
            c = callee_of(t)
            if c.get('trait') != 'num_traits::cast::AsPrimitive':
                continue
            if not c['args'] or c['args'][0] != 'usize':
                continue
            out.append((b, bb, t))
    return out


def reads_constructed(facts, b):
    """function (or the function a closure lives in) has a by-reference parameter of an already constructed type and
    builds no such object itself"""
    root = b
    if b.kind == 'closure':
        root = facts.body(b.root_parent) or b
    for i in range(1, root.arg_count + 1):
        ty = root.lty(i)
        t = ty
        while t.startswith('&'):
            t = t[1:].lstrip()
            if t.startswith('mut '):
                t = t[4:]
        if ty.startswith('&') and t.startswith(CONSTRUCTED):
            return True
    return False


def origin(b, op):
    """describe where the narrowed operand comes from.
    returns (kind, vec_key, text): kind in 'len' | 'enum-index' | 'other'"""
    r, projs, via = b.op_root(op, through=())
    ds = b.defs().get(r, [])
    if len(ds) == 1 and ds[0][1] == 'call':
        t = ds[0][2]
        nm = cname(t)
        if nm == 'len':
            v, vprojs, vvia = b.op_root(t['args'][0])
            return 'len', vec_key(b, v, vprojs), 'len() of ' + describe(b, v, vprojs)
        return 'other', None, 'result of %s' % (cpath(t) or 'indirect call')
    if len(ds) == 1 and ds[0][1] == 'stmt':
        rv = ds[0][2]
        pl = op_place(rv['use']) if 'use' in rv else None
        if pl is not None and pl['p']:
            # element of an Option<(usize, T)> produced by Enumerate::next
            src = pl['l']
            dd = b.defs().get(src, [])
            if len(dd) == 1 and dd[0][1] == 'call' and cname(dd[0][2]) == 'next':
                st = callee_of(dd[0][2]).get('self_ty') or ''
                # (index, element) pairs: only field 0 of the pair is the position; field 1 is an element of what is enumerated
                fsel = [q['f'] for q in pl['p'] if isinstance(q, dict) and 'f' in q]
                if st.startswith('core::iter::adapters::enumerate::Enumerate<') and len(fsel) >= 2 and fsel[1] == 1:
                    it, itp, itvia = b.op_root(dd[0][2]['args'][0], through=Body.THROUGH + ('enumerate', 'into_iter', 'iter'), stop_named=False)
                    src_defs = b.defs().get(it, [])
                    inner = cname(src_defs[0][2]) if len(src_defs) == 1 and src_defs[0][1] == 'call' else None
                    if inner == 'iter_set_bits' or 'IterSetBits' in st:
                        return 'other', None, 'iter_set_bits element'
                    return 'other', None, 'element of what %s enumerates' % st[:60]
                if st.startswith('core::iter::adapters::enumerate::Enumerate<'):
                    # find what is enumerated: the iterator local's root
                    it, itp, itvia = b.op_root(dd[0][2]['args'][0], through=Body.THROUGH + ('enumerate', 'into_iter', 'iter'),
                                               stop_named=False)
                    return 'enum-index', vec_key(b, it, itp), 'enumerate() index over ' + describe(b, it, itp)
                if 'IterSetBits' in st or 'iter_set_bits' in st:
                    return 'other', None, 'iter_set_bits element'
                return 'other', None, 'element of %s' % st[:80]
            if len(dd) == 1 and dd[0][1] == 'stmt' and 'use' in dd[0][2]:
                # `*x` where x is the Some payload of a slice iterator's next()
                pl2 = op_place(dd[0][2]['use'])
                if pl2 is not None:
                    d3 = b.defs().get(pl2['l'], [])
                    if len(d3) == 1 and d3[0][1] == 'call' and cname(d3[0][2]) == 'next':
                        it, itp, itvia = b.op_root(d3[0][2]['args'][0], through=Body.THROUGH + ('into_iter', 'iter', 'index'), stop_named=False)
                        return 'other', None, 'element of %s over %s' % ((callee_of(d3[0][2]).get('self_ty') or '')[:40], describe(b, it, itp))
            return 'other', None, 'projection of _%d' % src
        if pl is not None:
            return 'other', None, 'copy of _%d%s' % (pl['l'], '{%s}' % b.name_of(pl['l']) if b.name_of(pl['l']) else '')
        if 'bin' in rv:
            return 'other', None, 'arithmetic %s' % rv['bin']
    if r <= b.arg_count:
        return 'other', None, 'parameter _%d' % r
    return 'other', None, 'local _%d' % r


def vec_key(b, v, projs):
    names = []
    for pl in reversed(projs):
        for p in pl:
            if isinstance(p, dict) and 'name' in p and 'f' in p:
                names.append(p['name'])
    return (v, tuple(names))


def describe(b, v, projs):
    k = vec_key(b, v, projs)
    n = b.name_of(v) or ('_%d' % v)
    return n + ''.join('.' + x for x in k[1])


def guards(b):
    """[(switch block, vec_key, passing successor, strict)] for tests `V.len() > / >= cast(max_value())` whose true side panics"""
    out = []
    for bb in sorted(b.reachable()):
        t = b.term(bb)
        if t['k'] != 'switch':
            continue
        l = op_local(t['on'])
        if l is None:
            continue
        ds = b.defs().get(l, [])
        if len(ds) != 1 or ds[0][1] != 'stmt' or 'bin' not in ds[0][2]:
            continue
        rv = ds[0][2]
        if rv['bin'] not in ('Gt', 'Ge', 'Lt', 'Le'):
            continue
        sides = []
        for o in (rv['a'], rv['b']):
            r, projs, via = b.op_root(o, through=())
            dd = b.defs().get(r, [])
            if len(dd) == 1 and dd[0][1] == 'call':
                ct = dd[0][2]
                nm = cname(ct)
                if nm == 'len':
                    v, vp, _ = b.op_root(ct['args'][0])
                    sides.append(('len', vec_key(b, v, vp)))
                    continue
                if nm in ('unwrap', 'expect'):
                    r2, _, _ = b.op_root(ct['args'][0], through=())
                    d2 = b.defs().get(r2, [])
                    if len(d2) == 1 and d2[0][1] == 'call' and cname(d2[0][2]) == 'cast':
                        r3, _, _ = b.op_root(d2[0][2]['args'][0], through=())
                        d3 = b.defs().get(r3, [])
                        if len(d3) == 1 and d3[0][1] == 'call' and cname(d3[0][2]) == 'max_value':
                            sides.append(('max', None))
                            continue
            sides.append(('other', None))
        if len(sides) != 2:
            continue
        kinds = [s[0] for s in sides]
        if sorted(kinds) != ['len', 'max']:
            continue
        lenfirst = kinds[0] == 'len'
        op = rv['bin']
        # "len > max" or "max < len" (also >= / <=): the TRUE side must fail
        fails_when_true = (lenfirst and op in ('Gt', 'Ge')) or ((not lenfirst) and op in ('Lt', 'Le'))
        passes_when_true = (lenfirst and op in ('Lt', 'Le')) or ((not lenfirst) and op in ('Gt', 'Ge'))
        tgt0 = [x for v, x in t['targets'] if v == 0]
        false_succ = tgt0[0] if tgt0 else None
        true_succ = t['otherwise']
        if false_succ is None:
            continue
        def diverges(s):
            # every path from s ends in a diverging call without returning
            seen = b.reachable([s])
            return not any(b.term(x)['k'] == 'return' for x in seen)
        vk = sides[0][1] if lenfirst else sides[1][1]
        if fails_when_true and diverges(true_succ):
            out.append((bb, vk, false_succ, op in ('Gt', 'Lt')))
        elif passes_when_true and diverges(false_succ):
            out.append((bb, vk, true_succ, op in ('Le', 'Ge')))
    return out


def growth_sites(b, vk, blocks):
    out = []
    for bb, t in b.calls(blocks=blocks):
        nm = cname(t)
        if nm not in GROW or not t['args']:
            continue
        l = op_local(t['args'][0])
        if l is None or not b.lty(l).startswith('&mut '):
            continue
        v, vp, _ = b.op_root(t['args'][0])
        if vec_key(b, v, vp) == vk:
            out.append(bb)
    return out


def r201(facts, res):
    R = 'R20.1'
    allsinks = sinks(facts)
    res.floor(R, 'unchecked usize->StorageT narrowing sites', len(allsinks), 24)
    np1 = 0
    per = {}
    for b, bb, t in allsinks:
        kind, vk, text = origin(b, t['args'][0])
        fn = strip_generics(b.root_parent or b.path)
        local_vec = vk is not None and vk[0] > b.arg_count and not vk[1]
        if kind in ('len', 'enum-index') and local_vec and b.kind != 'closure':
            # P2: vector under construction
            idx = per.get((fn, text), 0)
            per[(fn, text)] = idx + 1
            key = '%s/%s#%d' % (fn, text, idx)
            gs = [g for g in guards(b) if g[1] == vk]
            if not gs:
                res.bad(R, key, loc_of(b, bb),
                        'narrowing of %s, a vector still under construction, but no "not big enough" guard tests THIS vector '
                        '(guards present test: %s)' % (text, sorted({describe_key(b, g[1]) for g in guards(b)}) or 'none'),
                        {'function': b.path, 'block': bb})
                continue
            ok = None
            why = []
            for gbb, gvk, pass_succ, strict in gs:
                after = b.reachable([pass_succ])
                grow = growth_sites(b, vk, after)
                if grow:
                    why.append('guard at line %s is followed by growth of the vector (line %s)' % (b.term(gbb).get('line'), b.term(grow[0]).get('line')))
                    continue
                if not b.dominates(gbb, bb):
                    # the cast happens before the guard: every way from the cast to a normal return must pass the guard
                    esc = [x for x in b.reachable([bb], avoid={gbb}) if b.term(x)['k'] == 'return']
                    if esc:
                        why.append('a return is reachable from the cast without passing the guard at line %s' % b.term(gbb).get('line'))
                        continue
                ok = gbb
                break
            shr = [bb2 for bb2, t2 in b.calls() if cname(t2) in SHRINK and t2['args'] and op_local(t2['args'][0]) is not None
                   and b.lty(op_local(t2['args'][0])).startswith('&mut ') and vec_key(b, *b.op_root(t2['args'][0])[:2]) == vk
                   and bb2 in b.reachable([0]) and ok is not None and not b.dominates(ok, bb2)]
            if ok is not None and not shr:
                res.ok(R, key, loc_of(b, bb), 'bounded by the guard on the same vector at line %s (after its last growth, dominating every exit)' % b.term(ok).get('line'))
            else:
                res.bad(R, key, loc_of(b, bb), 'narrowing of %s is not bounded: %s' % (text, '; '.join(why) or 'vector shrinks before the guard'),
                        {'function': b.path, 'block': bb})
            continue
        if kind in ('len', 'enum-index') and vk is not None and b.lty(vk[0]).startswith('&') and not b.lty(vk[0]).startswith('&mut ') and b.kind != 'closure' \
                and (1 <= vk[0] <= b.arg_count or len(b.defs().get(vk[0], [])) == 1):
            # P2': an index into / the length of an INPUT container borrowed immutably for the whole call: bounded when a "not big enough"
            # guard on that same container dominates the cast (nothing can grow it in between)
            gs = [g for g in guards(b) if g[1] == vk and b.dominates(g[0], bb)]
            if gs:
                idx = per.get((fn, text), 0)
                per[(fn, text)] = idx + 1
                res.ok(R, '%s/%s#%d' % (fn, text, idx), loc_of(b, bb), 'bounded by the guard on the same immutably borrowed input container at line %s' % b.term(gs[0][0]).get('line'))
                continue
        if reads_constructed(facts, b) and not (kind in ('len', 'enum-index') and local_vec):
            np1 += 1
            continue
        # P3 / unclassified
        tr = None
        for f, sub, reason in TRUSTED:
            if f == fn and (sub in text or (sub == 'enumerate-closed-states' and b.kind == 'closure')):
                tr = reason
        idx = per.get((fn, text), 0)
        per[(fn, text)] = idx + 1
        key = '%s/%s#%d' % (fn, text, idx)
        if tr:
            res.ok(R, key, loc_of(b, bb), 'trusted provenance: ' + tr)
        else:
            res.bad(R, key, loc_of(b, bb), 'unclassified unchecked narrowing of %s' % text, {'function': b.path, 'block': bb})
    res.count('R20.1 P1 sites (reads of constructed objects)', np1)


def describe_key(b, vk):
    if vk is None:
        return '?'
    return (b.name_of(vk[0]) or '_%d' % vk[0]) + ''.join('.' + x for x in vk[1])


def r201b(facts, res):
    """symbols of one production: every Vec<Symbol> that becomes a production has a guard on its own length"""
    R = 'R20.1'
    b = facts.one(R, 'YaccGrammar::new_from_ast_with_validity_info', crate='cfgrammar', name='new_from_ast_with_validity_info')
    symvecs = [i for i, l in enumerate(b.locals) if l['ty'].startswith('alloc::vec::Vec<cfgrammar::Symbol<StorageT>')
               and b.name_of(i) and i > b.arg_count]
    gs = guards(b)
    n = 0
    for v in symvecs:
        vk = (v, ())
        grows = growth_sites(b, vk, b.reachable())
        if not grows:
            continue  # literal vec![..] of fixed size
        n += 1
        key = 'prod-symbols/%s' % b.name_of(v)
        mine = [g for g in gs if g[1] == vk]
        ok = False
        for gbb, gvk, pass_succ, strict in mine:
            # no growth between the guard and the next iteration's re-creation of the vector: growth blocks reachable from
            # the guard must first pass the (re)definition of the vector
            defs_blocks = {d[0] for d in b.defs().get(v, [])}
            after = b.reachable([pass_succ], avoid=defs_blocks)
            if not growth_sites(b, vk, after):
                ok = True
        if ok:
            res.ok(R, key, loc_of(b, grows[0]), 'the symbol vector of a production is guarded after its last growth')
        else:
            res.bad(R, key, loc_of(b, grows[0]),
                    'the symbol vector `%s` of a production grows (line %s) but its own length is never compared with StorageT::max_value() '
                    'afterwards; prod_len() narrows it unchecked (the existing guard tests the AST production, which Eco\'s implicit '
                    'rule can double)' % (b.name_of(v), b.term(grows[0]).get('line')))
    res.floor(R, 'production symbol vectors built by pushing', n, 1)


def r202(facts, res):
    R = 'R20.2'
    b = facts.one(R, 'pager_stategraph', crate='lrtable', name='pager_stategraph')
    gs = guards(b)
    # (1) a guard on the vector of core states that dominates the push of a new state and is non-strict (>=)
    core = [i for i, l in enumerate(b.locals) if b.name_of(i) and l['ty'].startswith('alloc::vec::Vec<lrtable::itemset::Itemset<')]
    ok1 = False
    for v in core:
        for gbb, gvk, pass_succ, strict in gs:
            if gvk == (v, ()) and not strict:
                pushes = growth_sites(b, (v, ()), b.reachable())
                inloop = [p for p in pushes if any(p in body and gbb in body for body in b.loops().values())]
                if inloop and all(b.dominates(gbb, p) for p in inloop):
                    ok1 = True
                    loc1 = gbb
    if ok1:
        res.ok(R, 'pager/new-state-guard', loc_of(b, loc1), 'creating a state is preceded by `len >= max => panic`')
    else:
        res.bad(R, 'pager/new-state-guard', loc_of(b), 'no non-strict guard on the core-state vector dominating the creation of a new state')
    # (2) a guard on gc's result dominating StateGraph::new
    news = [(bb, t) for bb, t in b.calls_named('new') if 'StateGraph' in (cpath(t) or '')]
    ok2 = False
    for gbb, gvk, pass_succ, strict in gs:
        if news and b.dominates(gbb, news[0][0]) and gvk is not None:
            nm = b.name_of(gvk[0])
            # the guarded vector must be the one handed to StateGraph::new
            r, _, _ = b.op_root(news[0][1]['args'][0])
            if r == gvk[0]:
                ok2 = True
                loc2 = gbb
    if ok2:
        res.ok(R, 'pager/after-gc-guard', loc_of(b, loc2), 'the surviving-state vector handed to StateGraph::new is guarded (`len > max => panic`)')
    else:
        res.bad(R, 'pager/after-gc-guard', loc_of(b), 'the state vector handed to StateGraph::new is not guarded against StorageT::max_value()')
    # (3) StateGraph::new asserts states.len() < max
    sg = facts.one(R, 'StateGraph::new', crate='lrtable', name='new', impl_re=r'stategraph::StateGraph<')
    g3 = guards(sg)
    if any(g[1] is not None and g[1][0] <= sg.arg_count for g in g3):
        res.ok(R, 'stategraph/assert', loc_of(sg), 'StateGraph::new asserts its state count against StorageT::max_value()')
    else:
        res.bad(R, 'stategraph/assert', loc_of(sg), 'StateGraph::new no longer asserts its state count against StorageT::max_value()')
    # (4) StateTable::new asserts all_states_len < max-1 before the goto table is filled
    st = facts.one(R, 'StateTable::new', crate='lrtable', name='new', impl_re=r'statetable::StateTable<')
    mv = st.calls_named('max_value')
    asl = st.calls_named('as_storaget')
    ok4 = False
    for bb, t in mv:
        # followed by a comparison and a panic
        region = st.reachable([bb], stop=lambda x: st.term(x)['k'] == 'switch')
        sw = [x for x in region if st.term(x)['k'] == 'switch']
        for s in sw:
            if any(st.term(y)['k'] == 'call' and st.term(y)['ret'] is None for s2 in st.succs(s) for y in st.reachable([s2], stop=lambda z: st.term(z)['k'] in ('switch',)) ):
                loops = st.loops()
                if not any(s in body for body in loops.values()):
                    ok4 = True
    if ok4 and asl:
        res.ok(R, 'statetable/assert', loc_of(st, mv[0][0]), 'StateTable::new asserts the state count against StorageT::max_value() before any loop')
    else:
        res.bad(R, 'statetable/assert', loc_of(st), 'StateTable::new does not assert the state count against StorageT::max_value() before filling the tables')


def r203(facts, res):
    R = 'R20.3'
    n = 0
    for b in facts.lib_bodies(['lrlex']):
        if b.from_expansion or 'parser' not in b.path:
            continue
        for bb, t in b.calls_named('try_from'):
            c = callee_of(t)
            if 'StorageT' not in ' '.join(c['args']) and 'StorageT' not in (c.get('self_ty') or ''):
                continue
            n += 1
            # the Result must be consumed by unwrap_or_else/expect/match that panics; not by `as`-style fallbacks
            dest = t['dest']['l']
            users = [(b2, t2) for b2, t2 in b.calls() if any(b.op_root(a, through=())[0] == dest for a in t2['args'])]
            names = {cname(t2) for _, t2 in users}
            if names & {'unwrap_or_else', 'expect', 'unwrap'}:
                res.ok(R, 'lex-rule-id/%s' % strip_generics(b.path), loc_of(b, bb), 'rule id is produced by TryFrom and a failure panics (%s)' % sorted(names))
            else:
                res.bad(R, 'lex-rule-id/%s' % strip_generics(b.path), loc_of(b, bb), 'TryFrom result for a rule id is consumed by %s, not by a panicking unwrap' % sorted(names))
    res.floor(R, 'checked StorageT conversions in lrlex::parser', n, 1)
    # and no unchecked narrowing in lrlex at all
    for b, bb, t in sinks(facts):
        if b.crate == 'lrlex':
            res.bad(R, 'lrlex-unchecked/%s' % strip_generics(b.path), loc_of(b, bb), 'unchecked narrowing in lrlex')


# R20.4 ---------------------------------------------------------------------------------------------------------------
# Hash containers with a FIXED hasher (FNV) are deterministic from run to run - C15 does not count them as order sources - but
# when their KEY type contains StorageT the hash of a key, and with it the iteration order, depends on the storage width
# (u8 hashes one byte, u16 two).  Whatever such an iteration order reaches therefore differs between widths.
WIDTH_EXC = [
    # (function, needles every excused problem must contain one of, reason) - an exception names EFFECTS, never the whole loop
    ('lrtable::itemset::Itemset::close', ['exit leaves the loop', 'add on lrtable::itemset::Itemset'],
     'the closure is the least fixed point of monotone unions into a hash map of bit sets: the order in which kernel items are '
     'expanded does not change the result; the exits are the end of the work list'),
    ('lrtable::itemset::Itemset::goto', ['add on lrtable::itemset::Itemset'],
     'Itemset::add inserts into / ors into the hash-map entry of its own (production, dot) key'),
    ('lrtable::pager::weakly_compatible', ['exit leaves the loop', 'collect into an ordered Vec'],
     'a for-all test: false as soon as any key / any pair fails; the Vec of keys only serves to enumerate all pairs (R2.3 checks '
     'that every pair is examined)'),
    ('lrtable::stategraph::StateGraph::pp', ['push_str on alloc::string::String', 'write_fmt on alloc::string::String', 'exit leaves the loop', 'position-dependent adaptor'],
     'pretty-printer: the order in which the items of ONE state are listed in the text; numbering, table contents and parse '
     'results are not affected'),
    ('lrtable::statetable::StateTable::new', ['exit leaves the loop'],
     'the exits return AcceptReduceConflict errors (no table is produced); the cell writes keep the lowest production whatever the '
     'order. NOT excused: the reduce/reduce conflict list appended to in the same loop'),
]


def r204(facts, res):
    import c15
    R = 'R20.4'

    def want(st, h):
        t = st
        while t.startswith('&'):
            t = t[1:].lstrip()
            if t.startswith('mut '):
                t = t[4:]
        args = c15.top_level_args(t)
        return bool(args) and 'StorageT' in args[0] and h != 'random'
    n = 0
    per = {}
    for body in facts.lib_bodies(CRATES):
        if body.from_expansion:
            continue
        for bb, t, st in c15.sources(body, want):
            n += 1
            fn = strip_generics(body.root_parent or body.path)
            # keyed by WHAT is iterated (the container's key type), not by how the iterator is obtained (`for .. in &m`, `m.iter()`,
            # `m.keys()` are the same source)
            targs = c15.top_level_args(st.lstrip('&').replace('mut ', '', 1).strip())
            kty = re.sub(r'\b[a-z_][a-z_0-9]*::', '', targs[0]) if targs else '?'
            idx = per.get((fn, kty), 0)
            per[(fn, kty)] = idx + 1
            key = '%s/hash-iter[%s]#%d' % (fn, kty.replace(' ', ''), idx)
            verdict, desc, problems = c15.classify(body, facts, bb, t, st)
            if verdict == 'auto':
                res.ok(R, key, loc_of(body, bb), 'order-insensitive: ' + desc)
                continue
            exc = [e for e in WIDTH_EXC if e[0] == fn]
            unc = [p for p in problems if not any(nd in p for e in exc for nd in e[1])]
            if exc and not unc:
                res.ok(R, key, loc_of(body, bb), 'listed exception: ' + exc[0][2])
            else:
                res.bad(R, key, loc_of(body, bb), 'the iteration order of a hash container keyed by StorageT values (it differs between u8, u16 and u32: the keys hash '
                        'differently) reaches an ordered result: %s' % '; '.join((unc or problems)[:3]),
                        {'function': body.path, 'container': st, 'problems': problems})
    res.floor(R, 'iterations over hash containers keyed by StorageT values', n, 6)


PASS_THROUGH = ('cast', 'unwrap', 'expect', 'from', 'into', 'as_', 'try_from', 'try_into', 'clone', 'unwrap_or_default')


def from_max(b, op, depth=8):
    """the operand's value is StorageT::max_value(), possibly cast / unwrapped / cached in a local"""
    l = op_local(op)
    if l is None or depth == 0:
        return False
    ds = b.defs().get(l, [])
    if len(ds) != 1:
        return False
    _bb, kind, d = ds[0]
    if kind == 'call':
        nm = cname(d)
        if nm == 'max_value':
            return True
        if nm in ('sub', 'add', 'saturating_sub', 'wrapping_sub', 'checked_sub', 'min'):       # max_value() - 1 and the like
            return any(from_max(b, a, depth - 1) for a in d['args'])
        return nm in PASS_THROUGH and bool(d['args']) and from_max(b, d['args'][0], depth - 1)
    if 'bin' in d and d['bin'] in ('Sub', 'Add', 'SubWithOverflow', 'AddWithOverflow'):
        return from_max(b, d['a'], depth - 1) or from_max(b, d['b'], depth - 1)
    if 'use' in d:
        return from_max(b, d['use'], depth - 1)
    if 'cast' in d:
        return from_max(b, d['a'], depth - 1)
    if 'ref' in d and not d['ref']['p']:
        return from_max(b, {'copy': d['ref']}, depth - 1)
    return False


def width_comparison(facts, b, on, depth=4):
    """the switch operand is (the negation of) a comparison with max_value(), or the answer of any()/all() whose closure makes one
    against a captured max_value()"""
    l = op_local(on)
    if l is None or depth == 0:
        return False
    ds = b.defs().get(l, [])
    if len(ds) != 1:
        return False
    _bb, kind, d = ds[0]
    if kind == 'stmt':
        if 'bin' in d and d['bin'] in ('Lt', 'Le', 'Gt', 'Ge'):
            return from_max(b, d['a']) or from_max(b, d['b'])
        if 'un' in d and d['un'] == 'Not':
            return width_comparison(facts, b, d['a'], depth - 1)
        if 'use' in d:
            return width_comparison(facts, b, d['use'], depth - 1)
        return False
    nm = cname(d)
    if nm in ('lt', 'le', 'gt', 'ge') and len(d['args']) == 2:
        return from_max(b, d['args'][0]) or from_max(b, d['args'][1])
    if nm in ('any', 'all') and len(d['args']) == 2:
        cl = op_local(d['args'][1])
        for _b2, k2, rv in b.defs().get(cl, ()):
            if k2 == 'stmt' and 'agg' in rv and isinstance(rv['agg'], dict) and 'closure' in rv['agg']:
                cb = facts.bodies.get(rv['agg']['closure'])
                caps = rv['ops']
                if cb is None:
                    continue
                for _b3, _i, st in cb.stmts():
                    r2 = st.get('rv') or {}
                    if st['k'] == 'assign' and 'bin' in r2 and r2['bin'] in ('Lt', 'Le', 'Gt', 'Ge'):
                        for o in (r2['a'], r2['b']):
                            rr, projs, _via = cb.op_root(o)
                            fs = [q['f'] for pl in projs for q in pl if isinstance(q, dict) and 'f' in q]
                            if rr == 1 and fs and fs[0] < len(caps) and from_max(b, caps[fs[0]]):
                                return True
    return False


def r205(facts, res):
    """"... or the narrower width is refused at construction with the documented 'not big enough' panic": every diverging exit that
    a comparison with StorageT::max_value() decides (a width refusal) carries a message containing "not big enough" - a bare
    `assert!` produces "assertion failed: <expression>" instead."""
    R = 'R20.5'
    n = 0
    for b in facts.lib_bodies(['cfgrammar', 'lrtable']):
        if b.from_expansion:
            continue
        mv = b.calls_named('max_value')
        if not mv:
            continue
        seen_sw = set()
        # switches decided by a comparison one of whose operands derives from StorageT::max_value() - next to the call, or through a
        # local that caches it, or inside the closure of an any()/all() over the things measured
        cmp_switches = [x for x in sorted(b.reachable()) if b.term(x)['k'] == 'switch' and width_comparison(facts, b, b.term(x)['on'])]
        for bb, t in mv[:1]:
            for s in cmp_switches:
                if s in seen_sw:
                    continue
                seen_sw.add(s)
                for s2 in b.succs(s):
                    tail = b.reachable([s2], stop=lambda z: b.term(z)['k'] in ('switch',))
                    for y in sorted(tail):
                        ty = b.term(y)
                        if ty['k'] != 'call' or ty['ret'] is not None:
                            continue
                        p = cpath(ty) or ''
                        if 'panic' not in p and 'assert_failed' not in p and 'unwrap_failed' not in p and 'expect_failed' not in p:
                            continue
                        msg = None
                        for a in ty['args']:
                            if isinstance(a, dict) and 'const' in a and 'str' in a['const']:
                                msg = a['const']['str']
                            la = op_local(a)
                            if la is not None:
                                for db, kind, d in b.defs().get(la, []):
                                    if kind == 'call':
                                        for a2 in d['args']:
                                            if isinstance(a2, dict) and 'const' in a2 and 'str' in a2['const']:
                                                msg = a2['const']['str']
                        n += 1
                        key = 'refusal:%s@L%s' % (strip_generics(b.path), n)
                        if msg is not None and 'not big enough' in msg:
                            res.ok(R, key, loc_of(b, y), 'refuses with "%s"' % msg[:70])
                        elif p.endswith('unwrap_failed') or p.endswith('expect_failed') or 'Option' in p:
                            n -= 1      # an unwrap of a cast, not a width comparison
                        else:
                            res.bad(R, key, loc_of(b, y), 'a width refusal (decided by a comparison with StorageT::max_value()) panics with %s instead of the documented '
                                    '"StorageT is not big enough ..." message' % (('"%s"' % msg[:80]) if msg else 'an undocumented message'), {'function': b.path})
    res.floor(R, 'width refusals', n, 8)


def r206(facts, res):
    """No product is computed in StorageT: every count fits the width exactly when it is refused otherwise (R20.1/R20.5), but a
    product of two counts (a row offset = state index x row length) does not - it must be formed after widening to usize.  Decided:
    no call of `Mul::mul` / `checked_mul` / `Shl` .. on a value of the storage type in the library crates."""
    R = 'R20.6'
    n = 0
    bad = []
    for b in facts.lib_bodies(CRATES):
        if b.from_expansion:
            continue
        for bb, t in b.calls():
            c = callee_of(t)
            if c is None or c['name'] not in ('mul', 'mul_assign', 'checked_mul', 'wrapping_mul', 'saturating_mul', 'pow', 'shl', 'checked_shl'):
                continue
            st = c.get('self_ty') or (c.get('args') or [''])[0]
            n += 1
            if st.strip() == 'StorageT' or st.strip().endswith('::StorageT'):
                bad.append((b, bb))
        for bb, i, stmt in b.stmts():
            rv = stmt.get('rv') or {}
            if stmt['k'] == 'assign' and 'bin' in rv and rv['bin'] in ('Mul', 'MulWithOverflow', 'Shl'):
                n += 1
                l = op_local(rv['a'])
                if l is not None and b.lty(l).strip() == 'StorageT':
                    bad.append((b, bb))
    if bad:
        for b, bb in bad[:4]:
            res.bad(R, 'product-in-storaget:%s' % strip_generics(b.path), loc_of(b, bb), 'a product is computed in the storage type: the factors fit the width, their product need not (an offset into a '
                    'states x tokens table overflows u8 for 26 states and 10 tokens) - widen the factors to usize first', {'function': b.path})
    else:
        res.ok(R, 'no-product-in-storaget', 'lrtable/src/lib/statetable.rs', 'none of the %d products formed in the library crates is computed in the storage type' % n)
    res.floor(R, 'products examined', n, 4)


def r207(facts, res):
    """A COUNT (tokens_len, rules_len, prods_len, .. - the number of things, which may be exactly the largest value of the storage
    type) is not added to in the storage type: `len + 1` wraps (or panics on overflow) for a grammar the width accepts.  Sums over
    counts are formed after widening to usize.  (An index plus one stays within the count and is not concerned.)"""
    R = 'R20.7'
    n = 0
    bad = []
    LEN = re.compile(r'(^|_)len$')
    for b in facts.lib_bodies(CRATES):
        if b.from_expansion:
            continue
        for bb, t in b.calls():
            c = callee_of(t)
            if c is None or c['name'] not in ('add', 'add_assign', 'checked_add', 'wrapping_add', 'saturating_add'):
                continue
            st = (c.get('self_ty') or (c.get('args') or [''])[0]).strip()
            if not (st == 'StorageT' or st.endswith('::StorageT')):
                continue
            n += 1
            for a in t['args']:
                r, _p, via = b.op_root(a, through=Body.THROUGH + ('as_storaget', 'into', 'from', 'as_'), stop_named=False)
                for d in b.defs().get(r, []) if r is not None else []:
                    if d[1] == 'call' and LEN.search(cname(d[2]) or '') and (cpath(d[2]) or '').startswith(('cfgrammar::', 'lrtable::')):
                        bad.append((b, bb, cname(d[2])))
    if bad:
        for b, bb, what in bad[:3]:
            res.bad(R, 'count-plus-in-storaget:%s' % strip_generics(b.path), loc_of(b, bb), 'the count `%s()` is added to in the storage type: a grammar with exactly max_value() of them is accepted by the '
                    'guards, and the sum overflows - widen to usize first' % what, {'function': b.path})
    else:
        res.ok(R, 'no-count-plus-in-storaget', '', 'none of the %d additions performed in the storage type has a count (`*_len()`) as an operand' % n)
    res.floor(R, 'additions in the storage type', n, 1)


def run(facts, res):
    r206(facts, res)
    r207(facts, res)
    r205(facts, res)
    r204(facts, res)
    r201(facts, res)
    r201b(facts, res)
    r202(facts, res)
    r203(facts, res)
