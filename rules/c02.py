"""C02 State minimisation never costs an LR(1) grammar its determinism (DESIGN.md §4 C02) - partial.

R2.1 invalidate-on-merge: a successful weak merge re-opens the merged state (closure discarded, work counter bumped)
R2.2 exact-before-weak: candidates are first compared for equality; only if none is equal is weak compatibility tried
R2.3 Pager's three conditions in weakly_compatible (16 valuations, exhaustive) + equal cores checked first
R2.4 gc precedes StateGraph::new
R2.5 re-processing a state overwrites all of its edges (sibling agreement of the edge-recording sites)
"""
from mirlib import *
from lrstep import widening_walker, loop_assigned, is_call, has_call
from lrstep import is_call, has_call, find_calls, loop_assigned

META = {
    'level': 'other',
    'explanation': 'Necessary conditions of "merging never manufactures a conflict": after weakly_merge reports a change the '
                   'closed form of the merged state is discarded and it is queued again (stale look-aheads are how a merge '
                   'would otherwise lose or invent a reduction); exact equality is tried before weak compatibility (which is '
                   'not reflexive); weakly_compatible returns false exactly on (I_i&O_j or I_j&O_i) and not(I_i&I_j) and '
                   'not(O_i&O_j) - all 16 valuations of the four intersections enumerated - after checking that both item '
                   'sets have the same cores; unreachable states are collected before the graph is built. NOT decided: '
                   'equivalence with canonical LR(1) on every input, and "never more states than canonical".',
}


def pager(facts, R):
    return facts.one(R, 'pager_stategraph', crate='lrtable', name='pager_stategraph')


def r21(facts, res):
    R = 'R2.1'
    b = pager(facts, R)
    ms = b.calls_named('weakly_merge')
    if len(ms) != 1:
        res.lost(R, 'expected one weakly_merge call, found %d' % len(ms))
        return
    mb, mt = ms[0]
    headers = set(b.loops())
    w = Walker(b, facts, max_paths=256)
    ps = w.run(mb, stop=lambda x: x in headers)
    # the merged state's index: index term of the index_mut on the core-state vector
    seen_true = 0
    bad = []
    for p in ps:
        mv = [v for c, v in p.conds if is_call(c, 'weakly_merge')]
        if mv != [1]:
            # not changed: nothing may be re-opened? (harmless either way) - only require no spurious None store
            continue
        seen_true += 1
        me = p.calls(name='weakly_merge')[0]
        tgt = strip_ref(me[3][0])
        kidx = None
        if tgt[0] == 'call' and tgt[1].endswith('::index_mut'):
            kidx = tgt[2][1]
        some = [v for c, v in p.conds if is_call(c, 'is_some')]
        none_stores = []
        for e in p.stores():
            v = e[3]
            if isinstance(v, tuple) and v[0] == 'variant' and v[3] == 'None' and v[1].endswith('Option'):
                addr = e[5]
                r = addr[1]
                if r[0] == 'call' and r[1].endswith('::index_mut'):
                    none_stores.append(r[2][1])
        # `closed_states[k].take()` leaves None behind as well (and says whether there was a closed form)
        for e in p.calls(name='take'):
            if 'core::option::Option' in (e[2].get('self_ty') or e[2]['path']) and e[3]:
                r = strip_ref(e[3][0])
                if r[0] == 'call' and r[1].endswith('::index_mut'):
                    none_stores.append(r[2][1])
        incs = [(k, v) for k, v in p.env.items() if isinstance(k[0], int) and not k[1] and b.name_of(k[0]) and isinstance(v, tuple)
                and v[0] == 'bin' and v[1] == 'Add' and v[3] == ('const', 1) and v[2] == ('uninit', k[0])]
        if some == [0]:
            if none_stores:
                pass
            continue  # already pending
        if not none_stores:
            bad.append('after a changing merge the closed form of the merged state is kept (stale look-aheads survive)')
            continue
        if kidx is not None and none_stores[0] != kidx:
            bad.append('a different state than the merged one is re-opened')
        if not incs:
            bad.append('the merged state is re-opened but the work counter is not incremented (it is never reprocessed)')
    if seen_true == 0:
        res.bad(R, 'invalidate-on-merge', loc_of(b, mb), 'the result of weakly_merge is ignored')
    elif bad:
        res.bad(R, 'invalidate-on-merge', loc_of(b, mb), '; '.join(sorted(set(bad))))
    else:
        res.ok(R, 'invalidate-on-merge', loc_of(b, mb), 'a changing merge discards the closed form of exactly the merged state and bumps the work counter (%d paths)' % seen_true)


def r22_search_call(facts, res, b, wb, is_iseq):
    """exact-before-weak when the exact search is an iterator search (find/position/any with a closure comparing item sets): the
    search call dominates the weak-compatibility test, and no path on which the search found an equal candidate reaches it"""
    R = 'R2.2'
    loops = b.loops()
    sites = []
    for c in facts.closures_of(b):
        if not [1 for bb, t in c.calls_named('eq') + c.calls_named('ne') if is_iseq(t)]:
            continue
        for nm in ('find', 'position', 'any', 'find_map', 'rfind', 'rposition'):
            for bb, t in b.calls_named(nm):
                l = op_local(t['args'][1]) if len(t['args']) > 1 else None
                if any(kind == 'stmt' and 'agg' in rv and isinstance(rv['agg'], dict) and rv['agg'].get('closure') == c.path for _bb, kind, rv in b.defs().get(l, ())):
                    sites.append((bb, nm, c))
    if len(sites) != 1:
        res.lost(R, 'expected one Itemset == comparison (in a loop or in one iterator search) in pager_stategraph, found %d' % len(sites))
        return
    sb, nm, c = sites[0]
    # the closure answers "equal": its result is the comparison itself
    cps = Walker(c, facts, max_paths=64).run()
    if not cps or not all(p.end[0] == 'return' and p.end[1][0] == 'bin' and p.end[1][1] == 'Eq' for p in cps):
        res.lost(R, 'the closure of the exact search does not simply answer whether the candidate equals the new item set')
        return
    probs = []
    if not b.dominates(sb, wb):
        probs.append('the weak-compatibility test can be reached without running the exact search')
    outer = sorted((h for h in loops if sb in loops[h]), key=lambda h: len(loops[h]))
    oh = outer[0] if outer else None
    w = widening_walker(b, facts)
    w.widen_headers = set(loops) - ({oh} if oh is not None else set())
    w.widen_assigned = {x: loop_assigned(b, x) for x in w.widen_headers}
    ps = [p for p in w.run(sb, stop=lambda x: x == wb or x == oh) if p.end == ('stop', wb)]
    if w.overflow:
        res.lost(R, 'path explosion between the exact search and the weak-compatibility test')
        return
    for p in ps:
        notfound = False
        for cd, v in p.conds:
            if term_has(cd, lambda x: isinstance(x, tuple) and x and x[0] == 'call' and x[1].endswith('::' + nm) and 'iter' in x[1]):
                if cd[0] == 'discr' and v == 0:
                    notfound = True
                elif cd[0] == 'discr' and isinstance(v, tuple) and v[0] == 'ne' and 1 in v[1]:
                    notfound = True
                elif is_call(cd, 'is_none') and v == 1 or is_call(cd, 'is_some') and v == 0:
                    notfound = True
                elif is_call(cd, nm) and nm == 'any' and v == 0:
                    notfound = True
        if not notfound:
            probs.append('after an exactly equal candidate is found, weak compatibility is still tried')
            break
    if not ps:
        probs.append('the weak-compatibility test is not reachable from the exact search')
    if probs:
        res.bad(R, 'exact-before-weak', loc_of(b, wb), '; '.join(probs))
    else:
        res.ok(R, 'exact-before-weak', loc_of(b, wb), 'all candidates are compared with == first (Iterator::%s); weak compatibility is tried only when none is equal' % nm)


def r22(facts, res):
    R = 'R2.2'
    b = pager(facts, R)
    wc = b.calls_named('weakly_compatible')
    is_iseq = lambda t: 'Itemset' in (callee_of(t).get('self_ty') or '') + ' '.join(callee_of(t)['args'])
    eqs = [(bb, t) for bb, t in b.calls_named('eq') + b.calls_named('ne') if is_iseq(t)]
    if len(wc) == 1 and not eqs:
        return r22_search_call(facts, res, b, wc[0][0], is_iseq)
    if len(wc) != 1 or len(eqs) != 1:
        res.lost(R, 'expected one weakly_compatible and one Itemset == comparison in pager_stategraph (%d / %d)' % (len(wc), len(eqs)))
        return
    wb, eb = wc[0][0], eqs[0][0]
    loops = b.loops()
    le = min([h for h in loops if eb in loops[h]], key=lambda h: len(loops[h]))
    lw = min([h for h in loops if wb in loops[h]], key=lambda h: len(loops[h]))
    probs = []
    if le == lw:
        probs.append('equality and weak compatibility are tested in the same loop (a weakly compatible earlier candidate can win over an equal later one)')
    if not b.dominates(le, lw) or wb in loops[le]:
        probs.append('the weak-compatibility loop can be reached without completing the equality loop')
    # from the "equal" branch the weak loop must not be reached within the same outer iteration
    outer = [h for h in loops if le in loops[h] and h != le]
    oh = min(outer, key=lambda h: len(loops[h])) if outer else None
    t = b.term(eqs[0][1]['ret'])
    if t['k'] == 'switch' and oh is not None:
        tgt0 = [x for v, x in t['targets'] if v == 0]
        true_succ = t['otherwise']
        if lw in b.reachable([true_succ], avoid={oh}):
            probs.append('after an exactly equal candidate is found, weak compatibility is still tried')
    if probs:
        res.bad(R, 'exact-before-weak', loc_of(b, wb), '; '.join(probs))
    else:
        res.ok(R, 'exact-before-weak', loc_of(b, wb), 'all candidates are compared with == first; weak compatibility is tried only when none is equal')


def r23(facts, res):
    R = 'R2.3'
    bs = [x for x in facts.lib_bodies(['lrtable']) if x.name == 'weakly_compatible']
    if len(bs) != 1:
        res.lost(R, 'weakly_compatible not found')
        return
    b = bs[0]
    loops = b.loops()
    vi = b.calls_named('vob_intersect')
    if len(vi) != 4:
        res.lost(R, 'expected 4 vob_intersect calls in weakly_compatible, found %d' % len(vi))
        return
    inner = min([h for h in loops if vi[0][0] in loops[h]], key=lambda h: len(loops[h]))
    w = Walker(b, facts, max_paths=256)
    ps = w.run(inner, stop=lambda x: x in set(loops) and x != inner)
    # classify each intersect call: (map, key) x (map, key); map = self(param1)/other(param2); key = outer/inner
    def side(t):
        t = strip_ref(t)
        # index(&X.items, key)
        if not (t[0] == 'call' and t[1].endswith('::index')):
            return None
        m = 'S' if term_has(t[2][0], lambda x: x == ('param', 1)) else ('O' if term_has(t[2][0], lambda x: x == ('param', 2)) else '?')
        k = t[2][1]
        kk = 'b' if has_call(k, 'next') else 'a'   # inner key comes from this iteration's next(); outer key predates the loop
        return m + kk
    spec_ok = True
    why = ''
    npaths = 0
    import itertools
    covered = set()
    for p in ps:
        if p.end[0] not in ('return', 'loop', 'stop'):
            continue
        atoms = {}
        for c, v in p.conds:
            if is_call(c, 'vob_intersect'):
                a, d = side(c[2][0]), side(c[2][1])
                if a is None or d is None:
                    spec_ok, why = False, 'cannot read an operand of vob_intersect'
                    continue
                key = frozenset((a, d))
                atoms[key] = bool(v)
        if not atoms:
            continue
        npaths += 1
        is_false = p.end[0] == 'return' and p.end[1] == ('const', 0)
        # a pair that is not rejected must hand over to the NEXT pair of the same row: the path has to come back to the
        # pair loop's own header (leaving the loop early skips the remaining pairs of this row unexamined)
        if not is_false and not (p.end[0] in ('loop', 'stop') and p.end[1] == inner):
            spec_ok = False
            why = 'a pair that passes the conditions ends the pair loop (%s at block %s, line %s) instead of continuing with the next pair: the remaining pairs of the row are never examined' % (
                p.end[0], p.end[1] if len(p.end) > 1 else '?', b.term(p.blocks[-1]).get('line') if getattr(p, 'blocks', None) else '?')
            continue
        names = {'c1': frozenset(('Sa', 'Ob')), 'c2': frozenset(('Sb', 'Oa')), 'c3': frozenset(('Sa', 'Sb')), 'c4': frozenset(('Oa', 'Ob'))}
        unknown = [k for k in atoms if k not in names.values()]
        if unknown:
            spec_ok, why = False, 'an intersection of %s is tested; Pager\'s conditions use I_i&O_j, I_j&O_i, I_i&I_j, O_i&O_j' % [sorted(k) for k in unknown]
            continue
        for vals in itertools.product((False, True), repeat=4):
            m = dict(zip(('c1', 'c2', 'c3', 'c4'), vals))
            if any(names[k] in atoms and atoms[names[k]] != m[k] for k in m):
                continue
            covered.add(vals)
            want_false = (m['c1'] or m['c2']) and not m['c3'] and not m['c4']
            if want_false != is_false:
                spec_ok = False
                why = 'for I_i&O_j=%s I_j&O_i=%s I_i&I_j=%s O_i&O_j=%s the pair is %s but Pager\'s conditions say %s' % (
                    m['c1'], m['c2'], m['c3'], m['c4'], 'rejected' if is_false else 'accepted', 'reject' if want_false else 'accept')
    if spec_ok and len(covered) == 16:
        res.ok(R, 'pager-conditions', loc_of(b, inner), 'rejects a pair iff (I_i&O_j or I_j&O_i) and not(I_i&I_j) and not(O_i&O_j): 16/16 valuations over %d paths' % npaths)
    else:
        res.bad(R, 'pager-conditions', loc_of(b, inner), why or 'only %d of 16 valuations are covered by the pair loop' % len(covered))
    # same cores first: length comparison and a contains_key loop, both returning false, before the pair loop
    ck = b.calls_named('contains_key')
    lens = [bb for bb, t in b.calls_named('len')]
    def hdr(bb):
        hs = [h for h in loops if bb in loops[h]]
        return min(hs, key=lambda h: len(loops[h])) if hs else bb
    pre = bool(ck) and all(b.dominates(hdr(bb), inner) and inner not in loops.get(hdr(bb), ()) for bb, t in ck) \
        and any(b.dominates(bb, inner) for bb in lens)
    if not ck:
        # the same check as `keys().all(|k| other.contains_key(k))`: the all() call dominates the pair loop and the pair loop is
        # not reached when it answered false
        for c in facts.closures_of(b):
            if not c.calls_named('contains_key'):
                continue
            cps = Walker(c, facts, max_paths=16).run()
            if not cps or not all(p.end[0] == 'return' and is_call(p.end[1], 'contains_key') for p in cps):
                continue
            for ab, at in b.calls_named('all'):
                l = op_local(at['args'][1]) if len(at['args']) > 1 else None
                if not any(kind == 'stmt' and 'agg' in rv and isinstance(rv['agg'], dict) and rv['agg'].get('closure') == c.path for _bb, kind, rv in b.defs().get(l, ())):
                    continue
                w2 = Walker(b, facts, max_paths=256)
                ps2 = [p for p in w2.run(ab, stop=lambda x: x == inner) if p.end == ('stop', inner)]
                passed = bool(ps2) and all(any(is_call(cd, 'all') and v == 1 for cd, v in p.conds) for p in ps2)
                if b.dominates(ab, inner) and passed and any(b.dominates(bb, inner) for bb in lens):
                    pre = True
                    ck = [(ab, at)]
    if pre:
        res.ok(R, 'same-cores-first', loc_of(b, ck[0][0]), 'equal size and equal core items are checked before the pairwise conditions')
    else:
        res.bad(R, 'same-cores-first', loc_of(b), 'the pairwise conditions are evaluated without first checking that both item sets have the same cores')


def r24(facts, res):
    R = 'R2.4'
    b = pager(facts, R)
    gcs = b.calls_named('gc')
    news = [(bb, t) for bb, t in b.calls_named('new') if 'StateGraph' in (cpath(t) or '')]
    if gcs and len(news) == 1 and any(b.dominates(g, news[0][0]) for g, _ in gcs):
        res.ok(R, 'gc-before-graph', loc_of(b, gcs[0][0]), 'unreachable states left behind by merging are collected before the graph is built')
    else:
        res.bad(R, 'gc-before-graph', loc_of(b), 'StateGraph::new can be reached without garbage collection')


def r26(facts, res):
    """gc() compacts the state vector and the edge vector ALIKE: an element of either input is carried over only under a
    successful membership test in the reachable set.  If only one of the two parallel vectors is filtered they no longer line
    up, and every state after a removed one is paired with another state's edges."""
    import c15
    R = 'R2.6'
    bs = [x for x in facts.lib_bodies(['lrtable']) if strip_generics(x.path) == 'lrtable::pager::gc']
    if len(bs) != 1:
        res.lost(R, 'lrtable::pager::gc not found')
        return
    b = bs[0]
    loops = b.loops()
    drains = [(bb, t) for bb, t in b.calls_named('drain') if t['args'] and b.op_root(t['args'][0])[0] in (1, 3)]
    if len(drains) != 2:
        res.lost(R, 'expected the state vector and the edge vector each to be drained once in gc, found %d drains' % len(drains))
        return
    contains = [bb for bb, t in b.calls_named('contains') if 'HashSet' in (callee_of(t).get('self_ty') or cpath(t) or '')]
    # a map filled only for members of the reachable set is a membership test as well (old index -> new index)
    derived = set()
    for bb, t in b.calls_named('insert'):
        if 'HashMap' not in (callee_of(t).get('self_ty') or cpath(t) or '') or not t['args']:
            continue
        m = b.op_root(t['args'][0])[0]
        guarded = False
        for sb in b.control_deps_pd(bb):
            ol = op_local(b.term(sb)['on'])
            r_ = b.root(ol, through=('not',), stop_named=False)[0] if ol is not None else None
            if any(d[1] == 'call' and d[0] in contains for d in b.defs().get(r_, []) if r_ is not None):
                guarded = True
        if guarded:
            derived.add(m)
        else:
            derived.discard(m)
            derived.add(('poisoned', m))
    derived = {m for m in derived if not isinstance(m, tuple) and ('poisoned', m) not in derived}
    for bb, t in b.calls(lambda t: cname(t) in ('contains_key', 'get')):
        if 'HashMap' in (callee_of(t).get('self_ty') or cpath(t) or '') and t['args'] and b.op_root(t['args'][0])[0] in derived:
            contains.append(bb)
    for bb, t in drains:
        which = {1: 'states', 3: 'edges'}[b.op_root(t['args'][0])[0]]
        key = 'filtered:' + which
        holds, adapters, consumers = c15.flow(b, t['dest']['l'])
        ok, why = False, ''
        nexts = [(cb, ct) for cb, ct, ai in consumers if cname(ct) == 'next']
        if not nexts:
            # handed to `zip` as the second iterator: the pair iterator carries it on
            for cb, ct, ai in consumers:
                if cname(ct) == 'zip' and ai == 1:
                    _h2, ad2, cons2 = c15.flow(b, ct['dest']['l'])
                    adapters = adapters + ['zip'] + ad2
                    nexts = [(cb2, ct2) for cb2, ct2, _ in cons2 if cname(ct2) == 'next']
        if nexts:
            cb = nexts[0][0]
            inl = [h for h in loops if cb in loops[h]]
            if inl:
                h = min(inl, key=lambda x: len(loops[x]))
                pushes = [pb for pb, pt in b.calls_named('push', loops[h])]
                cin = [c for c in contains if c in loops[h]]
                if not pushes:
                    why = 'the loop over %s pushes nothing' % which
                elif not cin:
                    why = 'the loop over %s carries every element over: no membership test in the reachable set' % which
                else:
                    free = b.reachable([h], avoid=set(cin))
                    esc = [pb for pb in pushes if pb in free]
                    # the push of the bookkeeping vector `offsets` is unconditional by design: only pushes onto the OUTPUT count
                    outs = []
                    for pb in pushes:
                        pt = b.term(pb)
                        tgt = b.lty(b.op_root(pt['args'][0])[0])
                        if 'StIdx<usize>' in tgt and 'HashMap' not in tgt and 'Itemset' not in tgt:
                            continue
                        outs.append(pb)
                    esc = [pb for pb in outs if pb in free]
                    if outs and not esc:
                        ok = True
                    else:
                        why = 'an element of %s is pushed onto the result without passing the membership test (line %s)' % (which, b.term((esc or pushes)[0]).get('line'))
        else:
            if any(a in ('filter', 'filter_map') for a in adapters):
                # the predicate closure must consult the reachable set
                cl = [c for c in facts.closures_of(b) if c.calls_named('contains')]
                ok = bool(cl)
                why = '' if ok else 'the filter over %s does not consult the reachable set' % which
            else:
                why = '%s are carried over by an iterator chain (%s) with no filter on the reachable set' % (which, ' -> '.join(adapters) or 'collect')
        if ok:
            res.ok(R, key, loc_of(b, bb), '%s are carried over only when in the reachable set' % which)
        else:
            res.bad(R, key, loc_of(b, bb), why + ': the two vectors gc returns no longer line up')


def r27(facts, res):
    """`closed_states` doubles as the to-do list: a changing merge re-opens its target only if that target currently HAS a closed
    form (R2.1).  The state being processed can be the target of one of its own successors (a self-loop), so its freshly
    computed closed form must already be stored when the merging starts - a store after the merges overwrites the
    re-opening (or the re-opening never happens) and the stale closed form is final."""
    R = 'R2.7'
    b = pager(facts, R)
    loops = b.loops()
    ms = b.calls_named('weakly_merge')
    if len(ms) != 1 or not loops:
        res.lost(R, 'expected one weakly_merge call, found %d' % len(ms))
        return
    mb = ms[0][0]
    main = max((h for h in loops if mb in loops[h]), key=lambda h: len(loops[h]))
    stores = []
    for bb in sorted(loops[main]):
        for st in b.blocks[bb]['stmts']:
            if st['k'] != 'assign' or st['lhs']['p'] != ['deref']:
                continue
            rv = st['rv']
            def is_some(rv):
                return isinstance(rv.get('agg'), dict) and rv['agg'].get('vname') == 'Some'
            ok_some = is_some(rv)
            if not ok_some and 'use' in rv:
                src = op_local(rv['use'])
                ds = b.defs().get(src, []) if src is not None else []
                ok_some = bool(ds) and all(kind == 'stmt' and is_some(d) for _bb, kind, d in ds)
            if not ok_some:
                continue
            r, projs, via = b.root(st['lhs']['l'], through=('index_mut',), stop_named=False)
            if 'core::option::Option<lrtable::itemset::Itemset' in b.lty(r) and b.lty(r).startswith('alloc::vec::Vec<'):
                stores.append(bb)
    # the same store through the Option API: closed_states[i].insert(closed) / .replace(closed)
    for bb, t in b.calls(blocks=loops[main]):
        c = callee_of(t)
        if c and c['name'] in ('insert', 'replace') and (c.get('self_ty') or '').startswith('core::option::Option<lrtable::itemset::Itemset') and t['args']:
            r, projs, via = b.op_root(t['args'][0], through=('index_mut',), stop_named=False)
            if 'core::option::Option<lrtable::itemset::Itemset' in b.lty(r) and b.lty(r).startswith('alloc::vec::Vec<'):
                stores.append(bb)
    if not stores:
        res.lost(R, 'no store of a closed form (Some(..)) into the closed-state vector found in the main loop')
        return
    late = [sb for sb in stores if sb in b.reachable(b.succs(mb), avoid={main})]
    early = [sb for sb in stores if b.dominates(sb, mb)]
    if late:
        res.bad(R, 'closed-before-merge', loc_of(b, late[0]), 'the closed form of the state being processed is stored AFTER its successors were merged: a successor that merges '
                'into this very state (self-loop) finds no closed form to invalidate, and the stale one becomes final (missing lookaheads)')
    elif not early:
        res.bad(R, 'closed-before-merge', loc_of(b, stores[0]), 'the store of the closed form does not dominate the merging of the successors')
    else:
        res.ok(R, 'closed-before-merge', loc_of(b, early[0]), 'the closed form is stored before any successor is merged, so a self-loop merge re-opens it')


def r28(facts, res):
    """A goto item set may be merged into an existing state only when that state was found weakly compatible with it (or equal to
    it): on every path on which weakly_merge is called, a weakly_compatible test of the very state that is merged into came out
    true.  Re-using "the successor we had last time" skips the test: the old successor may be shared with other predecessors and
    the enlarged goto set need no longer be compatible with it - an LR(1) grammar then gets a reduce/reduce conflict."""
    R = 'R2.8'
    b = pager(facts, R)
    loops = b.loops()
    ms = b.calls_named('weakly_merge')
    wc = b.calls_named('weakly_compatible')
    if len(ms) != 1 or len(wc) != 1:
        res.lost(R, 'expected one weakly_merge and one weakly_compatible call, found %d/%d' % (len(ms), len(wc)))
        return
    mb = ms[0][0]
    inl = sorted((h for h in loops if mb in loops[h]), key=lambda h: len(loops[h]))
    if not inl:
        res.lost(R, 'weakly_merge is not inside the successor loop')
        return
    h = inl[0]
    w = widening_walker(b, facts)
    w.widen_headers = set(loops) - {h}
    w.widen_assigned = {x: loop_assigned(b, x) for x in w.widen_headers}
    ps = [p for p in w.run(h, stop=lambda x: x not in loops[h]) if any(e[0] == 'call' and e[1] == mb for e in p.events)]
    if w.overflow or not ps:
        res.lost(R, 'cannot enumerate the paths to weakly_merge')
        return
    bad = None
    for p in ps:
        me = [e for e in p.events if e[0] == 'call' and e[1] == mb][0]
        tgt = strip_ref(me[3][0])
        kidx = tgt[2][1] if (tgt[0] == 'call' and tgt[1].endswith('::index_mut') or tgt[0] == 'call' and tgt[1].endswith('::index')) else None
        okc = False
        for c, v in p.conds:
            if is_call(c, 'weakly_compatible') and v == 1:
                ct = strip_ref(c[2][0])
                cidx = ct[2][1] if (ct[0] == 'call' and ct[1].endswith(('::index', '::index_mut'))) else None
                if kidx is None or cidx is None or strip_conv(cidx) == strip_conv(kidx):
                    okc = True
        if not okc and kidx is not None:
            # the index went through a loop-carried Option local: then *every* store of Some(x) into that local must sit under a
            # successful weakly_compatible test of state x (an invariant of the local, whatever loop shape fills it)
            k0 = strip_conv(kidx)
            if k0[0] == 'field' and k0[1][0] == 'downcast' and k0[1][1][0] == 'widen':
                okc = some_only_under_wc(facts, b, k0[1][1][3], loops)
        if not okc:
            bad = 'weakly_merge is reached on a path (blocks %s) on which the state merged into was not found weakly compatible with the new item set' % p.blocks[-10:]
            break
    if bad:
        res.bad(R, 'merge-only-compatible', loc_of(b, mb), bad)
    else:
        res.ok(R, 'merge-only-compatible', loc_of(b, mb), 'every path to weakly_merge has a successful weakly_compatible test of the state merged into (%d paths)' % len(ps))


def some_only_under_wc(facts, b, m, loops):
    """every whole assignment to local `m` is None, or Some(x) on paths that have seen weakly_compatible(states[x], ..) come out true"""
    n = 0
    for bb, kind, rv in b.defs().get(m, ()):
        if kind != 'stmt':
            return False
        for _ in range(6):      # `m = move tmp` with `tmp = Some(x)`: look at what the temporary holds
            ol = op_local(rv['use']) if 'use' in rv else None
            ds = b.defs().get(ol, ()) if ol is not None and not b.name_of(ol) else ()
            if len(ds) == 1 and ds[0][1] == 'stmt':
                bb, kind, rv = ds[0]
            else:
                break
        if 'agg' in rv and isinstance(rv['agg'], dict) and rv['agg'].get('vname') == 'None':
            continue
        if not ('agg' in rv and isinstance(rv['agg'], dict) and rv['agg'].get('vname') == 'Some'):
            return False
        inl = sorted((h for h in loops if bb in loops[h]), key=lambda h: len(loops[h]))
        if not inl:
            return False
        h = inl[0]
        w = widening_walker(b, facts)
        w.widen_headers = set(loops) - {h}
        w.widen_assigned = {x: loop_assigned(b, x) for x in w.widen_headers}
        after = set(b.succs(bb))
        ps = [p for p in w.run(h, stop=lambda x: x in after or x not in loops[h]) if p.blocks and p.blocks[-1] == bb]
        if w.overflow or not ps:
            return False
        for p in ps:
            # the operand as it stands at the end of the storing block (the temporary holding x is filled in that block)
            x = strip_conv(w.as_value(p.env, w.operand(p.env, rv['ops'][0])))
            if rv['ops'][0].get('move') is not None and x[0] == 'uninit':
                # moved-out temporaries read back as themselves: take the payload of the stored aggregate instead
                st = w.read_key(p.env, (m, ()))
                x = strip_conv(st[4][0]) if st[0] == 'variant' and st[4] else x
            ok = False
            for c, v in p.conds:
                if is_call(c, 'weakly_compatible') and v == 1:
                    ct = strip_ref(c[2][0])
                    cidx = ct[2][1] if (ct[0] == 'call' and ct[1].endswith(('::index', '::index_mut'))) else None
                    if cidx is not None and strip_conv(cidx) == x:
                        ok = True
            if not ok:
                return False
        n += 1
    return n > 0


def strip_conv(t):
    while isinstance(t, tuple) and t and t[0] in ('conv', 'ref', 'deref'):
        t = t[2] if t[0] == 'conv' else t[1]
    if isinstance(t, tuple) and t and t[0] == 'call' and strip_generics(t[1]).split('::')[-1] in ('from', 'into') and len(t[2]) == 1:
        return strip_conv(t[2][0])
    return t


def r25(facts, res):
    """re-processing a state regenerates ALL its edges: every site that records an edge of the state being processed must
    overwrite a previous edge on that symbol (sibling agreement of the three recording sites)"""
    R = 'R2.5'
    b = pager(facts, R)
    wm = b.calls_named('weakly_merge')
    if not wm:
        res.lost(R, 'weakly_merge call not found')
        return
    loops = b.loops()
    inl = [h for h in loops if wm[0][0] in loops[h]]
    drain = min(inl, key=lambda h: len(loops[h]))
    # the edge table: the Vec<HashMap<Symbol, StIdx>> local
    et = [i for i, l in enumerate(b.locals) if l['ty'].startswith('alloc::vec::Vec<std::collections::hash::map::HashMap<cfgrammar::Symbol<') and b.name_of(i)]
    if not et:
        res.lost(R, 'edge table local not found')
        return
    ets = set(et)
    sites = []
    for bb, t in b.calls(blocks=loops[drain]):
        if not t['args']:
            continue
        l0 = op_local(t['args'][0])
        if l0 is None or not b.lty(l0).startswith('&mut std::collections::hash::map::HashMap<cfgrammar::Symbol<'):
            continue
        r, projs, via = b.op_root(t['args'][0], through=Body.THROUGH + ('index_mut',), stop_named=False)
        if r in ets:
            sites.append((bb, cname(t)))
    res.floor(R, 'edge-recording sites while processing a state', len(sites), 2)
    bad = [(bb, nm) for bb, nm in sites if nm != 'insert']
    if bad:
        res.bad(R, 'edges-overwrite', loc_of(b, bad[0][0]),
                'an edge of the state being (re)processed is recorded with `%s` while its siblings use the overwriting `insert`: after a merge forces the '
                'state to be re-closed, a stale edge to the old successor survives and the correct successor is garbage-collected' % bad[0][1])
    elif sites:
        res.ok(R, 'edges-overwrite', loc_of(b, sites[0][0]), 'all %d edge-recording sites overwrite a previous edge on the same symbol' % len(sites))


INT_TYS = ('usize', 'u8', 'u16', 'u32', 'u64', 'u128', 'isize', 'i8', 'i16', 'i32', 'i64', 'i128')


def loop_carried_scalars(b, blks):
    """integer locals with a definition inside the loop and one outside it: running counts"""
    out = set()
    for l, ds in b.defs().items():
        if b.lty(l) in INT_TYS and any(d[0] in blks for d in ds) and any(d[0] not in blks for d in ds):
            out.add(l)
    return out


def r29(facts, res):
    """gc() renumbers the states it keeps; an edge can point at ANY state, earlier or later than its source.  The new
    number written into an edge must therefore be a function of the edge's target alone (a lookup in a table completed
    beforehand, a count over the reachable set, ...): a running count kept by the loop that walks the SOURCE states is the
    number of states dropped before the source, not before the target (seeded change C04-gc-fused-offset)."""
    R = 'R2.9'
    bs = [x for x in facts.lib_bodies(['lrtable']) if strip_generics(x.path) == 'lrtable::pager::gc']
    if len(bs) != 1:
        return res.lost(R, 'lrtable::pager::gc not found')
    b = bs[0]
    loops = b.loops()
    T = 'lrtable::StIdx<usize>'
    n = 0
    # (a) closure form: |(&k, &v)| (k, f(v))
    for bb in sorted(b.reachable()):
        for st in b.blocks[bb]['stmts']:
            if st['k'] != 'assign' or not (isinstance(st['rv'].get('agg'), dict) and 'closure' in st['rv']['agg']):
                continue
            cb = facts.bodies.get(st['rv']['agg']['closure'])
            if cb is None or T not in cb.lty(0) or not any(T in cb.lty(a) for a in range(2, cb.arg_count + 1)):
                continue
            n += 1
            inl = [h for h in loops if bb in loops[h]]
            carried = set()
            for h in inl:
                carried |= loop_carried_scalars(b, loops[h])
            caps = []
            for o in st['rv']['ops']:
                r, _p, _v = b.op_root(o, through=())
                if r in carried:
                    caps.append(b.name_of(r) or '_%d' % r)
            key = 'edge-target:closure@L%d' % (n - 1)
            if caps:
                res.bad(R, key, loc_of(b, bb), 'the new number of an edge target is computed from the running count `%s` of the loop over the '
                        'source states: it is right only when no dropped state lies between source and target' % ', '.join(sorted(caps)))
            else:
                res.ok(R, key, loc_of(b, bb), 'the new number of an edge target depends on the target and on data completed before this loop')
    # (b) loop form: new_edges.insert(k, f(v))
    for bb, t in b.calls_named('insert'):
        c = callee_of(t)
        if 'HashMap' not in (c.get('self_ty') or cpath(t) or '') or len(t['args']) < 3:
            continue
        vl = op_local(t['args'][2])
        if vl is None or T not in b.lty(vl):
            continue
        inl = [h for h in loops if bb in loops[h]]
        if not inl:
            continue
        n += 1
        outer = max(inl, key=lambda h: len(loops[h]))
        carried = loop_carried_scalars(b, loops[outer])
        # backward slice of the inserted value inside the loop
        seen, todo = set(), [vl]
        while todo:
            l = todo.pop()
            if l in seen:
                continue
            seen.add(l)
            for d in b.defs().get(l, []):
                if d[0] not in loops[outer]:
                    continue
                ops = rv_operands(d[2]) if d[1] == 'stmt' else d[2]['args']
                if d[1] == 'stmt':
                    for k in ('ref', 'rawptr', 'discr', 'len'):
                        if k in d[2]:
                            todo.append(d[2][k]['l'])
                for o in ops:
                    pl = op_place(o)
                    if pl is not None:
                        todo.append(pl['l'])
                        for pr in pl['p']:
                            if isinstance(pr, dict) and 'index' in pr:
                                todo.append(pr['index'])
        # the loop's own position (an Enumerate index) is not a running count; a count is
        caps = sorted(b.name_of(l) or '_%d' % l for l in seen & carried if not _is_induction(b, l, loops[outer]))
        key = 'edge-target:insert@L%d' % (n - 1)
        if caps:
            res.bad(R, key, loc_of(b, bb), 'the new number of an edge target is computed from the running count `%s` of the loop over the '
                    'source states: it is right only when no dropped state lies between source and target' % ', '.join(caps))
        else:
            res.ok(R, key, loc_of(b, bb), 'the new number of an edge target depends on the target and on data completed before this loop')
    res.floor(R, 'sites that renumber an edge target', n, 1)


def _is_induction(b, l, blks):
    """assigned exactly once in the loop, on every iteration (its block dominates the back edges)"""
    ds = [d for d in b.defs().get(l, []) if d[0] in blks]
    if len(ds) != 1:
        return False
    return all(b.dominates(ds[0][0], u) for (u, h) in b.back_edges() if u in blks and h in blks)


def _has_bitand(t):
    return term_has(t, lambda x: isinstance(x, tuple) and len(x) > 1 and x[0] == 'bin' and x[1] == 'BitAnd')


def _zero_test(c):
    """('Ne'|'Eq') when term c compares something holding a BitAnd with the constant 0"""
    neg = False
    while isinstance(c, tuple) and len(c) == 3 and c[0] == 'un' and c[1] == 'Not':
        c, neg = c[2], not neg
    if isinstance(c, tuple) and len(c) == 4 and c[0] == 'bin' and c[1] in ('Ne', 'Eq'):
        for a, z in ((c[2], c[3]), (c[3], c[2])):
            if _has_bitand(a) and z == ('const', 0):
                op = c[1]
                if neg:
                    op = 'Eq' if op == 'Ne' else 'Ne'
                return op
    return None


def r210(facts, res):
    """Pager's conditions are stated over whole look-ahead sets; `vob_intersect` decides "do the two sets share a token" word by
    word.  The answer must be true as soon as ANY pair of words shares a bit.  Three shapes are recognised: a loop that returns
    true at the first common bit; `Iterator::any` over the word pairs with a closure that answers `a & b != 0`; an accumulator
    that ORs the common bits (or the test's outcome) of every pair into what it already holds."""
    R = 'R2.10'
    bs = [b for b in facts.lib_bodies(['lrtable']) if b.name == 'vob_intersect' and b.kind != 'closure']
    if len(bs) != 1:
        return res.lost(R, 'lrtable::pager::vob_intersect not found (%d)' % len(bs))
    b = bs[0]
    key = 'any-word-pair'

    def ands(body):
        return [(bb, st) for bb, i, st in body.stmts() if st['k'] == 'assign' and st['rv'].get('bin') == 'BitAnd']
    cls = [c for c in facts.closures_of(b) if ands(c)]
    if cls:
        probs = []
        for c in cls:
            used = [t for bb, t in b.calls() if cname(t) in ('any',) and any(op_local(a) is not None and any(k == 'stmt' and isinstance(rv.get('agg'), dict) and rv['agg'].get('closure') == c.path
                                                                                                         for _b, k, rv in b.defs().get(op_local(a), ())) for a in t['args'])]
            if not used:
                probs.append('the closure that intersects a word pair is not the predicate of Iterator::any')
                continue
            for p in Walker(c, facts, max_paths=64).run():
                if p.end[0] != 'return':
                    continue
                r = p.end[1]
                zt = _zero_test(r)
                if zt == 'Ne':
                    continue
                if r in (('const', 1), ('const', 0)):
                    tests = [(_zero_test(cc), v) for cc, v in p.conds if _zero_test(cc)]
                    nz = any((op == 'Ne') == bool(v) for op, v in tests)
                    if tests and nz == (r == ('const', 1)):
                        continue
                probs.append('the predicate does not answer `a & b != 0` (it answers %s)' % fmt_term(r)[:80])
        ends = [p.end[1] for p in Walker(b, facts, max_paths=64).run() if p.end[0] == 'return']
        if not ends or not all(is_call(e, 'any') for e in ends):
            probs.append('the function does not return the answer of Iterator::any as it is')
        if probs:
            res.bad(R, key, loc_of(b), '; '.join(sorted(set(probs))[:2]), {'function': b.path})
        else:
            res.ok(R, key, loc_of(b), 'Iterator::any over the word pairs with the predicate `a & b != 0`')
        return
    if not ands(b):
        return res.lost(R, 'vob_intersect no longer intersects storage words with `&` (unknown shape)')
    w = widening_walker(b, facts, max_paths=512)
    ps = w.run(0)
    saw, probs = 0, []
    for p in ps:
        for c, v in p.conds:
            op = _zero_test(c)
            if op is None:
                continue
            nz = (op == 'Ne') == bool(v)
            if nz:
                saw += 1
                if not (p.end[0] == 'return' and p.end[1] == ('const', 1)):
                    probs.append('a word pair with a common bit does not make the function return true at once (path ends in %s)' % (p.end[0],))
    if saw:
        if probs:
            res.bad(R, key, loc_of(b), '; '.join(sorted(set(probs))[:2]), {'function': b.path})
        else:
            res.ok(R, key, loc_of(b), 'returns true at the first word pair with a common bit (%d paths)' % saw)
        return
    # accumulate form: everything the common bits are stored into inside the loop must keep what it held
    inloop = set()
    for h, body_ in b.loops().items():
        inloop |= set(body_)
    if not inloop:
        inloop = set(b.reachable())
    tainted = set(st['lhs']['l'] for bb, st in ands(b))
    changed = True
    stores = []
    while changed:
        changed = False
        for bb, i, st in b.stmts():
            if st['k'] != 'assign' or bb not in inloop:
                continue
            ops = [op_local(o) for o in rv_operands(st['rv'])]
            if any(o in tainted for o in ops) and st['lhs']['l'] not in tainted:
                tainted.add(st['lhs']['l'])
                changed = True
    for bb, i, st in b.stmts():
        if st['k'] != 'assign' or bb not in inloop or st['lhs']['p']:
            continue
        l = st['lhs']['l']
        if l not in tainted or not b.name_of(l):
            continue
        ops = [op_local(o) for o in rv_operands(st['rv'])]
        keeps = st['rv'].get('bin') in ('BitOr',) and any(o is not None and b.root(o, stop_named=True)[0] == l for o in ops)
        stores.append((l, keeps, st.get('line')))
    if not stores:
        return res.lost(R, 'vob_intersect: the common bits of a word pair are neither tested against 0 nor accumulated (unknown shape)')
    bad = [(l, ln) for l, keeps, ln in stores if not keeps]
    if bad:
        res.bad(R, key, loc_of(b), 'line %s: `%s` is overwritten with the common bits of the current word pair, so only the last pair of words decides the answer (accumulate with `|=`)'
                % (bad[0][1], b.name_of(bad[0][0])), {'function': b.path})
    else:
        res.ok(R, key, loc_of(b), 'the common bits of every word pair are ORed into `%s`' % b.name_of(stores[0][0]))


def r211(facts, res):
    """gc() gives every kept state the number of states kept BEFORE it.  When that number is read off the vector of kept states
    (`kept.len()`), it must be read before the state itself is pushed; read afterwards, every kept state is numbered one too
    high and every edge of a collected graph points at the state after the intended one (seeded change C01-gc-offsets-after-push;
    the suite has no grammar on which states are collected)."""
    R = 'R2.11'
    bs = [x for x in facts.lib_bodies(['lrtable']) if strip_generics(x.path) == 'lrtable::pager::gc']
    if len(bs) != 1:
        return res.lost(R, 'lrtable::pager::gc not found')
    b = bs[0]
    w = widening_walker(b, facts, max_paths=4096)
    ps = w.run(0)
    if w.overflow:
        return res.lost(R, 'path bound exceeded in gc')
    n, bad, forms = 0, [], set()
    for p in ps:
        evs = [e for e in p.events if e[0] == 'call' and e[2]]
        pushes = [(i, e) for i, e in enumerate(evs) if e[2]['name'] == 'push' and len(e[3]) == 2]
        idx = [(i, e) for i, e in pushes if 'StIdx' in fmt_term(e[3][1])[:8] or (isinstance(e[3][1], tuple) and e[3][1] and e[3][1][0] in ('agg', 'variant') and 'StIdx' in str(e[3][1][1]))]
        if not idx:
            continue
        for i, e in idx:
            n += 1
            v = e[3][1]
            lens = [(j, l) for j, l in enumerate(evs) if l[2]['name'] == 'len' and j < i and term_has(v, lambda y, t=l[5]: y == t)]
            if not lens:
                forms.add('position minus states dropped so far' if term_has(v, lambda y: isinstance(y, tuple) and len(y) > 1 and y[0] == 'bin' and str(y[1]).startswith('Sub')) else 'other')
                continue
            forms.add('length of the kept vector')
            for j, l in lens:
                recv = strip_ref(l[3][0]) if l[3] else None
                # pushes onto the vector whose length was read, before the read, on this very pass
                earlier = [k for k, pe in pushes if k < j and k != i and pe[3] and root_of(strip_ref(pe[3][0])) == root_of(recv)]
                if earlier:
                    bad.append('line %s: the new number is the length of the kept vector read AFTER the state was pushed (line %s)' % (b.term(e[1]).get('line'), b.term(evs[earlier[0]][1]).get('line')))
    key = 'new-number-counts-earlier-states'
    if bad:
        res.bad(R, key, loc_of(b), '; '.join(sorted(set(bad))[:2]) + ': every kept state is numbered one too high', {'function': b.path})
    elif n:
        res.ok(R, key, loc_of(b), 'the number recorded for a state counts the states kept before it (%d recording passes; form: %s)' % (n, ', '.join(sorted(forms))))
    else:
        res.ok(R, key, loc_of(b), 'no per-state push of a new number in a loop of gc: renumbering has another shape (R2.6/R2.9 judge it); not analysed')


def root_of(t):
    """the local a (possibly mutated / widened / dereferenced) vector term stands for"""
    seen = 0
    while isinstance(t, tuple) and t and seen < 20:
        seen += 1
        if t[0] in ('mutated', 'widen', 'deref', 'ref') and len(t) > 1:
            nxt = [x for x in t[1:] if isinstance(x, tuple)]
            if t[0] == 'mutated':
                k = t[1]
                if isinstance(k, tuple) and k and k[0] == 'mutated':
                    return root_of(k)
                return ('local', k[0] if isinstance(k, tuple) and k else k)
            if t[0] == 'widen':
                return ('local', t[3]) if len(t) > 3 else t
            if nxt:
                t = nxt[0]
                continue
        break
    return t


def run(facts, res):
    r29(facts, res)
    r211(facts, res)
    r210(facts, res)
    r25(facts, res)
    r21(facts, res)
    r22(facts, res)
    r23(facts, res)
    r24(facts, res)
    r26(facts, res)
    r27(facts, res)
    r28(facts, res)
