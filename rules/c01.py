"""C01 The generated parser recognises exactly the grammar's language (DESIGN.md §4 C01) - construction steps only.

Language equality itself is not decided.  What IS visible in the shape of the code are the individual steps of the LR(1)
construction; each rule below is a necessary condition: break it and some state lacks an item, a lookahead or a transition.

R1.1 start item: the initial core state is {(start production, dot 0)} with the context {EOF} and nothing else
R1.2 closure transfer (Itemset::close): the lookahead of the items added for the rule Y behind the dot of (p, d) is computed
     from the symbols after position d+1, the scratch context is cleared before each expansion, the context of THE SAME item
     (p, d) is ored in exactly when everything after Y is nullable, and the items added are the productions of Y at dot 0
R1.3 goto (Itemset::goto): an item is carried over iff it is not complete and its symbol at the dot is the transition symbol;
     it keeps its production and context and its dot advances by exactly one
R1.4 successors (pager_stategraph): every incomplete item's symbol at the dot gets a successor computed by goto on that very
     symbol unless that symbol was already handled for this state; the "handled" bits are cleared for every state
(R4.4 closure work-list discipline and R4.5 FIRST/nullable pairing in the closure are reported under C04; the reduce/accept
 cell table is C03 R3.2; shift/goto targets from the graph edge of the same symbol are C16 R16.3.)
"""
from mirlib import *
from lrstep import *

META = {
    'level': 'other',
    'explanation': 'Decides ONLY that the individual steps of the LR(1) construction have the textbook shape: start item, closure '
                   'transfer (which suffix, which context, which productions), goto (which items, dot + 1, same context), one '
                   'successor per symbol at a dot. Each is a necessary condition of "accepts exactly L(G)"; together with C04 '
                   'R4.4/R4.5, C03 R3.2, C16 R16.3 and C02 they cover every step of the construction, but that the steps COMPOSE to '
                   'the canonical automaton, and language equality as such, are NOT decided.',
}


def item_comp(t):
    """path of field indexes from the payload of `iterator.next()` (Some) to t, or None.  For a HashMap iterator the payload
    is (&key, &value): key components are (0, 0, i), the value is (0, 1); for keys() the payload is &key: (0, i)."""
    idx = []
    x = t
    for _ in range(12):
        if not (isinstance(x, tuple) and x):
            return None
        if x[0] in ('ref', 'deref'):
            x = x[1]
        elif x[0] == 'conv':
            x = x[2]
        elif x[0] == 'field':
            idx.append(x[2])
            x = x[1]
        elif x[0] == 'downcast':
            if is_call(x[1], 'next') and x[3] == 'Some':
                return tuple(reversed(idx))
            return None
        elif x == ('elem',):
            # the element handed to a filter / for_each closure: the (&key, &value) pair itself
            return (0,) + tuple(reversed(idx))
        else:
            return None
    return None


def one_fn(facts, R, res, path):
    bs = [x for x in facts.lib_bodies(['lrtable']) if strip_generics(x.path) == path]
    if len(bs) != 1:
        res.lost(R, '%s not found' % path)
        return None
    return bs[0]


def r11(facts, res):
    R = 'R1.1'
    b = one_fn(facts, R, res, 'lrtable::pager::pager_stategraph')
    if b is None:
        return
    loops = b.loops()
    main = max(loops, key=lambda h: len(loops[h])) if loops else None
    adds = [(bb, t) for bb, t in b.calls_named('add') if 'Itemset' in (cpath(t) or '') and (main is None or bb not in loops[main])]
    if len(adds) != 1 or main is None:
        res.lost(R, 'expected exactly one Itemset::add before the main loop of pager_stategraph, found %d' % len(adds))
        return
    bb, t = adds[0]
    w = Walker(b, facts, max_paths=64)
    ps = [p for p in w.run(0, stop=lambda x: x == t['ret']) if any(e[0] == 'call' and e[1] == bb for e in p.events)]
    if not ps:
        res.lost(R, 'no path to the initial add')
        return
    bad = []
    for p in ps:
        e = [e for e in p.events if e[0] == 'call' and e[1] == bb][0]
        _is, pidx, dot, ctx = e[3]
        if not is_call(strip_ref(pidx), 'start_prod'):
            bad.append('the initial item is not the start production (%s)' % fmt_term(pidx)[:60])
        if not (find_variant(dot, 'SIdx') or isinstance(dot, tuple)) or not has_call(dot, 'zero'):
            bad.append('the initial item\'s dot is not zero (%s)' % fmt_term(dot)[:60])
        sets = [s for s in p.calls(name='set') if 'Vob' in (s[2].get('self_ty') or s[2]['path'])]
        ctx_sets = [s for s in sets if b.op_root(b.term(s[1])['args'][0])[0] == b.op_root(t['args'][3])[0]]
        if len(ctx_sets) != 1 or not has_call(ctx_sets[0][3][1], 'eof_token_idx') or ctx_sets[0][3][2] != ('const', 1):
            bad.append('the initial context is not exactly {EOF} (%d bits set before the add)' % len(ctx_sets))
        croot = b.op_root(t['args'][3])[0]
        cdefs = [d for d in b.defs().get(croot, []) if d[1] == 'call']
        if len(cdefs) != 1 or cname(cdefs[0][2]) != 'from_elem' or cdefs[0][2]['args'][0].get('const', {}).get('int') != 0:
            bad.append('the initial context does not start out empty (Vob::from_elem(false, ..))')
    if bad:
        res.bad(R, 'start-item', loc_of(b, bb), '; '.join(sorted(set(bad))))
    else:
        res.ok(R, 'start-item', loc_of(b, bb), 'state 0 = {(start_prod, 0)} with context {EOF}')


def scan_closure_ok(facts, clo):
    """The element closure of `suffix.iter().all(..)`: a token stops the scan (answers false), a rule lets it go on exactly when it is
    nullable (answers is_epsilon_set of that same rule).  Returns a complaint or None."""
    if clo[0] != 'closure' or facts.bodies.get(clo[1]) is None:
        return 'cannot read the closure that scans the symbols behind the rule'
    cb = facts.bodies[clo[1]]
    sym = facts.adt('cfgrammar::Symbol')
    dv = {v['name']: v['discr'] for v in sym['variants']} if sym else {}
    seen = set()
    for p in Walker(cb, facts, max_paths=64).run():
        if p.end[0] != 'return':
            continue
        kind = [v for c, v in p.conds if c[0] == 'discr' and isinstance(v, int) and term_has(c[1], lambda x: x == ('param', 2))]
        if not kind:
            return 'the scanning closure answers without looking at the symbol'
        r = p.end[1]
        if kind[0] == dv.get('Token'):
            seen.add('Token')
            if r != ('const', 0):
                return 'the scan of the symbols behind the rule does not stop at a token'
        elif kind[0] == dv.get('Rule'):
            seen.add('Rule')
            eps = [(c, v) for c, v in p.conds if is_call(c, 'is_epsilon_set')]
            if is_call(r, 'is_epsilon_set'):
                e = r
            elif eps and r == ('const', eps[0][1]):
                e = eps[0][0]
            else:
                return 'for a rule behind the dot the scan does not go on exactly when that rule is nullable'
            firsts = [ev for ev in p.calls(name='firsts')]
            if firsts and strip_ref(firsts[0][3][1]) != strip_ref(e[2][1]):
                return 'nullable() is asked of a different rule than the one whose FIRST set is merged'
    if seen != {'Token', 'Rule'}:
        return 'the scanning closure does not treat both tokens and rules'
    return None


def scratch_cleared_after_use(b, l):
    """the scratch Vob is created all-false and every way from a growing write to the item loop's header passes set_all(false)"""
    if l is None:
        return False
    loops = b.loops()
    addb = [bb for bb, t_ in b.calls_named('add') if 'Itemset' in (cpath(t_) or '')]
    outs = [h for h in loops if any(a in loops[h] for a in addb)]
    if not outs:
        return False
    outer = max(outs, key=lambda h: len(loops[h]))
    init_ok = any(d[1] == 'call' and cname(d[2]) in ('from_elem', 'from_elem_with_storage_type') and len(d[2]['args']) >= 1
                  and any((op_const(a) or {}).get('int') == 0 and (op_const(a) or {}).get('ty') == 'bool' for a in d[2]['args']) for d in b.defs().get(l, []))
    if not init_ok:
        return False
    resets = {bb for bb, t_ in b.calls_named('set_all') if t_['args'] and b.op_root(t_['args'][0], stop_named=False)[0] == l and (op_const(t_['args'][-1]) or {}).get('int') == 0}
    grows = [bb for bb, t_ in b.calls() if cname(t_) in ('or', 'set') and t_['args'] and op_local(t_['args'][0]) is not None
             and b.lty(op_local(t_['args'][0])).startswith('&mut ') and b.op_root(t_['args'][0], stop_named=False)[0] == l]
    if not resets or not grows:
        return False
    return all(outer not in b.reachable(starts=b.succs(g), avoid=resets) for g in grows)


def r12(facts, res):
    R = 'R1.2'
    b = one_fn(facts, R, res, 'lrtable::itemset::Itemset::close')
    if b is None:
        return
    loops = b.loops()
    # the scratch look-ahead set (what Itemset::add is given) is not the pending-work bit field: a debug_assert over it is no anchor
    _adds = [t for _bb, t in b.calls_named('add') if 'Itemset' in (cpath(t) or '') and len(t['args']) >= 4]
    _ctx = b.op_root(_adds[0]['args'][3])[0] if _adds else None
    isb = [(bb, t) for bb, t in b.calls_named('iter_set_bits') if not (t['args'] and _ctx is not None and b.op_root(t['args'][0])[0] == _ctx)]
    if len(isb) != 1:
        res.lost(R, 'iter_set_bits anchor lost in Itemset::close')
        return
    outer = max((h for h in loops if isb[0][0] in loops[h]), key=lambda h: len(loops[h]))
    w = widening_walker(b, facts)
    w.widen_headers = set(loops) - {outer}
    w.widen_assigned = {h: loop_assigned(b, h) for h in w.widen_headers}
    ps = [p for p in w.run(outer, stop=lambda x: x not in loops[outer]) if p.end[0] == 'loop']
    exp = [p for p in ps if any(is_call(e[5], 'rule_to_prods') for e in p.events if e[0] == 'call' and len(e) > 5)]
    if not exp:
        res.lost(R, 'no path of the closure loop expands a rule behind the dot')
        return
    # values of locals that are fixed before the closure loop starts (the same on every way to it)
    pre_loop = {}
    w0 = Walker(b, facts, max_paths=64)
    ps0 = [p for p in w0.run(0, stop=lambda x: x == outer) if p.end == ('stop', outer)]
    if ps0 and not w0.overflow:
        for (l, pr), v in ps0[0].env.items():
            if isinstance(l, int) and not pr and l not in loop_assigned(b, outer) and all(p.env.get((l, ())) == v for p in ps0):
                pre_loop[l] = w0.as_value(ps0[0].env, v)
    bad = []
    n = 0
    nadd = 0
    all_terms = set()
    for p in exp:
        n += 1
        # the item being expanded: (pidx, dot) as used by prod(grm, pidx) / prod_len / index
        prods = [e for e in p.calls(name='prod') if 'YaccGrammar' in e[2]['path']]
        if not prods:
            bad.append('cannot find the production of the item being expanded')
            continue
        pidx = strip_ref(prods[0][3][1])
        # (a) suffix starts at dot + 1
        skips = [e for e in p.calls(name='skip')]
        alls = [e for e in p.calls(name='all') if term_has(e[3][0], lambda x: is_call(x, 'prod'))]
        if not skips and not alls:
            # a plain loop over the sub-slice prod[dot + 1..]
            nx = [e for e in p.calls(name='next') if term_has(e[3][0], lambda x: isinstance(x, tuple) and x and x[0] == 'variant' and x[3] == 'RangeFrom')
                  and term_has(e[3][0], lambda x: is_call(x, 'prod'))]
            rf = [x for x in subterms(nx[0][3][0]) if isinstance(x, tuple) and x and x[0] == 'variant' and x[3] == 'RangeFrom'] if nx else []
            if len(rf) != 1:
                bad.append('the lookahead is not computed from `prod.iter().skip(..)`, `prod[..]` or `prod[..].iter().all(..)`')
                continue
            sk = rf[0][4][0]
        elif not skips:
            # the same scan as an iterator adaptor: prod[dot + 1..].iter().all(|sym| ..) with the element transfer in the closure
            rf = [x for e in alls for x in subterms(e[3][0]) if isinstance(x, tuple) and x and x[0] == 'variant' and x[3] == 'RangeFrom'] if len(alls) == 1 else []
            if len(rf) != 1:
                bad.append('the lookahead is not computed from `prod.iter().skip(..)` or `prod[..].iter().all(..)`')
                continue
            why = scan_closure_ok(facts, alls[0][3][1])
            if why:
                bad.append(why)
            all_terms.add(alls[0][5])
            sk = rf[0][4][0]
        elif len(skips) != 1:
            bad.append('the lookahead is not computed from `prod.iter().skip(..)` (%d skip calls)' % len(skips))
            continue
        else:
            sk = skips[0][3][1]
        if sk[0] == 'bin' and sk[1] == 'Add' and sk[2] == ('const', 1):
            sk = ('bin', 'Add', sk[3], sk[2])
        if not (sk[0] == 'bin' and sk[1] == 'Add' and sk[3] == ('const', 1)):
            bad.append('the symbols examined for the lookahead do not start right after the symbol behind the dot: skip(%s) instead of skip(dot + 1)' % fmt_term(sk)[:50])
            continue
        dot = strip_ref(sk[2])
        while isinstance(dot, tuple) and dot and dot[0] == 'conv':
            dot = strip_ref(dot[2])
        # the rule expanded is the symbol AT the dot of that production
        rtp = [e for e in p.events if e[0] == 'call' and e[2] and e[2]['name'] == 'rule_to_prods'][0]
        ridx = strip_ref(rtp[3][1])
        at = [x for x in subterms(ridx) if isinstance(x, tuple) and x and x[0] == 'index']
        if not at or not term_has(at[0], lambda x: x == pidx) or not term_has(at[0][2] if len(at[0]) > 2 else at[0], lambda x: x == dot):
            bad.append('the rule whose productions are added is not the symbol at the dot of the item being expanded')
        # (e) scratch context reset
        vob_calls = [e for e in p.events if e[0] == 'call' and e[2] and 'Vob' in (e[2].get('self_ty') or e[2]['path'])]
        adds = [e for e in p.events if e[0] == 'call' and e[2] and e[2]['name'] == 'add' and 'Itemset' in e[2]['path']]
        if not adds:
            continue        # the rule behind the dot has no production left to visit on this path
        nadd += 1
        ctx_root = b.op_root(b.term(adds[0][1])['args'][3], stop_named=False)[0]
        mine = [e for e in vob_calls if b.term(e[1])['args'] and b.op_root(b.term(e[1])['args'][0], stop_named=False)[0] == ctx_root]
        if not mine or mine[0][2]['name'] != 'set_all' or mine[0][3][1] != ('const', 0):
            # the other way of keeping it clean: it starts out all-false and is cleared again AFTER every use (each way from a write to the
            # next round of the item loop passes a set_all(false))
            if not scratch_cleared_after_use(b, ctx_root):
                bad.append('the scratch context is not cleared (set_all(false)) before it is filled for this expansion: lookaheads of the previous item leak in')
        # (c) context of the same item ored in iff the nullable flag survived
        ors = [e for e in mine if e[2]['name'] == 'or']
        inherit = [e for e in ors if term_has(e[3][1], lambda x: isinstance(x, tuple) and len(x) > 3 and x[0] == 'field' and x[3] == 'items')]
        flagged = [c for c, v in p.conds if isinstance(c, tuple) and c and c[0] in ('widen', 'uninit', 'local') or (isinstance(c, tuple) and c and c[0] == 'widen')]
        if inherit:
            key = inherit[0][3][1]
            if not (term_has(key, lambda x: x == pidx) and term_has(key, lambda x: x == dot)):
                bad.append('when the rest of the production is nullable, the context ored in is not that of the item being expanded (%s)' % fmt_term(key)[:80])
        # (d) items added: dot 0, the scratch context (a dot computed once before the loop counts as its defining expression)
        for a in adds:
            dterm = a[3][2]
            if dterm[0] == 'uninit' and dterm[1] in pre_loop:
                dterm = pre_loop[dterm[1]]
            if not has_call(dterm, 'zero'):
                bad.append('an item is added for the rule behind the dot with a dot other than 0')
            if not has_call(a[3][1], 'next') and not term_has(a[3][1], lambda x: isinstance(x, tuple) and x and x[0] == 'widen'):
                bad.append('the item added is not one of rule_to_prods(rule behind the dot)')
    # (c') both outcomes exist: some expansion path inherits the item's context and some does not
    inh = [p for p in exp if any(e[0] == 'call' and e[2] and e[2]['name'] == 'or' and term_has(e[3][1], lambda x: isinstance(x, tuple) and len(x) > 3 and x[0] == 'field' and x[3] == 'items') for e in p.events)]
    # (c'') the item's own context is passed on exactly on the paths on which the suffix scan ran to the END of the production
    # (every symbol behind the rule was nullable); a path that left the scan early (a token, a non-nullable rule) must not
    def exhausted(p):
        if any(c in all_terms and v == 1 for c, v in p.conds):
            return True         # all(..) over the suffix answered true: no symbol stopped the scan
        def suffix_iter(t):
            # next() on the iterator over the symbols behind the rule: a Skip adaptor, or an iterator over the sub-slice prod[x..]
            return is_call(t, 'next') and ('skip' in t[1].lower() or (term_has(t, lambda x: isinstance(x, tuple) and x and x[0] == 'variant' and x[3] == 'RangeFrom')
                                                                      and term_has(t, lambda x: is_call(x, 'prod'))))
        return any(c[0] == 'discr' and suffix_iter(c[1]) and v == 0 for c, v in p.conds)
    for p in exp:
        if not any(e[0] == 'call' and e[2] and e[2]['name'] == 'add' and 'Itemset' in e[2]['path'] for e in p.events):
            continue
        if exhausted(p) and p not in inh:
            bad.append('everything behind the rule is nullable on some path, yet the expanded item\'s own context is not passed on to the items added')
        if not exhausted(p) and p in inh:
            bad.append('the expanded item\'s own context is passed on although the scan of the symbols behind the rule stopped at a token or a non-nullable rule')
    if nadd == 0:
        bad.append('no item is ever added for the rule behind the dot')
    if not inh:
        bad.append('the context of the item being expanded is never passed on (needed when everything after the rule is nullable)')
    if len(inh) == len(exp):
        bad.append('the context of the item being expanded is ALWAYS passed on, also when a non-nullable symbol follows the rule')
    if bad:
        res.bad(R, 'closure-transfer', loc_of(b, outer), '; '.join(sorted(set(bad))[:3]), {'function': b.path})
    else:
        res.ok(R, 'closure-transfer', loc_of(b, outer), 'over %d expansion paths: suffix = skip(dot + 1), scratch context cleared first, the item\'s own context ored in on %d of them, '
               'productions of the rule at the dot added at dot 0' % (n, len(inh)))
    res.floor(R, 'expansion paths of the closure loop', n, 2)


class _Round:
    """one element of `items.iter().filter(P).for_each(F)` seen as one round of the item loop"""
    def __init__(self, conds, events):
        self.conds, self.events, self.end = conds, events, ('loop', 0)


def goto_adaptor_rounds(facts, b):
    """Itemset::goto written with adaptors: the rounds of `self.items.iter().filter(P).for_each(F)`.  P's paths give the conditions
    under which an element is carried over (a non-constant answer is split into its two truth values); F's paths give what is done
    with it.  The element is the term ('elem',) in both."""
    fe = [(bb, t) for bb, t in b.calls_named('for_each') if len(t['args']) == 2]
    fl = [(bb, t) for bb, t in b.calls_named('filter') if len(t['args']) == 2]
    if len(fe) != 1 or len(fl) != 1 or not b.dominates(fl[0][0], fe[0][0]):
        return []
    def closure_of(t):
        l = op_local(t['args'][1])
        for _bb, kind, rv in b.defs().get(l, ()):
            if kind == 'stmt' and 'agg' in rv and isinstance(rv['agg'], dict) and 'closure' in rv['agg']:
                caps = None
                return facts.bodies.get(rv['agg']['closure']), l
        return None, None
    # evaluate both closures in the caller's frame so that captured values (grm, sym, the new item set) are the caller's terms
    w = Walker(b, facts, max_paths=64)
    ps = [p for p in w.run(0) if any(e[0] == 'call' and e[1] == fe[0][0] for e in p.events)]
    if len(ps) != 1:
        return []
    e_fe = [e for e in ps[0].events if e[0] == 'call' and e[1] == fe[0][0]][0]
    recv, F = e_fe[3][0], e_fe[3][1]
    flt = [x for x in subterms(recv) if isinstance(x, tuple) and x and x[0] == 'call' and x[1].endswith('::filter') and len(x[2]) == 2]
    if len(flt) != 1 or F[0] != 'closure' or flt[0][2][1][0] != 'closure':
        return []
    P = flt[0][2][1]
    elem = ('elem',)
    pa = w.closure_alternatives(P, [('ref', elem)])
    fa = w.closure_alternatives(F, [elem])
    if pa is None:
        return []
    if fa is None:
        # F is impure by design (it adds to the new item set): walk it directly and substitute by hand
        fb = facts.bodies.get(F[1])
        if fb is None or fb.loops():
            return []
        fa = []
        for p in Walker(fb, facts, max_paths=16).run():
            if p.end[0] != 'return':
                return []
            amap = {('param', 2): elem}
            fa.append(([(subst_term(c, amap, F[2]), v) for c, v in p.conds],
                       [('call', None, e[2], tuple(subst_term(a, amap, F[2]) for a in e[3]), None, subst_term(e[5], amap, F[2]), None) for e in p.events if e[0] == 'call'], None))
    rounds = []
    for cs, es, r in pa:
        outcomes = []
        if is_const(r):
            outcomes.append((cs, bool(r[1])))
        else:
            t, flip = r, False
            while True:
                if t[0] == 'un' and t[1] == 'Not':
                    t, flip = t[2], not flip
                elif t[0] == 'bin' and t[1] == 'Ne':
                    t, flip = simp(('bin', 'Eq', t[2], t[3])), not flip
                else:
                    break
            outcomes.append((cs + [(t, 0 if flip else 1)], True))
            outcomes.append((cs + [(t, 1 if flip else 0)], False))
        for conds, passed in outcomes:
            if not passed:
                rounds.append(_Round(conds, []))
            else:
                for cs2, es2, _r in fa:
                    rounds.append(_Round(conds + cs2, es + es2))
    return rounds


def r13(facts, res):
    R = 'R1.3'
    b = one_fn(facts, R, res, 'lrtable::itemset::Itemset::goto')
    if b is None:
        return
    ps = [p for p in Walker(b, facts, max_paths=256).run(0) if p.end[0] == 'loop']
    if not ps:
        ps = goto_adaptor_rounds(facts, b)
    if not ps:
        res.lost(R, 'no cycle through the item loop of Itemset::goto')
        return
    bad = []
    rows = set()
    for p in ps:
        complete = sym_eq = None
        for c, v in p.conds:
            if c[0] == 'bin' and c[1] in ('Lt', 'Le', 'Gt', 'Ge') and isinstance(v, int) and has_call(c, 'prod_len'):
                # dot <= prod_len always holds, so `dot < prod_len` is "incomplete" (and its mirror images)
                a, d = c[2], c[3]
                pl_first = is_call(strip_ref(a), 'prod_len')
                pl = a if pl_first else d
                other = d if pl_first else a
                if not (is_call(strip_ref(pl), 'prod_len') and item_comp(strip_ref(pl)[2][1]) == (0, 0, 0) and item_comp(other) == (0, 0, 1)):
                    bad.append('completeness is not tested by comparing dot with prod_len(the item\'s production)')
                    continue
                op = c[1] if v == 1 else {'Lt': 'Ge', 'Ge': 'Lt', 'Le': 'Gt', 'Gt': 'Le'}[c[1]]
                if pl_first:
                    op = {'Lt': 'Gt', 'Gt': 'Lt', 'Le': 'Ge', 'Ge': 'Le'}[op]      # now: dot OP prod_len
                if op == 'Lt':
                    complete = False
                elif op == 'Ge':
                    complete = True
                else:
                    bad.append('completeness is tested with dot %s prod_len, which does not separate complete from incomplete items' % op)
            if c[0] == 'bin' and c[1] in ('Eq', 'Ne') and isinstance(v, int):
                truth = (v == 1) if c[1] == 'Eq' else (v == 0)
                a, d = c[2], c[3]
                if has_call(c, 'prod_len'):
                    pl = a if is_call(strip_ref(a), 'prod_len') else d
                    other = d if pl is a else a
                    if item_comp(strip_ref(pl)[2][1]) == (0, 0, 0) and item_comp(other) == (0, 0, 1):
                        complete = truth
                    else:
                        bad.append('completeness is not tested as dot == prod_len(the item\'s production)')
                elif term_has(c, lambda x: x == ('param', 3)):
                    ix = a if not term_has(a, lambda x: x == ('param', 3)) else d
                    ixs = [x for x in subterms(ix) if isinstance(x, tuple) and x and x[0] == 'index']
                    okp = ixs and has_call(ixs[0][1], 'prod') and item_comp([x for x in subterms(ixs[0][1]) if is_call(x, 'prod')][0][2][1]) == (0, 0, 0) \
                        and item_comp(ixs[0][2]) == (0, 0, 1)
                    if okp:
                        sym_eq = truth
                    else:
                        bad.append('the transition symbol is not compared with prod(item)[dot(item)]')
        adds = [e for e in p.events if e[0] == 'call' and e[2] and e[2]['name'] == 'add' and 'Itemset' in e[2]['path']]
        # the same thing written as a direct insertion into the new item set's map: items.insert((pidx, dot + 1), ctx.clone())
        for e in p.events:
            if e[0] == 'call' and e[2] and e[2]['name'] == 'insert' and 'HashMap' in (e[2].get('self_ty') or e[2]['path']) and len(e[3]) == 3:
                k_, v_ = strip_ref(e[3][1]), strip_ref(e[3][2])
                if k_[0] == 'tuple' and len(k_[1]) == 2:
                    while is_call(v_, 'clone') and v_[2]:
                        v_ = strip_ref(v_[2][0])
                    adds.append((e[0], e[1], e[2], (e[3][0], k_[1][0], k_[1][1], v_)) + tuple(e[4:]))
        rows.add((complete, sym_eq, len(adds)))
        should = (complete is False) and (sym_eq is True)
        if should != (len(adds) == 1) or len(adds) > 1:
            bad.append('an item with complete=%s, symbol-at-dot==sym=%s is carried over %d time(s)' % (complete, sym_eq, len(adds)))
        for e in adds:
            _s, pidx, dot, ctx = e[3]
            if item_comp(pidx) != (0, 0, 0):
                bad.append('the carried-over item does not keep its production')
            if item_comp(ctx) != (0, 1):
                bad.append('the carried-over item does not keep its own context')
            addc = [x for x in subterms(dot) if is_call(x, 'add') and 'arith' in x[1]]
            if not (addc and has_call(addc[0], 'one') and any(item_comp(y) == (0, 0, 1) for y in subterms(addc[0]) if isinstance(y, tuple) and y and y[0] == 'field')):
                bad.append('the dot of the carried-over item is not its old dot + 1 (%s)' % fmt_term(dot)[:70])
    if (False, True, 1) not in rows:
        bad.append('no path carries an item over')
    if bad:
        res.bad(R, 'goto-table', loc_of(b), '; '.join(sorted(set(bad))[:3]))
    else:
        res.ok(R, 'goto-table', loc_of(b), 'carried over iff incomplete and prod[dot] == sym; same production, dot + 1, same context (%d cycle paths)' % len(ps))


def r14(facts, res):
    R = 'R1.4'
    b = one_fn(facts, R, res, 'lrtable::pager::pager_stategraph')
    if b is None:
        return
    loops = b.loops()
    gts = [(bb, t) for bb, t in b.calls_named('goto') if 'Itemset' in (cpath(t) or '')]
    if len(gts) != 1:
        res.lost(R, 'expected one Itemset::goto call in pager_stategraph, found %d' % len(gts))
        return
    gbb = gts[0][0]
    h = min((x for x in loops if gbb in loops[x]), key=lambda x: len(loops[x]))
    ps = [p for p in Walker(b, facts, max_paths=512).run(h, stop=lambda x: x not in loops[h]) if p.end[0] == 'loop']
    if not ps:
        res.lost(R, 'no cycle through the successor loop')
        return
    bad = []
    npush = 0
    # adaptor form: the loop draws `prod(item)[dot(item)]` of the INCOMPLETE items from `keys().filter(..).map(..)`
    adaptor = False
    nxts = [(bb, t) for bb, t in b.calls_named('next', loops[h]) if 'Map<' in (callee_of(t).get('self_ty') or '') and 'Filter<' in (callee_of(t).get('self_ty') or '')]
    if len(nxts) == 1:
        okf = okm = False

        def pcomp(t):
            # which component of the closure's item parameter (pidx = 0, dot = 1), as (0, k) like item_comp
            x = t
            for _ in range(8):
                if isinstance(x, tuple) and x and x[0] in ('ref', 'deref'):
                    x = x[1]
                elif isinstance(x, tuple) and x and x[0] == 'conv':
                    x = x[2]
                else:
                    break
            if isinstance(x, tuple) and x and x[0] == 'field':
                y = x[1]
                while isinstance(y, tuple) and y and y[0] in ('ref', 'deref'):
                    y = y[1]
                if y == ('param', 2):
                    return (0, x[2])
            return None
        for c in facts.closures_of(b, recursive=False):
            cps = [p for p in Walker(c, facts, max_paths=16).run() if p.end[0] == 'return']
            if len(cps) != 1:
                continue
            r = cps[0].end[1]
            if c.lty(0) == 'bool' and r[0] == 'bin' and r[1] in ('Ne', 'Lt', 'Gt') and has_call(r, 'prod_len'):
                sides = [r[2], r[3]]
                pl = [x for x in sides if has_call(x, 'prod_len')]
                ot = [x for x in sides if not has_call(x, 'prod_len')]
                if pl and ot and pcomp(pl[0][2][1] if is_call(pl[0], 'prod_len') else find_calls(pl[0], 'prod_len')[0][2][1]) == (0, 0) and pcomp(ot[0]) == (0, 1) \
                        and (r[1] == 'Ne' or (r[1] == 'Lt' and not has_call(r[2], 'prod_len')) or (r[1] == 'Gt' and has_call(r[2], 'prod_len'))):
                    okf = True
            if 'Symbol' in c.lty(0):
                ixs = [x for x in subterms(r) if isinstance(x, tuple) and x and x[0] == 'index']
                ixs += [('index', x[2][0], x[2][1]) for x in subterms(r) if is_call(x, 'index') and len(x[2]) == 2]
                if ixs and has_call(ixs[0][1], 'prod') and pcomp(ixs[0][2]) == (0, 1) and pcomp([x for x in subterms(ixs[0][1]) if is_call(x, 'prod')][0][2][1]) == (0, 0):
                    okm = True
        adaptor = okf and okm
    for p in ps:
        complete = False if adaptor else None
        seen = None
        for c, v in p.conds:
            if adaptor and isinstance(v, int) and is_call(c, 'set') and 'Vob' in c[1] and len(c[2]) == 3 and c[2][2] == ('const', 1):
                seen = (v == 0)       # Vob::set answers whether the bit changed: false = it was set already
            if c[0] == 'bin' and c[1] in ('Eq', 'Ne') and has_call(c, 'prod_len') and isinstance(v, int):
                complete = (v == 1) if c[1] == 'Eq' else (v == 0)
            # seen bit: index into a Vob yields bool
            if isinstance(v, int) and (is_call(strip_ref(c), 'index') or (c[0] == 'deref' and is_call(strip_ref(c[1]), 'index'))) and 'Vob' in fmt_term(c)[:400] + str(c)[:2000]:
                seen = (v == 1)
        gcalls = [e for e in p.events if e[0] == 'call' and e[1] == gbb]
        pushes = [e for e in p.calls(name='push') if find_calls(e[3][1], 'goto')]
        if complete is False and seen is False:
            if len(gcalls) != 1 or len(pushes) != 1:
                bad.append('an incomplete item whose symbol has not been handled yet gets %d goto / %d successor entries' % (len(gcalls), len(pushes)))
                continue
            npush += 1
            sym = gcalls[0][3][2]
            ixs = [x for x in subterms(sym) if isinstance(x, tuple) and x and x[0] == 'index']
            if adaptor:
                if not term_has(sym, lambda x: is_call(x, 'next')):
                    bad.append('goto is not taken on the symbol drawn from the item iterator (%s)' % fmt_term(sym)[:70])
            elif not (ixs and has_call(ixs[0][1], 'prod') and item_comp(ixs[0][2]) == (0, 1)
                    and item_comp([x for x in subterms(ixs[0][1]) if is_call(x, 'prod')][0][2][1]) == (0, 0)):
                bad.append('goto is not taken on prod(item)[dot(item)] (%s)' % fmt_term(sym)[:70])
            tup = pushes[0][3][1]
            if not (tup[0] == 'tuple' and strip_ref(tup[1][0]) == strip_ref(sym)) and not term_has(tup, lambda x: strip_ref(x) == strip_ref(sym)):
                bad.append('the successor is not recorded under the symbol it was computed for')
            sets = [e for e in p.calls(name='set') if 'Vob' in (e[2].get('self_ty') or e[2]['path']) and e[3][2] == ('const', 1)]
            if len(sets) != 1:
                bad.append('the symbol is not marked as handled when its successor is computed')
        elif gcalls or pushes:
            bad.append('a successor is computed for an item that is complete or whose symbol was already handled')
    # handled bits cleared per state: set_all(false) on both seen vobs in the enclosing loop but outside the item loop
    outer = [x for x in loops if h in loops[x] and x != h]
    clears = [bb for bb, t in b.calls_named('set_all') if outer and bb in loops[min(outer, key=lambda x: len(loops[x]))] and bb not in loops[h]]
    if len(clears) < 2:
        bad.append('the "symbol already handled" bits are not cleared for each state (%d set_all calls before the item loop)' % len(clears))
    if npush < 2:
        bad.append('expected a successor path for rule symbols and one for token symbols, found %d' % npush)
    if bad:
        res.bad(R, 'successors', loc_of(b, h), '; '.join(sorted(set(bad))[:3]))
    else:
        res.ok(R, 'successors', loc_of(b, h), 'every incomplete item whose symbol is new for this state gets goto(prod[dot]) recorded under that symbol (%d such paths of %d); handled bits cleared per state' % (npush, len(ps)))


def r15(facts, res):
    """The look-ahead set handed to the items of the rule behind the dot is ACCUMULATED over the symbols after the dot: FIRST of
    every leading nullable rule, then the first token / FIRST of the first non-nullable rule, plus the item's own context when
    everything was nullable.  Between its reset and its use the scratch set may only grow (`or`, `set(.., true)`); a write
    that replaces it (clone_from, assignment, and, a second reset inside the accumulation) drops what was collected before."""
    R = 'R1.5'
    bs = [b for b in facts.lib_bodies(['lrtable']) if b.name == 'close' and 'Itemset' in (b.impl_of or '') and b.kind != 'closure']
    if len(bs) != 1:
        return res.lost(R, 'Itemset::close not found')
    b = bs[0]
    adds = [(bb, t) for bb, t in b.calls_named('add') if 'Itemset' in (cpath(t) or '') and len(t['args']) >= 4]
    if not adds:
        # the insertion written out (entry / or / insert): the scratch set is the Vob that is reset per item; it is used wherever it
        # is handed over by shared reference
        cands = {b.op_root(t['args'][0], stop_named=False)[0] for bb, t in b.calls_named('set_all') if t['args'] and 'Vob' in b.lty(b.op_root(t['args'][0], stop_named=False)[0] or 0)}
        if len(cands) != 1:
            return res.lost(R, 'no Itemset::add call in close and no single scratch set that is reset')
        ctx0 = list(cands)[0]
        adds = [(bb, t) for bb, t in b.calls() if any(i > 0 and op_local(a) is not None and b.op_root(a, stop_named=False)[0] == ctx0 for i, a in enumerate(t['args']))]
        if not adds:
            return res.lost(R, 'the scratch look-ahead set of close is never handed on')
        ctx = ctx0
    else:
        ctx = b.op_root(adds[0][1]['args'][3], stop_named=False)[0]
    if ctx is None or 'Vob' not in b.lty(ctx):
        return res.lost(R, 'cannot identify the scratch look-ahead set of close')
    loops = b.loops()
    grows, resets, others = [], [], []
    for bb, t in b.calls():
        if not t['args'] or op_local(t['args'][0]) is None:
            continue
        if not b.lty(op_local(t['args'][0])).startswith('&mut ') or b.op_root(t['args'][0], stop_named=False)[0] != ctx:
            continue
        nm = cname(t)
        k = (op_const(t['args'][-1]) or {}).get('int') if len(t['args']) > 1 else None
        if nm == 'or' or (nm == 'set' and k == 1) or (nm == 'push' and k == 1):
            grows.append((bb, t))
        elif (nm == 'set_all' and k == 0) or nm == 'clear':
            resets.append((bb, t))
        elif nm in ('deref_mut', 'as_mut', 'borrow_mut', 'index_mut'):
            continue
        else:
            others.append((bb, t))
    for bb, _i, st in b.stmts():
        if st['k'] == 'assign' and st['lhs']['l'] == ctx and not st['lhs']['p'] and any(bb in loops[h] for h in loops):
            others.append((bb, {'callee': {'name': 'an assignment', 'path': 'assignment'}, 'line': st.get('line')}))
    bad = []
    for bb, t in others:
        bad.append('line %s: the look-ahead set being collected is overwritten by `%s`: what the symbols before contributed is lost' % (t.get('line'), (t.get('callee') or {}).get('name', '?')))
    # after something was collected, no reset may come before the set is used (or the next item is taken up)
    use_blocks = {bb for bb, _t in adds}
    for rb, rt in resets:
        both = [h for h in loops if rb in loops[h] and any(u in loops[h] for u in use_blocks)]
        h_item = min(both, key=lambda x: len(loops[x])) if both else None
        avoid = set(use_blocks) | ({h_item} if h_item is not None else set())
        # ... and the reset itself is followed by a use of the same item (a reset after the last use only prepares the next item)
        hi = {h_item} if h_item is not None else set()
        used_after = any(u in b.reachable(starts=b.succs(rb), avoid=hi) for u in use_blocks)
        for g, _gt in grows:
            if used_after and rb in b.reachable(starts=b.succs(g), avoid=avoid):
                bad.append('line %s: the look-ahead set is reset after something was collected into it and before it is used' % rt.get('line'))
                break
    if not grows or not resets:
        return res.lost(R, 'the scratch look-ahead set of close is never reset or never grown (resets %d, grows %d)' % (len(resets), len(grows)))
    if bad:
        res.bad(R, 'context-accumulates', loc_of(b, (others or resets)[0][0]), '; '.join(sorted(set(bad))[:2]))
    else:
        res.ok(R, 'context-accumulates', loc_of(b, resets[0][0]), 'between its reset and its use the look-ahead set only grows (%d or/set sites, %d reset)' % (len(grows), len(resets)))


def r16(facts, res, R='R1.6'):
    """`Itemset::add` reports whether the item set changed: true for a new item, and for an existing item exactly what merging
    the context into it reports (`Vob::or` answers whether a bit was added).  The closure's work list and the pager's
    re-processing both rely on that answer: an `add` that says "unchanged" for an item whose look-ahead grew never passes the
    new look-aheads on to the items derived from it (seeded change C04-add-reports-no-change-on-growth - invisible for grammars
    written top-down, the item is then still on the work list when it grows)."""
    bs = [b for b in facts.lib_bodies(['lrtable']) if b.name == 'add' and b.kind != 'closure' and 'itemset::Itemset' in b.path]
    if len(bs) != 1:
        return res.lost(R, 'Itemset::add not found (%d)' % len(bs))
    b = bs[0]
    ps = [p for p in Walker(b, facts, max_paths=256).run() if p.end[0] == 'return']
    if not ps:
        return res.lost(R, 'Itemset::add: no returning path')
    # Necessary condition only: an answer is either `true` (over-reporting costs work, not correctness) or carries what a
    # context merge performed on that very path reported; `false`, or anything else, on any path is a change that can go unreported.
    bad, ntrue, nmerge = [], 0, 0
    for p in ps:
        r = p.end[1]
        ors = [e for e in p.calls() if (e[2] or {}).get('name') in ('or', 'bitor_assign', 'union')]
        if r == ('const', 1):
            ntrue += 1
        elif any(term_has(r, lambda y, t=e[5]: y == t) for e in ors):
            nmerge += 1
        else:
            bad.append('a path answers %s: neither true nor what a context merge on that path reported' % fmt_term(r)[:60])
    key = 'add-reports-change'
    if bad:
        res.bad(R, key, loc_of(b), '; '.join(sorted(set(bad))[:2]) + ' - an item whose look-ahead grew is reported unchanged', {'function': b.path})
    elif not nmerge:
        res.bad(R, key, loc_of(b), 'no path merges the context into an existing item and answers with the merge\'s result', {'function': b.path})
    else:
        res.ok(R, key, loc_of(b), 'every answer is true (%d paths) or the answer of merging the context into the existing item (%d paths)' % (ntrue, nmerge))


def run(facts, res):
    r15(facts, res)
    r16(facts, res)
    r11(facts, res)
    r12(facts, res)
    r13(facts, res)
    r14(facts, res)
