"""C18 An incremental compile-time build always ends in the state a clean build would (DESIGN.md §4 C18).

R18.1 the cache key covers every builder setting the generator reads
R18.2 skip decision table of CTParserBuilder::build
R18.3 delete-before-regenerate
R18.4 no failing exit keeps an old output (both builders)
R18.5 lexer rewrite rule (file re-created only when content cannot be read or differs)
"""
from mirlib import *

META = {
    'level': 'other',
    'explanation': 'R18.1: fields of CTParserBuilder read by code generation (cone of output_file) or by build() after the skip '
                   'decision must be read by rebuild_cache (whose token string is what the skip decision compares), except an '
                   'explicit exempt list with reasons. R18.2: the `regenerated: false` exit is reachable only when both '
                   'metadata reads succeed, mtime(output) > mtime(grammar) with that orientation, the output can be read and '
                   'contains the cache string. R18.3: remove_file(output) dominates table construction and code generation. '
                   'R18.4: once a builder has claimed its output path, every failing exit (Err return, `?`, explicit panic) is '
                   'preceded by removal of the output - directly, or by the Drop of a guard that owns the path and is disarmed '
                   'only immediately before Ok exits (the guard also covers unwinding). R18.5: the lexer re-creates its file '
                   'only when the old content cannot be read or differs. NOT decided: equality with a clean build across '
                   'arbitrary file-system histories and clock granularity.',
}

PB = 'lrpar::ctbuilder::CTParserBuilder<'
LB = 'lrlex::ctbuilder::CTLexerBuilder<'
PATH_THROUGH = Body.THROUGH + ('expect', 'unwrap', 'as_ref', 'as_path', 'as_os_str', 'to_path_buf')

EXEMPT = {
    'output_path': 'location of the output only: it is used to create/read/remove the file, never to shape its text; a different path is a different file',
    'phantom': 'PhantomData: no value; the type parameters it stands for are checked by R18.7',
    'inspect_callback': 'field exists only under cfg(test)',
    'grammar_path': None,  # placeholder, must be covered (never exempt)
}
# NOT exempt (each was, until an audit of this table): `inspect_rt` - the callback can fail the build (CTLexerBuilder installs
# one that runs the grammar's test_files through lexer and parser) and is not called on the skip path; `grammar_src` and
# `from_ast` - in-memory sources that bypass the grammar file (setters exist only with feature _unstable_api).  All three are
# genuine ways to end in a state a clean build would not produce; they are recorded as known findings, not excused.


def self_fields(b, names):
    """fields of the builder read through `self` in body b (incl. closure captures by name)"""
    out = set()

    def scan_place(pl):
        pr = pl['p']
        for i, q in enumerate(pr):
            if isinstance(q, dict) and 'f' in q and q.get('name') in names:
                # must be reached from local 1 (self / closure env)
                if pl['l'] == 1 or b.kind == 'closure':
                    out.add(q['name'])
                else:
                    # a local that is a copy/reborrow of self
                    r, _p, _v = b.root(pl['l'], through=())
                    if r == 1:
                        out.add(q['name'])
    for bb in sorted(b.reachable()):
        for st in b.blocks[bb]['stmts']:
            if st['k'] != 'assign':
                continue
            rv = st['rv']
            for k in ('ref', 'rawptr', 'discr', 'len'):
                if k in rv:
                    scan_place(rv[k])
            for o in rv_operands(rv):
                pl = op_place(o)
                if pl:
                    scan_place(pl)
        t = b.term(bb)
        if t['k'] == 'call':
            for a in t['args']:
                pl = op_place(a)
                if pl:
                    scan_place(pl)
        if t['k'] == 'switch':
            pl = op_place(t['on'])
            if pl:
                scan_place(pl)
    return out


def r181(facts, res):
    R = 'R18.1'
    adt = facts.adt('lrpar::ctbuilder::CTParserBuilder')
    if not adt:
        res.lost(R, 'CTParserBuilder ADT not found')
        return
    names = {f['name'] for f in adt['variants'][0]['fields']}
    res.floor(R, 'CTParserBuilder fields', len(names), 14)
    rc = facts.one(R, 'CTParserBuilder::rebuild_cache', crate='lrpar', name='rebuild_cache', impl_re='^' + PB.replace('<', '<'))
    A = self_fields(rc, names)
    for c in facts.closures_of(rc):
        A |= self_fields(c, names)
    cg = CallGraph(facts, ['lrpar'])
    of = facts.one(R, 'CTParserBuilder::output_file', crate='lrpar', name='output_file', impl_re='^' + PB)
    cone = cg.cone([of.path])
    B = {}
    for p in sorted(cone):
        fb = cg.bodies[p]
        if not ((fb.impl_of or '').startswith(PB) or (fb.kind == 'closure' and (fb.root_parent or '') in cone)):
            continue
        if fb.kind == 'closure':
            rp = cg.bodies.get(fb.root_parent)
            if rp is None or not (rp.impl_of or '').startswith(PB):
                continue
        for f in self_fields(fb, names):
            B.setdefault(f, strip_generics(fb.path).split('::')[-1])
    b = facts.one(R, 'CTParserBuilder::build', crate='lrpar', name='build', impl_re='^' + PB)
    rms = [bb for bb, t in b.calls_named('remove_file')]
    if rms:
        after = b.reachable([rms[0]])
        sub = self_fields_blocks(b, names, after)
        for f in sub:
            B.setdefault(f, 'build (after the skip decision)')
    # ... and everything build() reads BEFORE the skip decision as well: what is read there shapes the grammar object that is
    # compiled (in-memory sources instead of the file whose age the skip decision looks at, the yacc kind, ...)
    for f in self_fields(b, names):
        B.setdefault(f, 'build (before the skip decision)')
    res.count('R18.1 fields read by code generation', len(B))
    res.count('R18.1 fields in the cache key', len(A))
    for f in sorted(B):
        key = 'field:' + f
        if f in A:
            res.ok(R, key, loc_of(rc), 'read by %s and part of the cache key' % B[f])
        elif EXEMPT.get(f):
            res.ok(R, key, loc_of(rc), 'read by %s; exempt: %s' % (B[f], EXEMPT[f]))
        else:
            res.bad(R, key, loc_of(rc), 'builder setting `%s` is read by %s but is not part of the cache key: changing it does not cause regeneration' % (f, B[f]))
    if len(B) < 6:
        res.lost(R, 'only %d builder fields found in the code generator: field tracking lost' % len(B))


def r187(facts, res):
    """type parameters of the builder that the generated code NAMES (core::any::type_name::<T>() in the cone of output_file)
    are part of the cache key too (type_name::<T>() in rebuild_cache): with another StorageT / LexerTypesT a clean build emits
    different text, so an unchanged grammar must not be taken for an unchanged configuration"""
    R = 'R18.7'
    import re as _re
    rc = facts.one(R, 'CTParserBuilder::rebuild_cache', crate='lrpar', name='rebuild_cache', impl_re='^' + PB)
    of = facts.one(R, 'CTParserBuilder::output_file', crate='lrpar', name='output_file', impl_re='^' + PB)
    cg = CallGraph(facts, ['lrpar'])
    cone = cg.cone([of.path])
    def params_of(bodies):
        out = {}
        for fb in bodies:
            for bb, t in fb.calls_named('type_name'):
                c = callee_of(t)
                if not c or not c['path'].startswith('core::any::type_name'):
                    continue
                for a in c.get('args') or []:
                    # base generic parameters mentioned: `StorageT`, `<LexerTypesT as ..>::LexemeT` -> LexerTypesT
                    for m in _re.finditer(r'(?<![\w:])([A-Z][A-Za-z0-9]*T)(?![\w:])', a):
                        if '::' + m.group(1) in a and not a.startswith(m.group(1)) and ('<' + m.group(1) + ' as') not in a:
                            continue
                        out.setdefault(m.group(1), (fb, bb))
        return out
    gen_bodies = [cg.bodies[p] for p in sorted(cone) if (cg.bodies[p].impl_of or '').startswith(PB) or cg.bodies[p].kind == 'closure']
    G = params_of(gen_bodies)
    K = params_of([rc] + list(facts.closures_of(rc)))
    res.floor(R, 'type parameters named by the generated code', len(G), 2)
    for tp in sorted(G):
        fb, bb = G[tp]
        key = 'type-param:' + tp
        if tp in K:
            res.ok(R, key, loc_of(rc), 'named by the generated code (%s) and part of the cache key' % strip_generics(fb.path).split('::')[-1])
        else:
            res.bad(R, key, loc_of(fb, bb), 'the generated code spells out type parameter `%s` (type_name in %s) but the cache key does not: building the same grammar with '
                    'another `%s` reports "not regenerated" and leaves the module generated for the old type in place' % (tp, strip_generics(fb.path).split('::')[-1], tp))


def r188(facts, res):
    """Settings that are enums reach the cache key (and the generated code) through small rendering functions (`to_variant_tokens`,
    `ToTokens::to_tokens`).  The rendering must be injective: different variants push different token sequences, and a variant
    that carries data renders that data (its payload is read on its path) - otherwise two different settings produce the same
    cache key and a change of setting is taken for "nothing changed"."""
    R = 'R18.8'
    n = 0
    for b in facts.lib_bodies(['lrpar', 'cfgrammar']):
        if b.from_expansion or b.name not in ('to_tokens', 'to_variant_tokens'):
            continue
        adt = facts.adts.get((b.impl_of or '').split('<')[0])
        if not adt or adt['kind'] != 'enum':
            continue
        n += 1
        key = 'render:%s::%s' % (adt['path'] if 'path' in adt else (b.impl_of or '').split('<')[0], b.name)
        vn = {v['discr']: v for v in adt['variants']}
        per = {}
        bad = []
        for p in Walker(b, facts, max_paths=512).run(0):
            if p.end[0] != 'return':
                continue
            dv = [v for c, v in p.conds if c[0] == 'discr' and term_has(c, lambda x: x == ('param', 1)) and isinstance(v, int)]
            if not dv or dv[0] not in vn:
                continue
            var = vn[dv[0]]
            seq = tuple((e[2]['name'], tuple(a[1] for a in e[3] if is_const(a) and isinstance(a[1], str))) for e in p.events
                        if e[0] == 'call' and e[2] and e[2]['name'].startswith('push'))
            per.setdefault(var['name'], set()).add(seq)
            if var['fields']:
                reads = any(term_has(a, lambda x: isinstance(x, tuple) and len(x) > 3 and x[0] == 'downcast' and x[3] == var['name'])
                            for e in p.events if e[0] == 'call' for a in e[3]) or \
                    any(term_has(c, lambda x: isinstance(x, tuple) and len(x) > 3 and x[0] == 'downcast' and x[3] == var['name']) for c, v in p.conds)
                if not reads:
                    bad.append('variant %s carries data (%s) but its rendering does not use it: settings that differ only there get the same cache key' % (
                        var['name'], ', '.join(f['ty'][:40] for f in var['fields'])))
        missing = [v['name'] for v in adt['variants'] if v['name'] not in per]
        if missing:
            bad.append('no rendering path found for variant(s) %s' % missing)
        seqs = {}
        for name, ss in per.items():
            for sq in ss:
                seqs.setdefault(sq, set()).add(name)
        for sq, names in seqs.items():
            if len(names) > 1 and not all(vn_['fields'] for vn_ in adt['variants'] if vn_['name'] in names):
                bad.append('variants %s are rendered by the same token sequence' % sorted(names))
        if bad:
            res.bad(R, key, loc_of(b), '; '.join(sorted(set(bad))[:2]), {'function': b.path})
        else:
            res.ok(R, key, loc_of(b), '%d variants, pairwise different renderings, payloads rendered' % len(adt['variants']))
    res.floor(R, 'enum rendering functions', n, 5)


def self_fields_blocks(b, names, blocks):
    out = set()
    for bb in blocks:
        for st in b.blocks[bb]['stmts']:
            if st['k'] != 'assign':
                continue
            rv = st['rv']
            pls = [rv[k] for k in ('ref', 'rawptr', 'discr', 'len') if k in rv] + [op_place(o) for o in rv_operands(rv)]
            for pl in pls:
                if pl and pl['l'] == 1:
                    for q in pl['p']:
                        if isinstance(q, dict) and q.get('name') in names:
                            out.add(q['name'])
    return out


def is_path_of(b, op, field):
    r, projs, via = b.op_root(op, through=PATH_THROUGH, stop_named=False)
    for pl in projs:
        for q in pl:
            if isinstance(q, dict) and q.get('name') == field:
                return True
    return False


def r182(facts, res):
    R = 'R18.2'
    b = facts.one(R, 'CTParserBuilder::build', crate='lrpar', name='build', impl_re='^' + PB)
    rcs = b.calls_named('rebuild_cache')
    if len(rcs) != 1:
        res.lost(R, 'expected one rebuild_cache call in build')
        return
    # the `regenerated: false` literal
    skip_blocks = []
    for bb, i, st in b.stmts():
        if st['k'] == 'assign' and 'agg' in st['rv'] and isinstance(st['rv']['agg'], dict) and st['rv']['agg'].get('adt', '').endswith('ctbuilder::CTParser'):
            ops = st['rv']['ops']
            adt = facts.adt(st['rv']['agg']['adt'])
            fn = [f['name'] for f in adt['variants'][0]['fields']]
            ri = fn.index('regenerated')
            c = ops[ri].get('const')
            if c is not None and c.get('int') == 0:
                skip_blocks.append(bb)
    if len(skip_blocks) != 1:
        res.lost(R, 'expected one `regenerated: false` result, found %d' % len(skip_blocks))
        return
    sb = skip_blocks[0]
    rms = {bb for bb, t in b.calls_named('remove_file')}
    headers = set(b.loops())
    w = Walker(b, facts, max_paths=4096)
    ps = w.run(rcs[0][0], stop=lambda x: x in rms or x in headers or x == sb)
    if w.overflow:
        res.lost(R, 'path bound exceeded')
        return
    to_skip = [p for p in ps if p.end == ('stop', sb)]
    if not to_skip:
        res.bad(R, 'skip/unreachable', loc_of(b, sb), 'the not-regenerated result is unreachable from the cache computation')
        return
    need = {'in-meta': False, 'out-meta': False, 'newer': False, 'readable': False, 'contains': False}
    allok = True
    why = ''
    for p in to_skip:
        got = dict.fromkeys(need, False)
        for c, v in p.conds:
            # see through `?` and Result::ok(): discr(branch(x)) == Continue, discr(ok(r)) == Some say that the call inside succeeded
            if c[0] == 'discr' and isinstance(v, int):
                t0, succ = c[1], None
                for _ in range(4):
                    if t0[0] == 'call' and strip_generics(t0[1]).endswith('::branch') and t0[2]:
                        succ = (v == 0) if succ is None else succ
                        t0 = strip_ref(t0[2][0])
                    elif t0[0] == 'call' and strip_generics(t0[1]).endswith('Result::ok') and t0[2]:
                        succ = (v == 1) if succ is None else succ
                        t0 = strip_ref(t0[2][0])
                    else:
                        break
                if succ is True and t0 is not c[1] and t0[0] == 'call':
                    c, v = ('discr', t0), 0
            if c[0] == 'discr' and c[1][0] == 'call' and strip_generics(c[1][1]).endswith('fs::metadata'):
                # which path?  find the call event
                for e in p.calls(name='metadata'):
                    if e[5] == c[1]:
                        t = b.term(e[1])
                        if is_path_of(b, t['args'][0], 'grammar_path') and v == 0:
                            got['in-meta'] = True
                        if is_path_of(b, t['args'][0], 'output_path') and v == 0:
                            got['out-meta'] = True
            elif c[0] == 'bin' and c[1] in ('Lt', 'Le'):
                # Lt(a, b) == 1  means a < b: need time(grammar) < time(output)
                def which(t):
                    for x in subterms(t):
                        if isinstance(x, tuple) and x and x[0] == 'call' and strip_generics(x[1]).endswith('fs::metadata'):
                            for e in p.calls(name='metadata'):
                                if e[5] == x:
                                    tt = b.term(e[1])
                                    if is_path_of(b, tt['args'][0], 'grammar_path'):
                                        return 'in'
                                    if is_path_of(b, tt['args'][0], 'output_path'):
                                        return 'out'
                    return None
                a, d = which(c[2]), which(c[3])
                if (a, d) == ('in', 'out') and v == 1 and c[1] == 'Lt':
                    got['newer'] = True
                elif (a, d) == ('out', 'in') and v == 0 and c[1] == 'Le':
                    got['newer'] = True
                elif a and d:
                    why = 'mtime comparison has the wrong orientation or strictness: %s == %s' % (fmt_term(c)[:120], v)
            elif c[0] == 'discr' and c[1][0] == 'call' and strip_generics(c[1][1]).endswith('read_to_string') and v == 0:
                got['readable'] = True
            elif c[0] == 'call' and strip_generics(c[1]).endswith('::contains') and v == 1:
                if any(x[0] == 'call' and 'rebuild_cache' in x[1] for x in subterms(c) if isinstance(x, tuple) and x):
                    got['contains'] = True
                else:
                    why = 'the output is not searched for the cache string computed by rebuild_cache'
        if not all(got.values()):
            allok = False
            why = why or 'a path skips regeneration without: %s' % [k for k, v in got.items() if not v]
    if allok:
        res.ok(R, 'skip/conditions', loc_of(b, sb), 'not regenerated only if both files exist, output is strictly newer than the grammar, readable and contains the cache string (%d paths)' % len(to_skip))
    else:
        res.bad(R, 'skip/conditions', loc_of(b, sb), why)


def exits(b):
    """(err sites, ok sites, explicit diverging calls): blocks assigning the return place / diverging"""
    errs, oks, divs = [], [], []
    for bb in sorted(b.reachable()):
        for st in b.blocks[bb]['stmts']:
            if st['k'] == 'assign' and st['lhs']['l'] == 0 and not st['lhs']['p'] and 'agg' in st['rv'] and isinstance(st['rv']['agg'], dict) \
                    and st['rv']['agg'].get('adt') == 'core::result::Result':
                (errs if st['rv']['agg']['vname'] == 'Err' else oks).append(bb)
        t = b.term(bb)
        if t['k'] == 'call':
            if t['dest']['l'] == 0 and not t['dest']['p'] and cname(t) == 'from_residual':
                errs.append(bb)
            if t['ret'] is None:
                divs.append(bb)
    return errs, oks, divs


def producer(b, bb):
    """what produced the failure that leaves at block bb"""
    t = b.term(bb)
    if t['k'] == 'call' and cname(t) == 'from_residual':
        r, _p, _v = b.op_root(t['args'][0], through=())
        # payload of `branch(X)`
        for pl in [op_place(t['args'][0])]:
            pass
        seen = set()
        l = op_local(t['args'][0])
        for _ in range(6):
            if l is None or l in seen:
                break
            seen.add(l)
            ds = b.defs().get(l, [])
            if len(ds) != 1:
                break
            if ds[0][1] == 'call':
                nm = cname(ds[0][2])
                if nm == 'branch':
                    l2 = op_local(ds[0][2]['args'][0])
                    dd = b.defs().get(l2, [])
                    if len(dd) == 1 and dd[0][1] == 'call':
                        return '?-on-' + (cname(dd[0][2]) or 'call')
                    l = l2
                    continue
                return '?-on-' + (nm or 'call')
            rv = ds[0][2]
            pl = op_place(rv['use']) if 'use' in rv else None
            l = pl['l'] if pl else None
        return '?'
    if t['k'] == 'call' and t['ret'] is None:
        return 'panic'
    return 'Err-return'


# R18.8's instances are the functions that render an enum setting: inlining such a function into its caller removes the instance, not
# the defect (seeded change C18-visibility-path-not-in-cache), so the rule is decided on the program as written only
NO_INLINE_VIEW = {'R18.8'}


def guard_info(facts, b):
    """locals with a Drop impl whose body removes a file: [(local, creation block, path-operand ok?, disarm blocks)]"""
    out = []
    seen = set()
    GUARD_DROP_PROBLEM.clear()
    for bb in sorted(b.reachable() | {i for i in range(len(b.blocks))}):
        t = b.blocks[bb]['term']
        if t['k'] != 'drop' or not t.get('drop_impl'):
            continue
        l = t['place']['l']
        if l in seen or t['place']['p']:
            continue
        db = facts.body(t['drop_impl'])
        if db is None or not db.calls_named('remove_file'):
            continue
        seen.add(l)
        create = None
        path_ok = False
        gty = b.lty(l)
        for b2, i, st in b.stmts():
            if st['k'] == 'assign' and pkey(st['lhs']) == (l, ()) and 'agg' in st['rv']:
                create = b2
                path_ok = any(is_path_of(b, o, 'output_path') for o in st['rv']['ops'])
                # the guard must start out ARMED: its disarm flag is the constant false in the literal
                if any((o.get('const') or {}).get('ty') == 'bool' and (o.get('const') or {}).get('int') == 1 for o in st['rv']['ops']):
                    GUARD_DROP_PROBLEM[l] = 'the guard is created already disarmed (its keep flag is true from the start): no failing exit removes the output'
            elif st['k'] == 'assign' and pkey(st['lhs']) == (l, ()) and 'use' in st['rv'] and op_local(st['rv']['use']) is not None:
                # `guard = move tmp` with `tmp = Guard { .. }` (a constructor inlined by hand or by the engine)
                for b3, kind, rv in b.defs().get(op_local(st['rv']['use']), ()):
                    if kind == 'stmt' and 'agg' in rv:
                        create = b2
                        path_ok = any(is_path_of(b, o, 'output_path') or (op_local(o) is not None and any(kind2 == 'stmt' and 'use' in rv2 and is_path_of(b, rv2['use'], 'output_path')
                                                                                                        for _b4, kind2, rv2 in b.defs().get(op_local(o), ()))) for o in rv['ops'])
        # a constructor function: the guard is the result of a call whose body returns the aggregate built from its parameters
        for b2, kind, t2 in b.defs().get(l, ()):
            if kind != 'call' or create is not None:
                continue
            cbd = facts.body(cpath(t2) or '')
            if cbd is None or not cbd.lty(0).split('<')[0] == gty.split('<')[0]:
                continue
            aggs = [st for _b3, _i, st in cbd.stmts() if st['k'] == 'assign' and 'agg' in st['rv'] and isinstance(st['rv']['agg'], dict) and st['rv']['agg'].get('adt', '').split('<')[0] == gty.split('<')[0]]
            if len(aggs) == 1:
                create = b2
                # which parameter becomes the path field, and is the corresponding argument the output path?
                for o in aggs[0]['rv']['ops']:
                    r0 = cbd.op_root(o)[0]
                    if 1 <= r0 <= cbd.arg_count and r0 - 1 < len(t2['args']) and is_path_of(b, t2['args'][r0 - 1], 'output_path'):
                        path_ok = True
        disarm = []
        for b2, i, st in b.stmts():
            if st['k'] == 'assign' and st['lhs']['l'] == l and st['lhs']['p']:
                disarm.append(b2)
            elif st['k'] == 'assign' and st['lhs']['p'] and st['lhs']['p'][0] == 'deref' and len(st['lhs']['p']) > 1 and b.root(st['lhs']['l'], stop_named=True)[0] == l:
                disarm.append(b2)       # through `&mut guard` (a disarm method inlined)
        # a disarm method: a call handing over `&mut guard` to a function of the guard's type that stores into one of its fields
        for b2, t2 in b.calls():
            if not t2['args'] or t2['k'] != 'call':
                continue
            a0 = t2['args'][0]
            la = op_local(a0)
            if la is None or not b.lty(la).startswith('&mut ') or b.op_root(a0)[0] != l:
                continue
            mbd = facts.body(cpath(t2) or '')
            if mbd is not None and any(st['k'] == 'assign' and st['lhs']['l'] == 1 and st['lhs']['p'] and st['lhs']['p'][0] == 'deref' and len(st['lhs']['p']) > 1
                                       for _b3, _i, st in mbd.stmts()):
                disarm.append(b2)
        # a consuming disarm method: `fn commit(mut self) { self.keep = true }` - the guard is handed over by value, the method stores
        # into a field of it and lets it drop
        consuming = set()
        for b2, t2 in b.calls():
            if t2['args'] and 'move' in t2['args'][0] and not t2['args'][0]['move']['p'] and b.op_root(t2['args'][0])[0] == l \
                    and not b.lty(t2['args'][0]['move']['l']).startswith('&'):
                mbd = facts.body(cpath(t2) or '')
                if mbd is not None and any(st['k'] == 'assign' and st['lhs']['l'] == 1 and st['lhs']['p'] and st['lhs']['p'][0] != 'deref'
                                           and (op_const(st['rv'].get('use', {})) or {}).get('int') == 1 for _b3, _i, st in mbd.stmts()):
                    disarm.append(b2)
                    consuming.add(b2)
        moved = False
        for b2, t2 in b.calls():
            if b2 in consuming:
                continue
            for a in t2['args']:
                if 'move' in a and a['move']['l'] == l and not a['move']['p']:
                    moved = True
        out.append((l, create, path_ok, disarm, moved))
        GUARD_DROP_PROBLEM[l] = GUARD_DROP_PROBLEM.get(l) or drop_problem(facts, db)
    return out


GUARD_DROP_PROBLEM = {}


def drop_problem(facts, db):
    """the guard's Drop removes the file on EVERY path on which the guard is still armed: a path through drop() that does not
    call remove_file must be decided by the guard's own fields alone (its disarm flag), never by anything else - the state of
    the thread (panicking()), the environment, the file system"""
    ps = [p for p in Walker(db, facts, max_paths=256).run(0) if p.end[0] == 'return']
    if not ps:
        return 'cannot enumerate the paths of the guard\'s drop()'
    for p in ps:
        if any(e[0] == 'call' and e[2] and e[2]['name'] == 'remove_file' for e in p.events):
            continue
        own = [c for c, v in p.conds if not term_has(c, lambda x: isinstance(x, tuple) and x and x[0] in ('call', 'icall'))
               and term_has(c, lambda x: x == ('param', 1))]
        foreign = [c for c, v in p.conds if term_has(c, lambda x: isinstance(x, tuple) and x and x[0] in ('call', 'icall'))]
        if foreign:
            return 'drop() skips the removal depending on %s, not only on the guard\'s own disarm flag: a failing exit taken in that situation keeps the old output' % fmt_term(foreign[0])[:70]
        if not own:
            return 'drop() has a path that does not remove the file and is not decided by the guard\'s disarm flag'
    return None


def r184_for(facts, res, R, b, label):
    claims = [(bb, t) for bb, t in b.calls_named('insert') if 'PathBuf' in (callee_of(t).get('self_ty') or '')]
    if len(claims) != 1:
        res.lost(R, '%s: expected one insertion into the generated-paths set, found %d' % (label, len(claims)))
        return
    cb = claims[0][0]
    errs, oks, divs = exits(b)
    after_claim = b.reachable(b.succs(cb))
    F = [x for x in errs + divs if x in after_claim]
    res.count('%s failing exit sites after the claim' % label, len(F))
    guards = guard_info(facts, b)
    if guards:
        l, create, path_ok, disarm, moved = guards[0]
        key = label + '/guard'
        problems = []
        if create is None:
            problems.append('guard is never constructed')
        if not path_ok:
            problems.append('guard does not own the builder\'s output path')
        if moved:
            problems.append('guard value is moved into a call (its Drop may not run here)')
        if GUARD_DROP_PROBLEM.get(l):
            problems.append(GUARD_DROP_PROBLEM[l])
        if create is not None:
            early = [x for x in F if x in b.reachable(b.succs(cb), avoid={create})]
            for x in early:
                problems.append('failing exit (%s, line %s) between claiming the path and arming the guard' % (producer(b, x), b.term(x).get('line')))
        for s in disarm:
            late = [x for x in errs + divs if x in b.reachable([s]) and x != s]
            # the disarming block itself may end in a call; anything failing after it is unprotected
            for x in late:
                problems.append('failing exit (%s, line %s) is reachable after the guard is disarmed at line %s'
                                % (producer(b, x), b.term(x).get('line'), b.term(s).get('line')))
            calls_after = [x for x in b.reachable([s]) if b.term(x)['k'] == 'call' and x != s and b.term(x)['ret'] is not None
                           and not (cname(b.term(x)) or '').startswith('drop')]
            later_calls = [x for x in calls_after if x != s]
            if later_calls:
                problems.append('calls that may unwind run after the guard is disarmed at line %s (e.g. %s at line %s)'
                                % (b.term(s).get('line'), cname(b.term(later_calls[0])), b.term(later_calls[0]).get('line')))
        if not disarm:
            problems.append('guard is never disarmed: a successful build would delete its own output')
        if problems:
            res.bad(R, key, loc_of(b, create if create is not None else cb), '; '.join(problems[:4]), {'function': b.path})
        else:
            res.ok(R, key, loc_of(b, create), 'a drop guard owning the output path is armed right after the claim and disarmed only immediately '
                                             'before Ok exits: all %d failing exits (and unwinding) remove the output' % len(F))
        return
    dels = {bb for bb, t in b.calls_named('remove_file') if is_path_of(b, t['args'][0], 'output_path')}
    unprotected = b.reachable(b.succs(cb), avoid=dels)
    bad = [x for x in F if x in unprotected]
    per = {}
    for x in bad:
        pr = producer(b, x)
        n = per.get(pr, 0)
        per[pr] = n + 1
        res.bad(R, '%s/exit:%s#%d' % (label, pr, n), loc_of(b, x),
                'failing exit reached without removing the output file: a build that fails here leaves the previously generated file in place',
                {'function': b.path, 'block': x})
    if not bad:
        res.ok(R, label + '/all-failing-exits', loc_of(b, cb), 'all %d failing exits after the claim are preceded by remove_file(output)' % len(F))


def r183(facts, res):
    R = 'R18.3'
    b = facts.one(R, 'CTParserBuilder::build', crate='lrpar', name='build', impl_re='^' + PB)
    dels = [bb for bb, t in b.calls_named('remove_file') if is_path_of(b, t['args'][0], 'output_path')]
    fy = b.calls_named('from_yacc')
    of = b.calls_named('output_file')
    if not fy or not of:
        res.lost(R, 'from_yacc / output_file calls not found in build')
        return
    if not dels:
        res.bad(R, 'delete-before-regenerate', loc_of(b, fy[0][0]), 'build never removes the old output file before regenerating')
        return
    ok = any(b.dominates(d, fy[0][0]) and b.dominates(d, of[0][0]) for d in dels)
    if ok:
        res.ok(R, 'delete-before-regenerate', loc_of(b, dels[0]), 'remove_file(output) dominates table construction and code generation')
    else:
        res.bad(R, 'delete-before-regenerate', loc_of(b, dels[0]), 'table construction or code generation can be reached without first removing the old output')


def r184(facts, res):
    R = 'R18.4'
    b = facts.one(R, 'CTParserBuilder::build', crate='lrpar', name='build', impl_re='^' + PB)
    r184_for(facts, res, R, b, 'parser-builder')
    lb = facts.one(R, 'CTLexerBuilder::build', crate='lrlex', name='build', impl_re='^' + LB)
    r184_for(facts, res, R, lb, 'lexer-builder')


def r1811(facts, res):
    """A build that fails BEFORE it has claimed its output path leaves whatever an earlier build generated in place.  That is right
    for exactly one refusal - "another builder of this process already generates to this path" must not delete that builder's
    file - and for assertions of the impossible.  Every other failing exit (a builder setting that is rejected, a conversion
    that fails) has to come after the claim, where the output guard removes the stale file."""
    R = 'R18.11'
    for crate, impl, label in (('lrpar', PB, 'parser-builder'), ('lrlex', LB, 'lexer-builder')):
        b = facts.one(R, impl, crate=crate, name='build', impl_re='^' + impl)
        claims = [(bb, t) for bb, t in b.calls_named('insert') if 'PathBuf' in (callee_of(t).get('self_ty') or '')]
        if len(claims) != 1:
            res.lost(R, '%s: expected one insertion into the generated-paths set, found %d' % (label, len(claims)))
            continue
        cb = claims[0][0]
        errs, oks, divs = exits(b)
        pre = b.reachable([0], avoid={cb})
        F0 = [x for x in errs + divs if x in pre]
        # the same-path refusal: control dependent on the membership test of the generated-paths set
        contains = [bb for bb, t in b.calls_named('contains') if 'PathBuf' in ((callee_of(t).get('self_ty') or '') + str(callee_of(t).get('args') or ''))]
        bad = []
        for x in F0:
            t = b.term(x)
            if t['k'] == 'call' and t['ret'] is None:
                # assertions of the impossible (unreachable!()) and a poisoned lock are not builds that fail on their input
                msg = ' '.join(str((op_const(a) or {}).get('str') or '') for a in t['args'])
                from c03 import const_str_of
                msg += ' '.join(str(const_str_of(b, a) or '') for a in t['args'])
                if 'unreachable' in msg or cname(t) in ('unreachable', 'unwrap_failed', 'expect_failed'):
                    continue
            deps = b.control_deps_pd(x) + b.control_deps(x)
            same_path = False
            for sb in deps:
                ol = op_local(b.term(sb)['on'])
                r_ = b.root(ol, through=('not',), stop_named=False)[0] if ol is not None else None
                if any(d[1] == 'call' and d[0] in contains for d in b.defs().get(r_, []) if r_ is not None):
                    same_path = True
            if same_path:
                continue
            bad.append(x)
        key = label + '/before-claim'
        if bad:
            res.bad(R, key, loc_of(b, bad[0]), '%d failing exit(s) before the output path is claimed and guarded (e.g. %s at line %s): a build that fails there leaves the file generated by an '
                    'earlier build in place, which no clean build would produce' % (len(bad), producer(b, bad[0]), b.term(bad[0]).get('line')), {'function': b.path})
        else:
            res.ok(R, key, loc_of(b, cb), 'the only way to fail before the output path is claimed is the refusal to generate two files to one path (%d exits examined)' % len(F0))


def r189(facts, res):
    """The token-map builder writes a generated file too: every failing exit of CTTokenMapBuilder::build except the lookup of the
    output directory itself lies under a drop guard that removes the output (armed before the exit, disarmed only right before an Ok
    exit) - a build that fails while rendering the constants must not leave the file generated from an earlier token map."""
    R = 'R18.9'
    bs = [b for b in facts.lib_bodies(['lrlex']) if b.name == 'build' and 'CTTokenMapBuilder' in (b.impl_of or '')]
    if len(bs) != 1:
        res.lost(R, 'CTTokenMapBuilder::build not found')
        return
    b = bs[0]
    errs, oks, divs = exits(b)
    F = sorted(set(errs + divs))
    # exits that are the failure of the OUT_DIR lookup itself: nothing is known about the output yet
    envf = {x for x in F if producer(b, x) in ('?-on-var', '?-on-var_os')}
    F = [x for x in F if x not in envf]
    guards = guard_info(facts, b)
    key = 'token-map-builder/guard'
    if not guards:
        creates = b.calls_named('create')
        if not creates:
            res.lost(R, 'CTTokenMapBuilder::build neither creates a file nor has an output guard')
            return
        early = [x for x in F if x in b.reachable([0], avoid={creates[0][0]})]
        res.bad(R, key, loc_of(b, early[0]) if early else loc_of(b), 'the builder has no guard that removes its output: %d failing exit(s) (e.g. %s at line %s) return an error while the file '
                'written by an earlier build stays in OUT_DIR' % (len(early), producer(b, early[0]) if early else '?', b.term(early[0]).get('line') if early else '?'), {'function': b.path})
        return
    l, create, path_ok, disarm, moved = guards[0]
    problems = []
    if create is None:
        problems.append('guard is never constructed')
    else:
        for x in [x for x in F if x in b.reachable([0], avoid={create})]:
            problems.append('failing exit (%s, line %s) before the guard is armed' % (producer(b, x), b.term(x).get('line')))
    if moved:
        problems.append('guard value is moved into a call')
    if GUARD_DROP_PROBLEM.get(l):
        problems.append(GUARD_DROP_PROBLEM[l])
    for sblk in disarm:
        late = [x for x in errs + divs if x in b.reachable([sblk]) and x != sblk]
        for x in late:
            problems.append('failing exit (%s, line %s) is reachable after the guard is disarmed' % (producer(b, x), b.term(x).get('line')))
    if not disarm:
        problems.append('guard is never disarmed: a successful build would delete its own output')
    if problems:
        res.bad(R, key, loc_of(b, create if create is not None else 0), '; '.join(problems[:4]), {'function': b.path})
    else:
        res.ok(R, key, loc_of(b, create), 'a drop guard for the output file is armed before anything can fail (after the OUT_DIR lookup) and disarmed only before Ok exits: all %d failing exits remove the output' % len(F))


def r1810(facts, res):
    """A lexer build that configures a nested parser build (lrpar_config) owns two generated files.  A failing exit of
    CTLexerBuilder::build that is reached BEFORE the nested CTParserBuilder::build has run leaves the parser file of an earlier
    grammar in place (nothing has claimed or removed it yet)."""
    R = 'R18.10'
    b = facts.one(R, 'CTLexerBuilder::build', crate='lrlex', name='build', impl_re='^' + LB)
    nested = [bb for bb, t in b.calls_named('build') if 'CTParserBuilder' in (cpath(t) or '') + (callee_of(t).get('self_ty') or '')]
    if not nested:
        res.lost(R, 'the nested CTParserBuilder::build call was not found in CTLexerBuilder::build')
        return
    errs, oks, divs = exits(b)
    claims = [bb for bb, t in b.calls_named('insert') if 'PathBuf' in (callee_of(t).get('self_ty') or '')]
    after_claim = b.reachable(b.succs(claims[0])) if claims else b.reachable()
    early = sorted(x for x in set(errs + divs) if x in after_claim and x in b.reachable([0], avoid=set(nested)))
    key = 'lexer-builder/nested-parser-output'
    if early:
        res.bad(R, key, loc_of(b, early[0]), '%d failing exits of the lexer build (the first: %s at line %s) are reached before the nested parser build has run: with `lrpar_config` the '
                'parser file generated from an earlier grammar is neither claimed nor removed on these exits' % (len(early), producer(b, early[0]), b.term(early[0]).get('line')),
                {'function': b.path, 'exits': [(producer(b, x), b.term(x).get('line')) for x in early]})
    else:
        res.ok(R, key, loc_of(b, nested[0]), 'no failing exit of the lexer build precedes the nested parser build')


def r185(facts, res):
    R = 'R18.5'
    b = facts.one(R, 'CTLexerBuilder::build', crate='lrlex', name='build', impl_re='^' + LB)
    creates = [(bb, t) for bb, t in b.calls_named('create') if 'fs::File' in (cpath(t) or '') and is_path_of(b, t['args'][0], 'output_path')]
    if not creates:
        # other ways of writing the output file: fs::write (truncates), or OpenOptions .. open(output)
        fw = [(bb, t) for bb, t in b.calls_named('write') if (cpath(t) or '').endswith('fs::write') and is_path_of(b, t['args'][0], 'output_path')]
        opens = [(bb, t) for bb, t in b.calls_named('open') if 'OpenOptions' in (cpath(t) or '') and len(t['args']) > 1 and is_path_of(b, t['args'][1], 'output_path')]
        if fw:
            res.ok(R, 'rewrite-rule', loc_of(b, fw[0][0]), 'the output is written with fs::write (replaces the whole file); the rewrite decision is not analysed in this form')
            res.note('R18.5: output written with fs::write; rewrite decision not analysed')
            return
        if opens:
            def const_bool_arg(t):
                return (op_const(t['args'][1]) or {}).get('int') if len(t['args']) > 1 else None
            writable = any(const_bool_arg(t) == 1 for bb, t in b.calls_named('write') if 'OpenOptions' in (cpath(t) or '')) or \
                any(const_bool_arg(t) == 1 for bb, t in b.calls_named('append') if 'OpenOptions' in (cpath(t) or ''))
            trunc = any(const_bool_arg(t) == 1 for bb, t in b.calls_named('truncate') if 'OpenOptions' in (cpath(t) or '')) or \
                any((op_const(t['args'][1]) or {}).get('int') == 0 for bb, t in b.calls_named('set_len') if len(t['args']) > 1)
            if writable and not trunc:
                res.bad(R, 'rewrite-rule', loc_of(b, opens[0][0]), 'the output file is opened for writing without truncation and never cut to length 0: a new text '
                        'shorter than the old one leaves the tail of the old file behind it, which no clean build would produce')
            else:
                res.ok(R, 'rewrite-rule', loc_of(b, opens[0][0]), 'the output is opened through OpenOptions and truncated before it is rewritten; the rewrite decision is not analysed in this form')
                res.note('R18.5: output opened through OpenOptions; rewrite decision not analysed')
            return
    if len(creates) != 1:
        res.lost(R, 'expected one File::create(output) in CTLexerBuilder::build, found %d' % len(creates))
        return
    cb = creates[0][0]
    reads = [(bb, t) for bb, t in b.calls_named('read_to_string') if is_path_of(b, t['args'][0], 'output_path') and b.dominates(bb, cb)]
    if not reads:
        res.bad(R, 'rewrite-rule', loc_of(b, cb), 'the output file is re-created without first comparing it with the new content')
        return
    rb = reads[-1][0]
    w = Walker(b, facts, max_paths=512)
    headers = set(b.loops())
    ps = w.run(rb, stop=lambda x: x == cb or x in headers)
    ok = True
    why = ''
    n = 0
    for p in ps:
        rd = [v for c, v in p.conds if c[0] == 'discr' and c[1][0] == 'call' and strip_generics(c[1][1]).endswith('read_to_string')]
        eq = [(c, v) for c, v in p.conds if c[0] == 'bin' and c[1] in ('Eq', 'Ne') and term_has(c, lambda x: isinstance(x, tuple) and x and x[0] == 'call' and strip_generics(x[1]).endswith('read_to_string'))]
        same = None
        for c, v in eq:
            same = (v == 1) if c[1] == 'Eq' else (v == 0)
        if p.end == ('stop', cb):
            n += 1
            if not (rd == [1] or (rd == [0] and same is False)):
                ok = False
                why = 'File::create reached although the old content was read (%s) and compared equal (%s)' % (rd, same)
        elif p.end[0] == 'return':
            n += 1
            if not (rd == [0] and same is True):
                ok = False
                why = 'returns without writing although old content unreadable/different (read=%s same=%s)' % (rd, same)
    if ok and n >= 3:
        res.ok(R, 'rewrite-rule', loc_of(b, cb), 'output is rewritten iff the old content cannot be read or differs (%d paths)' % n)
    else:
        res.bad(R, 'rewrite-rule', loc_of(b, cb), why or 'could not read the rewrite decision (paths=%d)' % n)


def r186(facts, res):
    """the skip decision is a SUBSTRING test (outc.contains(cache)): the cache key must therefore be self-delimiting, i.e.
    rebuild_cache must return the quotation of ONE string (a string literal token, closed by its quote) - otherwise a
    setting whose rendering is a prefix of another (`Public` / `PublicCrate`) gives a false cache hit"""
    R = 'R18.6'
    b = facts.one(R, 'CTParserBuilder::build', crate='lrpar', name='build', impl_re='^' + PB)
    uses_contains = any(cname(t) == 'contains' and 'str' in (cpath(t) or '') for bb, t in b.calls())
    rc = facts.one(R, 'CTParserBuilder::rebuild_cache', crate='lrpar', name='rebuild_cache', impl_re='^' + PB)
    if not uses_contains:
        res.ok(R, 'cache-key-delimited', loc_of(rc), 'the skip decision is not a substring test; no delimiter needed')
        return
    # the returned token stream
    ret_src = None
    for bb, i, st in rc.stmts():
        if st['k'] == 'assign' and st['lhs']['l'] == 0 and not st['lhs']['p'] and 'use' in st['rv']:
            pl = op_place(st['rv']['use'])
            if pl is not None:
                ret_src = pl['l']
    if ret_src is None:
        # returned directly from a call
        res.bad(R, 'cache-key-delimited', loc_of(rc), 'cannot see how the cache key token stream is built')
        return
    muts = []
    for bb, t in rc.calls():
        for a in t['args']:
            l = op_local(a)
            if l is not None and rc.lty(l).startswith('&mut ') and rc.op_root(a)[0] == ret_src:
                muts.append((bb, t))
    kinds = [(cname(t), (callee_of(t).get('self_ty') or '')) for bb, t in muts]
    if len(muts) == 1 and kinds[0][0] == 'to_tokens' and kinds[0][1] in ('alloc::string::String', '&str', 'str', '&alloc::string::String'):
        res.ok(R, 'cache-key-delimited', loc_of(rc, muts[0][0]), 'the cache key is a single string literal token: a substring match cannot stop inside a longer setting')
    else:
        res.bad(R, 'cache-key-delimited', loc_of(rc), 'the skip decision searches the old output for the cache key as a SUBSTRING, but the key is a raw token stream '
                '(%d tokens pushed) with no terminator: a setting that renders as a prefix of the old one (e.g. Public vs PublicCrate, the last field) is a false cache hit' % len(muts))


LOSSY_PATH_PARTS = ('file_name', 'file_stem', 'file_prefix', 'extension', 'parent', 'strip_prefix', 'components', 'ancestors', 'iter')


def r1812(facts, res):
    """A setting recorded in the cache record is recorded WHOLE.  The skip decision compares the record of the previous build
    with today's; a setting reduced to a part of itself (the grammar path to its file name, "because the directory is
    machine-specific") makes two different configurations look alike, and a changed setting no longer causes regeneration.
    Decided for the path-valued settings: rebuild_cache (and its closures) calls no component projection of std::path::Path."""
    R = 'R18.12'
    rc = facts.one(R, 'CTParserBuilder::rebuild_cache', crate='lrpar', name='rebuild_cache', impl_re='^' + PB)
    if rc is None:
        return
    bodies = [rc] + list(facts.closures_of(rc))
    bad, npath = [], 0
    for x in bodies:
        for bb, t in x.calls():
            c = callee_of(t)
            pth = (c.get('path') or '')
            if 'std::path::Path' in pth or 'std::path::PathBuf' in pth:
                npath += 1
                if c['name'] in LOSSY_PATH_PARTS:
                    bad.append('line %s: the recorded path goes through Path::%s' % (t.get('line'), c['name']))
    key = 'settings-recorded-whole'
    if bad:
        res.bad(R, key, loc_of(rc), '; '.join(bad[:2]) + ': two different values of the setting leave the same record, so changing it does not cause regeneration', {'function': rc.path})
    else:
        res.ok(R, key, loc_of(rc), 'no component projection of a path on the way into the cache record (%d Path calls in rebuild_cache)' % npath)


def run(facts, res):
    r186(facts, res)
    r1812(facts, res)
    r187(facts, res)
    r188(facts, res)
    r181(facts, res)
    r182(facts, res)
    r183(facts, res)
    r184(facts, res)
    r189(facts, res)
    r1810(facts, res)
    r1811(facts, res)
    r185(facts, res)
