"""C12 Specification parsers are total: a result or located errors, never crash or hang (DESIGN.md §4 C12).

R12.1 every loop of the hand-written scanners advances (A6)
R12.2 input-dependent failures are not unwrapped
R12.3 no input-depth recursion
"""
from mirlib import *
import progress

META = {
    'level': 'other',
    'explanation': 'Cone = everything reachable (resolved call graph) from the specification-parser entry points. '
                   'R12.1: every natural loop of the scanner modules in the cone has termination evidence: driven by a std '
                   'iterator that is not re-created in the loop (T1), or a usize cursor that is strictly greater at the end of '
                   'EVERY cycle header->header than at its start (T2; strictness derived from constants, len_utf8, non-empty '
                   'literal lengths, regex literals that cannot match empty, and the return paths of repository helpers '
                   'evaluated with the actual arguments), or a work list guarded by set insertion (T3). R12.2: no '
                   'unwrap/expect is applied to a value produced by an input-dependent fallible producer (str::parse, '
                   'from_str_radix, integer TryFrom, char::from_u32, checked_*, or a repository function returning one of the '
                   'specification error types). R12.3: no call-graph cycle in the scanner modules (input-controlled recursion '
                   'depth). NOT decided: absence of slicing/indexing panics in general, and that error spans lie on '
                   'character boundaries.',
    'assumptions': ['std iterators over str/slice/collections are finite', 'a cursor that strictly increases is bounded by the loop test or by slicing'],
}

CRATES = ['cfgrammar', 'lrlex']

SCANNER_MODULES = ('cfgrammar::header::', 'cfgrammar::yacc::parser::', 'cfgrammar::yacc::ast::', 'lrlex::parser::')
SCANNER_FNS = ('lrlex::lexer::<impl', 'lrlex::lexer::LRNonStreamingLexerDef')

ENTRY_NAMES = [
    ('cfgrammar', 'parse', r'header::GrmtoolsSectionParser'),
    ('cfgrammar', 'parse', r'yacc::parser::YaccParser'),
    ('cfgrammar', 'new', r'yacc::ast::ASTWithValidityInfo'),
    ('cfgrammar', 'complete_and_validate', r'yacc::ast::GrammarAST'),
    ('cfgrammar', 'unused_symbols', r'yacc::ast::GrammarAST'),
    ('lrlex', 'parse', r'parser::LexParser'),
    ('lrlex', 'new_with_lex_flags', r'parser::LexParser'),
    ('lrlex', 'from_str', r'lexer::LRNonStreamingLexerDef'),
    ('lrlex', 'new_with_options', r'lexer::LRNonStreamingLexerDef'),
]

SPEC_ERRORS = ('cfgrammar::header::HeaderError<', 'cfgrammar::yacc::parser::YaccGrammarError', 'lrlex::LexBuildError',
               'alloc::vec::Vec<cfgrammar::header::HeaderError<', 'alloc::vec::Vec<cfgrammar::yacc::parser::YaccGrammarError',
               'alloc::vec::Vec<lrlex::LexBuildError')

DENY_STD = {'parse': 'core::str', 'from_str_radix': '', 'from_u32': 'char', 'checked_add': '', 'checked_sub': '', 'checked_mul': '',
            'from_str': '', 'from_utf8': ''}
ADAPT = ('map_err', 'map', 'ok', 'or_else', 'and_then', 'as_ref', 'as_mut', 'ok_or', 'ok_or_else', 'transpose', 'cloned', 'copied')


def in_scanner(path):
    return path.startswith(SCANNER_MODULES) or any(path.startswith(s) and ('from_str' in path or 'new_with_options' in path) for s in SCANNER_FNS)


def entries(facts, res, R):
    out = []
    for crate, name, impl in ENTRY_NAMES:
        bs = facts.find(crate=crate, name=name, impl_re=impl, kind='assoc_fn')
        if not bs:
            res.lost(R, 'entry point %s::%s not found' % (impl, name))
        out += bs
    return out


def result_err_type(ty):
    """E of core::result::Result<T, E> (string munging on the exported type)"""
    if not ty.startswith('core::result::Result<'):
        return None
    depth, cur, parts = 0, '', []
    for ch in ty[len('core::result::Result<'):-1]:
        if ch in '<([':
            depth += 1
        elif ch in '>)]':
            depth -= 1
        if ch == ',' and depth == 0:
            parts.append(cur.strip())
            cur = ''
        else:
            cur += ch
    parts.append(cur.strip())
    return parts[1] if len(parts) > 1 else None


def r122(facts, res, cone, cg):
    R = 'R12.2'
    nun = ndeny = 0
    seen_producers = 0
    for path in sorted(cone):
        b = cg.bodies[path]
        if b.from_expansion:
            continue
        # producers in this body
        prods = {}
        for bb, t in b.calls():
            c = callee_of(t)
            if c is None or t['dest']['p']:
                continue
            nm = c['name']
            p = c.get('resolved') or c['path']
            why = None
            if nm in DENY_STD and DENY_STD[nm] in p and not p.startswith(('cfgrammar::', 'lrlex::', 'lrpar::', 'lrtable::')):
                if nm == 'from_str' and 'NewlineCache' in p:
                    continue
                why = 'std fallible producer %s' % strip_generics(p)
            elif nm == 'try_from' and (c.get('trait') or '').endswith('TryFrom') and any(a in ('u8', 'u16', 'u32', 'u64', 'usize', 'i32', 'i64', 'char') for a in c['args'][:2]):
                why = 'integer TryFrom'
            else:
                fb = cg.bodies.get(p)
                if fb is not None:
                    e = result_err_type(fb.lty(0))
                    if e and e.startswith(SPEC_ERRORS):
                        why = 'repository function %s returning Result<_, %s>' % (strip_generics(p), e.split('<')[0].split('::')[-1])
            if why:
                prods[t['dest']['l']] = (bb, why, p)
                seen_producers += 1
        for bb, t in b.calls():
            if cname(t) not in ('unwrap', 'expect', 'unwrap_unchecked', 'unwrap_err', 'expect_err'):
                continue
            st = (callee_of(t).get('self_ty') or '')
            if not (st.startswith('core::result::Result<') or st.startswith('core::option::Option<')):
                continue
            nun += 1
            r, projs, via = b.op_root(t['args'][0], through=ADAPT, stop_named=False)
            if r in prods:
                ndeny += 1
                pbb, why, pp = prods[r]
                key = '%s/unwrap-of:%s' % (strip_generics(b.path), strip_generics(pp).split('::')[-1])
                res.bad(R, key, loc_of(b, bb), '%s() applied to the result of an input-dependent fallible producer (%s, line %s): a failure is a panic, not a located error'
                        % (cname(t), why, b.term(pbb).get('line')), {'function': b.path, 'block': bb})
    res.count('R12.2 unwrap/expect calls in the cone', nun)
    res.floor(R, 'input-dependent fallible producers seen in the cone', seen_producers, 20)
    if not any(i['rule'] == R and i['verdict'] == 'violation' for i in res.instances):
        res.ok(R, 'no-unwrap-of-fallible', '', 'none of the %d unwrap/expect calls in the cone consumes one of the %d input-dependent fallible producers' % (nun, seen_producers))


def r123(facts, res, cone, cg):
    R = 'R12.3'
    nodes = {p for p in cone if in_scanner(p)}
    sccs = cg.sccs(nodes)
    for comp in sccs:
        key = 'recursion:' + '+'.join(strip_generics(c) for c in comp)
        b = cg.bodies[comp[0]]
        res.bad(R, key, loc_of(b), 'call-graph cycle in a specification parser: recursion depth is controlled by the input (stack exhaustion is a crash): %s'
                % ' -> '.join(strip_generics(c).split('::')[-1] for c in comp + [comp[0]]))
    res.count('R12.3 scanner functions examined', len(nodes))
    if not sccs:
        res.ok(R, 'no-recursion', '', 'no call-graph cycle among the %d scanner functions' % len(nodes))


def r121(facts, res, cone, cg):
    R = 'R12.1'
    pr = progress.Progress(facts, CRATES)
    n = 0
    kinds = {}
    for path in sorted(cone):
        if not in_scanner(path):
            continue
        b = cg.bodies[path]
        if b.from_expansion:
            continue
        loops = b.loops()
        for i, h in enumerate(sorted(loops)):
            n += 1
            kind, detail = pr.loop_evidence(b, h)
            key = '%s/loop@%d' % (strip_generics(b.path), i)
            if kind:
                kinds[kind] = kinds.get(kind, 0) + 1
                res.ok(R, key, loc_of(b, h), '%s: %s' % (kind, detail))
            else:
                res.bad(R, key, loc_of(b, h), 'no termination evidence: ' + detail, {'function': b.path, 'header': h})
    res.floor(R, 'natural loops in the scanner modules of the cone', n, 24)
    # R12.4 constant cursor steps only past characters proven ASCII
    R4 = 'R12.4'
    nsteps = 0
    nloops4 = 0
    for path in sorted(cone):
        if not in_scanner(path):
            continue
        b = cg.bodies[path]
        if b.from_expansion:
            continue
        for i, h in enumerate(sorted(b.loops())):
            m, bad = pr.const_steps(b, h)
            nsteps += m
            nloops4 += 1 if m else 0
            key = '%s/loop@%d' % (strip_generics(b.path), i)
            if bad:
                cur, k, na, p = bad[0]
                res.bad(R4, key, loc_of(b, h), 'cursor `%s` is advanced by the constant %d after reading a character at it, but only %d character(s) on that '
                        'cycle are matched against ASCII literals: a multi-byte character accepted by the test leaves the cursor inside '
                        'it and the next slice panics (cycle through blocks %s)' % (cur, k, na, p.blocks[:14]), {'function': b.path})
            elif m:
                res.ok(R4, key, loc_of(b, h), '%d constant-step cycle(s), each past characters matched against ASCII literals' % m)
    res.floor(R4, 'loops with constant-step cycles that read the text at the cursor', nloops4, 1)
    for k, v in kinds.items():
        res.count('R12.1 evidence ' + k, v)
    for k, v in sorted(pr.trust_used.items()):
        res.note('R12.1 trusted fact used [%s]: %s' % (k, v))


def r125(facts, res, cone, cg):
    """every unwrap/expect of `S[k..].chars().next()` (a peek at the character under the cursor) is reached only when k < len(S):
    proved per path with the linear bounds domain A10 from the path's comparisons and three library postconditions"""
    from lrstep import widening_walker, loop_assigned, is_call, has_call
    import linarith as LA
    import c19
    R = 'R12.5'
    n = 0
    for path in sorted(cone):
        if not in_scanner(path):
            continue
        b = cg.bodies[path]
        if b.from_expansion:
            continue
        loops = b.loops()
        for ub, ut in b.calls_named('unwrap') + b.calls_named('expect'):
            inl = [h for h in loops if ub in loops[h]]
            start = min(inl, key=lambda h: len(loops[h])) if inl else 0
            w = widening_walker(b, facts)
            w.widen_headers = set(loops) - ({start} if inl else set())
            w.widen_assigned = {h: loop_assigned(b, h) for h in w.widen_headers}
            stopb = ut['ret']
            ps = w.run(start, stop=lambda x: x == stopb or (bool(inl) and x not in loops[start]))
            ps = [p for p in ps if any(e[0] == 'call' and e[1] == ub for e in p.events)]
            if not ps:
                continue
            e0 = [e for e in ps[0].events if e[0] == 'call' and e[1] == ub][0]
            arg = strip_ref(e0[3][0])
            if not (is_call(arg, 'next') and has_call(arg, 'chars')):
                continue
            n += 1
            key = '%s/peek@L%d' % (strip_generics(b.path), len([i for i in res.instances if i['key'].startswith('R12.5:%s/peek' % strip_generics(b.path))]))
            if w.overflow:
                res.bad(R, key, loc_of(b, ub), 'path bound exceeded while looking for the guard of this peek')
                continue
            why = None
            for p in ps:
                e = [e for e in p.events if e[0] == 'call' and e[1] == ub][0]
                arg = strip_ref(e[3][0])
                ch = [x for x in subterms(arg) if is_call(x, 'chars')][0]
                sl = strip_ref(ch[2][0])
                if not (is_call(sl, 'index') and isinstance(sl[2][1], tuple) and sl[2][1] and sl[2][1][0] == 'variant' and sl[2][1][3] == 'RangeFrom'):
                    why = 'the text peeked at is not of the form S[k..] (%s)' % fmt_term(sl)[:80]
                    break
                base, k = sl[2][0], sl[2][1][4][0]
                ctx = LA.Ctx()
                for c, v in p.conds:
                    c19.cond_facts(ctx, c, v)
                LA.lib_facts(ctx, [k] + [c for c, v in p.conds])
                ob = (LA.length_of(base) - LA.lin(k)).plus(-1)
                ctx.nonneg_atoms(ctx.ge + ctx.ne + [ob])
                ctx.saturate()
                if not ctx.proves(ob):
                    why = 'cannot show that the cursor %s is below the length of the text on the path through blocks %s (facts: %s): at the end of the input next() is None and the unwrap panics' % (
                        fmt_term(k)[:70], p.blocks[-8:], '; '.join(ctx.why[:4]) or 'none')
                    break
            if why:
                res.bad(R, key, loc_of(b, ub), why, {'function': b.path})
            else:
                res.ok(R, key, loc_of(b, ub), 'cursor < len(text) on all %d path(s) to this peek' % len(ps))
    res.floor(R, 'unwrapped peeks at the character under a cursor', n, 8)


def r126(facts, res):
    """Span extents are differences of offsets into the source (or lengths of slices OF the source).  The length of an owned
    String is the length of a processed copy - trimmed, unescaped - and says nothing about how much source text the piece covers
    or where it starts: a span built from it can start at the wrong place and end inside a character, after which it cannot be
    rendered."""
    R = 'R12.6'
    n = 0
    nbad = 0
    for b in facts.lib_bodies(['cfgrammar', 'lrlex']):
        if b.from_expansion or not in_scanner(b.path):
            continue
        spans = [(bb, t) for bb, t in b.calls() if (cpath(t) or '').endswith('span::Span::new')]
        if not spans:
            continue
        n += len(spans)
        seeds = set()
        for bb, t in b.calls_named('len'):
            c = callee_of(t)
            if c and c['path'].startswith('alloc::string::String'):
                seeds.add(t['dest']['l'])
        if not seeds:
            continue
        tainted = set(seeds)
        changed = True
        while changed:
            changed = False
            for bb in b.reachable():
                for st in b.blocks[bb]['stmts']:
                    if st['k'] != 'assign' or st['lhs']['p']:
                        continue
                    rv = st['rv']
                    src = []
                    if 'use' in rv and op_place(rv['use']):
                        src.append(op_place(rv['use'])['l'])
                    if 'bin' in rv:
                        for o in (rv['a'], rv['b']):
                            if op_local(o) is not None:
                                src.append(op_local(o))
                    if any(x in tainted for x in src) and st['lhs']['l'] not in tainted:
                        tainted.add(st['lhs']['l'])
                        changed = True
        for bb, t in spans:
            if any(op_local(a) in tainted for a in t['args']):
                nbad += 1
                res.bad(R, 'span-from-string-len:%s' % strip_generics(b.path), loc_of(b, bb),
                        'a Span bound is computed from the length of an owned String (a trimmed / processed copy of the text), not from offsets '
                        'into the source: the span need not start where the piece starts and can end inside a character', {'function': b.path})
    if nbad == 0:
        res.ok(R, 'no-span-from-string-len', '', 'none of the %d Span constructions of the specification parsers takes a bound from the length of an owned String' % n)
    res.floor(R, 'Span constructions in the specification parsers', n, 20)


# R12.7's sink is "the position a function returns": a view that dissolves the function has no such return any more
NO_INLINE_VIEW = {'R12.7'}

LEN_CHANGING = ('to_lowercase', 'to_uppercase', 'to_ascii_lowercase', 'to_ascii_uppercase', 'replace', 'replacen', 'repeat', 'escape_debug', 'escape_default',
                'trim', 'trim_start', 'trim_end', 'trim_matches', 'trim_start_matches', 'trim_end_matches')
SAME_LEN = ('to_ascii_lowercase', 'to_ascii_uppercase')


def r127(facts, res, cone):
    """A cursor into the source moves by the length of the SOURCE text that was matched.  The byte length of a transformed copy
    (lower-/upper-cased, replaced, trimmed) can differ from it - `to_lowercase()` turns the three-byte KELVIN SIGN into `k` - and
    a cursor advanced by such a length can land inside a character, where the next slice panics.  No length of a transformed
    copy may reach a returned position, a slice bound or a span."""
    R = 'R12.7'
    n = 0
    bad = []
    for path in sorted(cone):
        b = facts.bodies.get(path)
        if b is None or b.from_expansion:
            continue
        seeds = {}
        for bb, t in b.calls_named('len'):
            c = callee_of(t)
            if not c or not t['args'] or not ('core::str' in c['path'] or 'alloc::string::String' in c['path']):
                continue
            r, projs, via = b.op_root(t['args'][0], through=Body.THROUGH + LEN_CHANGING + ('to_string', 'to_owned', 'as_str', 'into', 'from'), stop_named=False)
            hit = [v for v in via if v in LEN_CHANGING and v not in SAME_LEN and not v.startswith('trim')]
            if hit:
                seeds[t['dest']['l']] = (bb, hit[0], t.get('line'))
        n += len([1 for bb, t in b.calls(lambda t: cname(t) in LEN_CHANGING and cname(t) not in SAME_LEN and not cname(t).startswith('trim'))])
        if not seeds:
            continue
        tainted = dict((l, l) for l in seeds)
        changed = True
        while changed:
            changed = False
            for bb in sorted(b.reachable()):
                for st in b.blocks[bb]['stmts']:
                    if st['k'] != 'assign' or st['lhs']['p']:
                        continue
                    rv = st['rv']
                    srcs = []
                    if 'use' in rv and op_place(rv['use']):
                        srcs.append(op_place(rv['use'])['l'])
                    if rv.get('bin') in ('Add', 'AddWithOverflow', 'AddUnchecked', 'Sub', 'SubWithOverflow'):
                        srcs += [x for x in (op_local(rv['a']), op_local(rv['b'])) if x is not None]
                    for x in srcs:
                        if x in tainted and st['lhs']['l'] not in tainted:
                            tainted[st['lhs']['l']] = tainted[x]
                            changed = True
        for bb, _i, st in b.stmts():
            if st['k'] != 'assign':
                continue
            rv = st['rv']
            if 'agg' in rv and any(op_local(o) in tainted for o in rv['ops']):
                agg = rv['agg']
                what = None
                if agg == 'tuple' and st['lhs']['l'] == 0 or (isinstance(agg, dict) and agg.get('adt', '').startswith('core::ops::range::Range')):
                    what = 'a slice bound' if isinstance(agg, dict) else 'a returned position'
                elif agg == 'tuple':
                    # a tuple that is then wrapped into the return value
                    l0 = st['lhs']['l']
                    if any(s2['k'] == 'assign' and s2['lhs']['l'] == 0 and 'agg' in s2['rv'] and any(op_local(o) == l0 for o in s2['rv']['ops']) for _b2, _i2, s2 in b.stmts()):
                        what = 'a returned position'
                if what:
                    o = [op_local(o) for o in rv['ops'] if op_local(o) in tainted][0]
                    sb, how, ln = seeds[tainted[o]]
                    bad.append((b, bb, '%s is computed from the length of a `%s()` copy (line %s): its byte length can differ from that of the text in the source' % (what, how, ln)))
        for bb, t in b.calls():
            if (cpath(t) or '').endswith('span::Span::new') and any(op_local(a) in tainted for a in t['args']):
                o = [op_local(a) for a in t['args'] if op_local(a) in tainted][0]
                sb, how, ln = seeds[tainted[o]]
                bad.append((b, bb, 'a span bound is computed from the length of a `%s()` copy (line %s)' % (how, ln)))
    if bad:
        b, bb, msg = bad[0]
        res.bad(R, 'cursor-from-transformed-length:%s' % strip_generics(b.path).split('::')[-1], loc_of(b, bb), msg, {'function': b.path})
    else:
        res.ok(R, 'no-cursor-from-transformed-length', '', 'no position, slice bound or span in the specification parsers is computed from the length of a transformed copy of the text '
               '(%d length-changing transformations in the cone)' % n)


def run(facts, res):
    cg = CallGraph(facts, CRATES)
    ents = entries(facts, res, 'cone')
    cone = cg.cone([b.path for b in ents])
    # closures of cone functions are part of it
    res.count('cone functions', len(cone))
    r127(facts, res, cone)
    r121(facts, res, cone, cg)
    r125(facts, res, cone, cg)
    r126(facts, res)
    r122(facts, res, cone, cg)
    r123(facts, res, cone, cg)
