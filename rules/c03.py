"""C03 Conflicts are resolved by Yacc's rules and reported exactly (DESIGN.md §4 C03).

R3.1 shift/reduce decision table (resolve function)         finite table, exhaustive
R3.2 reduce/reduce + accept/reduce table (StateTable::new)   finite table, exhaustive
R3.3 production precedence source (%prec, else LAST token)
R3.4 associativity keyword -> kind, level counter
R3.5 %expect / %expect-rr comparison in CTParserBuilder::build
"""
from mirlib import *

META = {
    'level': 'proof',
    'exhaustive': True,
    'explanation': 'Finite decision tables are read back out of the MIR by exhaustive acyclic path enumeration '
                   '(every valuation of the branch conditions) and compared with Yacc\'s rules: shift/reduce '
                   'resolution (R3.1), reduce/reduce and accept/reduce handling (R3.2), where a production\'s '
                   'precedence comes from (R3.3), keyword->associativity (R3.4) and the %expect comparison (R3.5). '
                   'NOT decided: that the automaton offers the right candidate actions in the first place (C01), '
                   'and that the set of reported conflicts is exact beyond the per-cell bookkeeping above.',
    'trusted_base': ['Option/Ordering/AssocKind discriminant values as exported by rustc'],
    'assumptions': ['calls taking only shared references are pure functions of their arguments'],
}

GR = 'cfgrammar::yacc::grammar::'


def find_variant(t, adt_suffix=None):
    for x in subterms(t):
        if isinstance(x, tuple) and x and x[0] == 'variant' and (adt_suffix is None or x[1].endswith(adt_suffix)):
            return x
    return None


def cell_stores(path, cells_root):
    """stores into the action cells: [(action-variant-name, variant-term)]"""
    out = []
    for e in path.stores():
        addr = e[5]
        if is_cell_addr(addr, cells_root):
            v = find_variant(e[3], 'Action')
            out.append((v[3] if v else '?', v, addr, e))
    return out


def is_cell_addr(addr, root=None):
    """address of one element of the action-cell array: slice[idx] or *index_mut(vec, idx)"""
    if any(p[0] == 'idx' for p in addr[2]):
        return root is None or addr[1] == root
    r = addr[1]
    if r[0] == 'call' and strip_generics(r[1]).endswith('::index_mut'):
        return root is None or strip_ref(r[2][0]) == root
    return False


def is_call(t, name):
    return isinstance(t, tuple) and t and t[0] == 'call' and strip_generics(t[1]).endswith('::' + name)


def has_call(t, name):
    return term_has(t, lambda x: is_call(x, name))


def r31(facts, res):
    R = 'R3.1'
    cands = [b for b in facts.lib_bodies(['lrtable'])
             if b.calls_named('token_precedence') and b.calls_named('prod_precedence')]
    if len(cands) != 1:
        res.lost(R, 'expected one lrtable function calling both token_precedence and prod_precedence, found %d' % len(cands))
        return
    b = cands[0]
    if b.loops():
        res.lost(R, '%s is no longer loop-free' % b.path)
        return
    assoc = facts.adt(GR + 'AssocKind')
    if not assoc:
        res.lost(R, 'AssocKind ADT not found')
        return
    kinds = {v['discr']: v['name'] for v in assoc['variants']}
    # which parameter is the cell slice: &mut [usize]
    cells = [i for i in range(1, b.arg_count + 1) if b.lty(i) == '&mut [usize]']
    conf = [i for i in range(1, b.arg_count + 1) if b.lty(i).startswith('&mut alloc::vec::Vec<(')]
    if len(cells) != 1 or len(conf) != 1:
        res.lost(R, 'cannot identify cell slice / conflict list parameters of %s' % b.path)
        return
    cells_root, conf_root = ('param', cells[0]), ('param', conf[0])
    w = Walker(b, facts)
    paths = w.run()
    if w.overflow:
        res.lost(R, 'path bound exceeded')
        return
    res.count('paths', len(paths))
    rows = {}
    for p in paths:
        tp = pp = cmpv = tk = pk = None
        level_poss = None
        tokarg = prodarg = None
        for t, v in p.conds:
            if t[0] == 'discr' and is_call(t[1], 'token_precedence'):
                tp = v if tp is None or isinstance(tp, tuple) else tp
                tokarg = t[1][2][1]
            elif t[0] == 'discr' and is_call(t[1], 'prod_precedence'):
                pp = v if pp is None or isinstance(pp, tuple) else pp
                prodarg = t[1][2][1]
            elif (t[0] == 'discr' and t[1][0] == 'cmp') or (t[0] == 'bin' and t[1] in ('Lt', 'Le', 'Eq') and isinstance(v, int)
                                                           and any(isinstance(x, tuple) and len(x) > 3 and x[0] == 'field' and x[3] == 'level' for x in (t[2], t[3]))):
                # any ordering test of the two levels narrows the possible orderings of (token level, production level)
                op, a, c = ('cmp', t[1][1], t[1][2]) if t[0] == 'discr' else (t[1], t[2], t[3])
                if not (a[0] == 'field' and a[3] == 'level' and c[0] == 'field' and c[3] == 'level'):
                    res.bad(R, 'cmp-operands', loc_of(b, p.blocks[-1]), 'Ordering decided on something other than the two `level` fields: %s' % fmt_term(t))
                    return
                if op == 'cmp':
                    al = {v} if isinstance(v, int) else ({-1, 0, 1} - set(v[1]) if isinstance(v, tuple) and v[0] == 'ne' else {-1, 0, 1})
                elif op == 'Lt':
                    al = {-1} if v else {0, 1}
                elif op == 'Le':
                    al = {-1, 0} if v else {1}
                else:
                    al = {0} if v else {-1, 1}
                if has_call(a, 'token_precedence') and has_call(c, 'prod_precedence'):
                    pass
                elif has_call(a, 'prod_precedence') and has_call(c, 'token_precedence'):
                    al = {-x for x in al}
                else:
                    res.bad(R, 'cmp-operands', loc_of(b, p.blocks[-1]), 'level comparison does not compare token with production precedence: %s' % fmt_term(t))
                    return
                level_poss = al if level_poss is None else (level_poss & al)
                cmpv = next(iter(level_poss)) if len(level_poss) == 1 else None
            elif t[0] == 'discr' and t[1][0] == 'field' and t[1][3] == 'kind':
                if has_call(t[1], 'token_precedence'):
                    tk = v
                elif has_call(t[1], 'prod_precedence'):
                    pk = v
        for e in p.calls(name='token_precedence'):
            tokarg = e[3][1]
        for e in p.calls(name='prod_precedence'):
            prodarg = e[3][1]
        def some(v):
            if v == 1 or (isinstance(v, tuple) and v[1] == frozenset({0})):
                return True
            if v == 0:
                return False
            return None
        tps, pps = some(tp), some(pp)
        stores = cell_stores(p, cells_root)
        pushes = [e for e in p.calls(name='push') if e[3] and strip_ref(e[3][0]) == conf_root]
        diverges = p.end[0] == 'diverge'
        # classify the row
        if tps is False or pps is False:
            row = 'no-precedence(tok=%s,prod=%s)' % ('Some' if tps else ('None' if tps is False else '*'),
                                                    'Some' if pps else ('None' if pps is False else '*'))
            want = ('Shift', 1)
        elif cmpv == 1:
            row, want = 'token-level-higher', ('Shift', 0)
        elif cmpv == -1:
            row, want = 'token-level-lower', (None, 0)
        elif cmpv == 0:
            if not isinstance(tk, int) or not isinstance(pk, int):
                # mixed / default arm: cannot be declared (one %left/%right/%nonassoc line has one kind)
                rows['equal-level/mixed-kinds(%s)' % len(rows)] = 'dont-care'
                continue
            kt, kp = kinds.get(tk), kinds.get(pk)
            row = 'equal-level/%s-%s' % (kt, kp)
            if kt != kp:
                rows[row] = 'dont-care'
                continue
            want = {'Left': (None, 0), 'Right': ('Shift', 0), 'Nonassoc': ('Error', 0)}[kt]
        else:
            res.bad(R, 'unclassified-path', loc_of(b, p.blocks[-1]), 'path with conditions %s matches no row of Yacc\'s table'
                    % [(fmt_term(t), v) for t, v in p.conds])
            continue
        got = (stores[0][0] if stores else None, len(pushes))
        ok = (got == want) and len(stores) <= 1 and not diverges
        detail = None
        if ok and stores and stores[0][0] == 'Shift':
            # the shifted-to state must be a parameter of state-index type, and a recorded conflict must carry
            # (token, production, *another* state parameter)
            sh = stores[0][1][4][0]
            if sh[0] != 'param':
                ok, detail = False, 'Shift target is not the target-state parameter: %s' % fmt_term(sh)
            if pushes:
                tup = pushes[0][3][1]
                if not (tup[0] == 'tuple' and len(tup[1]) == 3 and tup[1][0] == tokarg and tup[1][1] == prodarg
                        and tup[1][2][0] == 'param' and tup[1][2] != sh):
                    ok, detail = False, 'recorded conflict is not (token, production, conflict state): %s' % fmt_term(tup)
        key = 'row:' + row
        if ok:
            res.ok(R, key, loc_of(b, p.blocks[-1]), 'cell:=%s, recorded=%d as Yacc prescribes' % got)
        else:
            res.bad(R, key, loc_of(b, p.blocks[-1]),
                    'Yacc prescribes cell:=%s recorded=%d, code does cell:=%s recorded=%d%s%s'
                    % (want[0], want[1], got[0], got[1], ' and panics' if diverges else '', '; ' + detail if detail else ''),
                    {'function': b.path, 'blocks': p.blocks, 'conds': [(fmt_term(t), str(v)) for t, v in p.conds]})
        rows[row] = 'checked'
    need = ['token-level-higher', 'token-level-lower', 'equal-level/Left-Left', 'equal-level/Right-Right',
            'equal-level/Nonassoc-Nonassoc']
    for n in need:
        if rows.get(n) != 'checked':
            res.bad(R, 'row:' + n, loc_of(b), 'no path of %s implements this row of the table' % b.path)
    if not any(r.startswith('no-precedence') for r in rows):
        res.bad(R, 'row:no-precedence', loc_of(b), 'no path handles a missing precedence')
    res.count('R3.1 rows', len(rows))


def term_subst(t, old, new):
    if t == old:
        return new
    if isinstance(t, tuple):
        return tuple(term_subst(x, old, new) if isinstance(x, tuple) else x for x in t)
    return t


def order_constraint(c, v, cell_local):
    """A tested condition that orders the new production against the production decoded from the cell:
    returns (orderings of new-vs-cell it allows: subset of {-1, 0, 1}, new term, cell term), 'same-side' when both or neither operand
    come from the cell, or None when the condition is not an ordering test.  `a.cmp(b)`, `a < b`, `a <= b`, `a == b` are all read."""
    if c[0] == 'discr' and c[1][0] == 'cmp':
        op, a, d = 'cmp', c[1][1], c[1][2]
    elif c[0] == 'bin' and c[1] in ('Lt', 'Le', 'Eq'):
        op, a, d = c[1], c[2], c[3]
    else:
        return None
    def red(x):
        # the operand IS the production of a Reduce in the cell (not something computed from it, such as its precedence)
        while isinstance(x, tuple) and x and x[0] in ('ref', 'deref'):
            x = x[1]
        return isinstance(x, tuple) and len(x) > 2 and x[0] == 'field' and isinstance(x[1], tuple) and x[1] and x[1][0] == 'downcast' \
            and x[1][1] == ('uninit', cell_local) and x[1][3] == 'Reduce'
    a_dec = term_has(a, lambda x: x == ('uninit', cell_local))
    d_dec = term_has(d, lambda x: x == ('uninit', cell_local))
    if (a_dec or d_dec) and not (red(a) or red(d)):
        return None         # a test of the cell that is not about the production of a Reduce in it
    if a_dec == d_dec:
        return 'same-side'
    if op == 'cmp':
        al = {v} if isinstance(v, int) else ({-1, 0, 1} - set(v[1]) if isinstance(v, tuple) and v[0] == 'ne' else {-1, 0, 1})
    elif not isinstance(v, int):
        return None
    elif op == 'Lt':
        al = {-1} if v else {0, 1}
    elif op == 'Le':
        al = {-1, 0} if v else {1}
    else:
        al = {0} if v else {-1, 1}
    if d_dec:
        return frozenset(al), a, d
    return frozenset(-x for x in al), d, a


def r32(facts, res):
    R = 'R3.2'
    b = facts.one(R, 'StateTable::new', crate='lrtable', name='new', impl_re=r'statetable::StateTable<')
    headers = set(b.loops().keys())
    decs = b.calls_named('decode')
    # the reduce-populating site: the decode whose arms compare two production indices
    site = None
    for bb, t in decs:
        w = Walker(b, facts, max_paths=2000)
        ps = w.run(t['ret'], stop=lambda x: x in headers)
        dl = t['dest']['l']
        if any(order_constraint(c[0], c[1], dl) not in (None, 'same-side') for p in ps for c in p.conds):
            if site is not None:
                res.lost(R, 'more than one decode site compares productions')
                return
            site = (bb, t, ps, w)
    if site is None:
        res.lost(R, 'no decode(cell) site in StateTable::new whose arms compare production indices (reduce/reduce handling)')
        return
    bb, t, ps, w = site
    if w.overflow:
        res.lost(R, 'path bound exceeded')
        return
    # Conditions that the arms use may be computed BEFORE the cell is decoded (`let is_accept = ..; match decode(..) { X if is_accept`):
    # walk one whole round of the loop around the token loop instead, and name the decoded cell as before
    loops = b.loops()
    inl = sorted((h for h in loops if bb in loops[h]), key=lambda h: len(loops[h]))
    if len(inl) >= 2:
        from lrstep import widening_walker, loop_assigned
        h0 = inl[1]
        w2 = widening_walker(b, facts, max_paths=6000)
        w2.widen_headers = set(loops) - {h0}
        w2.widen_assigned = {x: loop_assigned(b, x) for x in w2.widen_headers}
        # leaving the loop towards the next round of the loop around it ends a round; early returns and panics are followed to their end
        exits = {x for blk in loops[h0] for x in b.succs(blk) if x not in loops[h0]}
        outs = {x for x in exits if len(inl) < 3 or inl[2] in b.reachable([x])}
        ps2 = w2.run(h0, stop=lambda x: x in outs)
        # a round that leaves through `?` on the result of an inlined helper stops at the block after the (former) call, which
        # is also where successful rounds go on: follow such a path further - it is an exit only if it runs into a return
        if not w2.overflow:
            more = []
            for p in ps2:
                if p.end[0] == 'stop' and p.end[1] in outs:
                    w3 = widening_walker(b, facts, max_paths=64)
                    w3.widen_headers, w3.widen_assigned = set(), {}
                    tails = w3.run(p.end[1], stop=lambda x: x in loops, env=p.env)
                    if len(tails) == 1 and tails[0].end[0] == 'return' and not w3.overflow:
                        p.conds = p.conds + tails[0].conds
                        p.events = p.events + tails[0].events
                        p.end = tails[0].end
                more.append(p)
            ps2 = more
        if not w2.overflow:
            out = []
            for p in ps2:
                ev = [e for e in p.events if e[0] == 'call' and e[1] == bb]
                if not ev:
                    continue
                cell, name = ev[0][5], ('uninit', t['dest']['l'])
                p.conds = [(term_subst(c, cell, name), v) for c, v in p.conds]
                p.events = [tuple(term_subst(x, cell, name) if isinstance(x, tuple) and i in (3, 5) else x for i, x in enumerate(e)) for e in p.events]
                if p.end[0] == 'return':
                    p.end = ('return', term_subst(p.end[1], cell, name))
                out.append(p)
            if out:
                ps, w = out, w2
    act = facts.adt('lrtable::statetable::Action')
    vn = {v['discr']: v['name'] for v in act['variants']}
    # the cell vector: root local of the place passed to decode
    dest = pkey(t['dest'])
    seen = set()
    for p in ps:
        dv = None
        eqs = {}
        cmpv = None
        poss = None
        r_term = p_term = None
        for c, v in p.conds:
            if c[0] == 'discr' and c[1] == ('uninit', dest[0]):
                dv = v
            elif order_constraint(c, v, dest[0]) is not None and not has_call(c, 'start_prod') and not has_call(c, 'eof_token_idx'):
                oc = order_constraint(c, v, dest[0])
                if oc == 'same-side':
                    if c[0] == 'discr':
                        res.bad(R, 'cmp-operands', loc_of(b, p.blocks[-1]), 'production comparison is not (new production) vs (production in cell): %s' % fmt_term(c))
                        return
                    continue
                allowed, pt, rt = oc
                poss = allowed if poss is None else (poss & allowed)
                p_term, r_term = pt, rt
            elif c[0] == 'bin' and c[1] in ('Eq', 'Ne'):
                side = None
                if has_call(c, 'start_prod'):
                    side = 'start'
                elif has_call(c, 'eof_token_idx'):
                    side = 'eof'
                if side:
                    val = v if c[1] == 'Eq' else (1 - v if isinstance(v, int) else v)
                    eqs[side] = val
        if not isinstance(dv, int):
            # the otherwise arm (`_ => panic`)
            if p.end[0] == 'diverge':
                continue
            res.bad(R, 'unclassified-path', loc_of(b, p.blocks[-1]), 'path not keyed on the decoded cell')
            continue
        kind = vn.get(dv)
        if p.end[0] == 'diverge' and kind != 'Shift':
            continue  # internal assertion (e.g. a second Accept cell)
        stores = [e for e in p.stores() if is_cell_addr(e[5]) and find_variant(e[3], 'Action')]
        pushes = [e for e in p.calls(name='push')]
        is_acc = eqs.get('start') == 1 and eqs.get('eof') == 1
        not_acc = eqs.get('start') == 0 or eqs.get('eof') == 0
        def ret_err():
            if p.end[0] != 'return':
                return None
            v = find_variant(p.end[1], 'AcceptReduceConflict') or find_variant(p.end[1], 'StateTableErrorKind')
            return v
        all_stores = stores
        for cmpv in (sorted(poss) if (kind == 'Reduce' and not is_acc and poss) else [None]):
            # writing Reduce(the production that is in the cell already) leaves the cell as it is
            stores = all_stores
            if kind == 'Reduce' and r_term is not None and cmpv in (0, 1):
                def identity(e):
                    v = find_variant(e[3], 'Action')
                    if v is None or v[3] != 'Reduce' or not v[4]:
                        return False
                    x = strip_ref(v[4][0])
                    return x == strip_ref(r_term) or (cmpv == 0 and x == strip_ref(p_term))
                stores = [e for e in all_stores if not identity(e)]
            key = None
            ok = False
            msg = ''
            if kind == 'Reduce':
                if is_acc:
                    key = 'reduce-in-cell/accept'
                    v = ret_err()
                    ok = v is not None and not stores and not pushes
                    msg = 'returns AcceptReduceConflict' if ok else 'accept vs reduce must be refused with an error, found end=%s' % (p.end[0],)
                elif not_acc and cmpv in (-1, 0, 1):
                    key = 'reduce-in-cell/%s' % {-1: 'new-earlier', 0: 'same', 1: 'new-later'}[cmpv]
                    if cmpv == 0:
                        ok = not stores and not pushes
                        msg = 'nothing stored or recorded'
                    else:
                        okpush = False
                        if len(pushes) == 1:
                            tup = pushes[0][3][1]
                            if tup[0] == 'tuple' and len(tup[1]) == 4:
                                first, second = strip_ref(tup[1][1]), strip_ref(tup[1][2])
                                want = (strip_ref(p_term), strip_ref(r_term)) if cmpv == -1 else (strip_ref(r_term), strip_ref(p_term))
                                okpush = (first, second) == want
                        if cmpv == -1:
                            v = find_variant(stores[0][3], 'Action') if len(stores) == 1 else None
                            okst = v is not None and v[3] == 'Reduce' and strip_ref(v[4][0]) == strip_ref(p_term)
                        else:
                            okst = not stores
                        ok = okpush and okst
                        msg = ('earlier production wins and the pair is recorded (kept, dropped)' if ok else
                               'expected cell%s and one record (token, kept, dropped, state); found %d stores, %d records (record ok=%s)'
                               % (':=Reduce(new)' if cmpv == -1 else ' unchanged', len(stores), len(pushes), okpush))
                else:
                    continue
            elif kind == 'Accept':
                key = 'accept-in-cell'
                ok = ret_err() is not None and not stores
                msg = 'returns AcceptReduceConflict' if ok else 'reduce into an Accept cell must be an error'
            elif kind == 'Error':
                if is_acc:
                    key = 'empty-cell/accept'
                    v = find_variant(stores[0][3], 'Action') if len(stores) == 1 else None
                    ok = v is not None and v[3] == 'Accept' and not pushes
                    msg = 'cell:=Accept'
                elif not_acc:
                    key = 'empty-cell/reduce'
                    v = find_variant(stores[0][3], 'Action') if len(stores) == 1 else None
                    ok = v is not None and v[3] == 'Reduce' and not pushes
                    msg = 'cell:=Reduce(new)'
                else:
                    continue
            elif kind == 'Shift':
                key = 'shift-in-cell'
                ok = p.end[0] == 'diverge'
                msg = 'internal error (reductions are populated before shifts)'
            if key is None:
                continue
            seen.add(key)
            if ok:
                res.ok(R, 'row:' + key, loc_of(b, p.blocks[-1]), msg)
            else:
                res.bad(R, 'row:' + key, loc_of(b, p.blocks[-1]), msg,
                        {'function': b.path, 'blocks': p.blocks, 'conds': [(fmt_term(t), str(v)) for t, v in p.conds]})
    for k in ['reduce-in-cell/accept', 'reduce-in-cell/new-earlier', 'reduce-in-cell/new-later', 'reduce-in-cell/same',
              'accept-in-cell', 'empty-cell/accept', 'empty-cell/reduce']:
        if k not in seen:
            res.bad(R, 'row:' + k, loc_of(b, bb), 'no path implements this row')


def r33_combinator(facts, res, b, R):
    """The production-precedence search written as `symbols.iter().rev().find_map(|s| token name)` followed by a lookup of that
    one name.  Decided: the iterator searched is reversed; the find_map closure answers Some on every path on which its argument
    is a token (so the first token met ends the search whether or not it has a precedence); a lookup in the precedence table
    exists in the function or its closures.  Returns (block of the find_map call, blocks to treat as the search)."""
    sym = facts.adt('cfgrammar::yacc::ast::Symbol')
    tok = [v['discr'] for v in (sym or {}).get('variants', []) if v['name'] == 'Token']
    cands = []
    for nm in ('find_map', 'find', 'rfind', 'position', 'rposition'):
        for bb, t in b.calls_named(nm):
            st = callee_of(t).get('self_ty') or ''
            if 'ast::Symbol' in st and 'slice::iter::Iter<' in st:
                cands.append((nm, bb, t, st))
    if len(cands) != 1 or not tok:
        res.lost(R, 'expected exactly one search over a production\'s symbols that looks a token up in the precedence table (a loop, or one find_map), found %d' % len(cands))
        return None
    nm, bb, t, st = cands[0]
    if nm != 'find_map':
        res.lost(R, 'the production precedence search uses Iterator::%s, an idiom this rule does not know' % nm)
        return None
    if 'rev::Rev<' in st:
        res.ok(R, 'search-direction', loc_of(b, bb), 'symbols are searched from the end (find_map over Rev<slice::Iter<Symbol>>): the last token decides')
    else:
        res.bad(R, 'search-direction', loc_of(b, bb), 'production precedence search iterates %s: Yacc takes the precedence of the LAST token' % st)
    # the closure handed to find_map
    cl = None
    l = op_local(t['args'][1]) if len(t['args']) > 1 else None
    for _bb, kind, rv in b.defs().get(l, ()):
        if kind == 'stmt' and 'agg' in rv and isinstance(rv['agg'], dict) and 'closure' in rv['agg']:
            cl = facts.bodies.get(rv['agg']['closure'])
    if cl is None:
        res.lost(R, 'cannot find the body of the closure handed to find_map')
        return None
    wk = Walker(cl, facts)
    paths = wk.run()
    bad = None
    ntok = 0
    for p in paths:
        if p.end[0] != 'return':
            continue
        is_tok = any(term[0] == 'discr' and isinstance(val, int) and val == tok[0] and 'param' in repr(term) for term, val in p.conds)
        if not is_tok:
            continue
        ntok += 1
        rv = p.end[1]
        if not (rv[0] == 'variant' and rv[3] == 'Some'):
            bad = p
    if ntok == 0:
        res.lost(R, 'the find_map closure has no path that recognises a token')
        return None
    if bad is not None:
        res.bad(R, 'last-token-decides', loc_of(cl), 'the find_map closure can answer None for a token (path through blocks %s): the search then continues to earlier symbols, '
                'but a token without precedence must still end the search' % bad.blocks)
    else:
        res.ok(R, 'last-token-decides', loc_of(cl), 'the find_map closure answers Some on each of its %d token paths: the first token met (from the end) ends the search whether or not it has a precedence' % ntok)
    gets = [(x, t2) for x, t2 in b.calls_named('get') if 'Precedence' in ''.join(callee_of(t2)['args'])]
    for c in facts.closures_of(b):
        gets += [(x, t2) for x, t2 in c.calls_named('get') if 'Precedence' in ''.join(callee_of(t2)['args'])]
    if not gets:
        res.lost(R, 'no lookup of the token found in the precedence table')
        return None
    return bb, {bb}


def r33(facts, res):
    R = 'R3.3'
    b = facts.one(R, 'YaccGrammar::new_from_ast_with_validity_info', crate='cfgrammar',
                  name='new_from_ast_with_validity_info')
    # locals whose type is a reversed slice iterator over ast::Symbol
    revs = [i for i, l in enumerate(b.locals) if l['ty'].startswith('core::iter::adapters::rev::Rev<core::slice::iter::Iter<')
            and 'ast::Symbol' in l['ty']]
    fwd = [i for i, l in enumerate(b.locals) if l['ty'].startswith('core::slice::iter::Iter<') and 'ast::Symbol' in l['ty']]
    # the precedence search loop: a loop whose body looks a token up in `precs` (IndexMap/HashMap get) and which
    # iterates symbols
    loops = b.loops()
    headers = set(loops)
    found = []
    for nb, t in b.calls_named('next'):
        st = callee_of(t).get('self_ty') or ''
        if 'ast::Symbol' not in st:
            continue
        own = [h for h in loops if nb in loops[h]]
        if not own:
            continue
        own = min(own, key=lambda h: len(loops[h]))
        region = b.reachable([t['ret']], avoid=headers - {own})
        gets = [(bb, t2) for bb, t2 in b.calls_named('get', region) if 'Precedence' in ''.join(callee_of(t2)['args'])]
        if gets:
            found.append((own, region, [(nb, t)], gets))
    if not found:
        # the same search written with iterator combinators: find_map over the production's symbols
        comb = r33_combinator(facts, res, b, R)
        if comb is None:
            return
        h, body = comb
        search_entry = h
    elif len(found) != 1:
        res.lost(R, 'expected exactly one loop over a production\'s symbols that looks a token up in the precedence table, found %d' % len(found))
        return
    else:
        h, body, nexts, gets = found[0]
        search_entry = h
        nx = nexts[0][1]
        self_ty = callee_of(nx).get('self_ty') or ''
        if 'rev::Rev<' in self_ty and 'slice::iter::Iter<' in self_ty:
            res.ok(R, 'search-direction', loc_of(b, nexts[0][0]), 'symbols are searched from the end (Rev<slice::Iter<Symbol>>): the last token decides')
        else:
            res.bad(R, 'search-direction', loc_of(b, nexts[0][0]),
                    'production precedence search iterates %s: Yacc takes the precedence of the LAST token' % self_ty)
        gb = gets[0][0]
        inside = b.reachable(b.succs(gb), avoid=headers - {h})
        if h in inside:
            res.bad(R, 'last-token-decides', loc_of(b, gb), 'after looking at a token the search continues to earlier symbols: a token without precedence must still end the search')
        else:
            res.ok(R, 'last-token-decides', loc_of(b, gb), 'the first token met (from the end) ends the search whether or not it has a precedence')
        body = loops[h] | body
    # %prec: a lookup `precs[name]` (Index::index on the precs map) exists outside the loop and is control dependent
    # on the discriminant of the AST production's `precedence` field
    idx = [(bb, t) for bb, t in b.calls_named('index') if 'Precedence' in ''.join(callee_of(t)['args']) and bb not in body]
    if not idx:
        res.bad(R, 'prec-override', loc_of(b), 'no indexing of the precedence table by a %prec name found')
    else:
        res.ok(R, 'prec-override', loc_of(b, idx[0][0]), '%prec name is looked up in the precedence table')
        # the override must exclude the search: the search loop header is not reachable from the override lookup
        # without passing the per-production loop header
        outer = [h2 for h2, bd in loops.items() if search_entry in bd and h2 != search_entry]
        avoid = set(outer)
        if search_entry in b.reachable([idx[0][0]], avoid=avoid):
            res.bad(R, 'prec-override-exclusive', loc_of(b, idx[0][0]), 'the token search still runs after a %prec override')
        else:
            res.ok(R, 'prec-override-exclusive', loc_of(b, idx[0][0]), 'the token search is skipped when %prec is given')


def const_str_of(b, op, depth=5):
    """the string literal an operand holds (directly, or through temporaries / reborrows), else None"""
    c = op.get('const')
    if c is not None:
        return c.get('str')
    l = op_local(op)
    if l is None or depth == 0 or b.name_of(l):
        return None
    ds = b.defs().get(l, [])
    if len(ds) != 1 or ds[0][1] != 'stmt':
        return None
    rv = ds[0][2]
    if 'use' in rv:
        return const_str_of(b, rv['use'], depth - 1)
    if 'ref' in rv:
        return const_str_of(b, {'copy': {'l': rv['ref']['l'], 'p': []}}, depth - 1)
    return None


def r34(facts, res):
    R = 'R3.4'
    b = facts.one(R, 'YaccParser::parse_declarations', crate='cfgrammar', name='parse_declarations')
    assoc = facts.adt(GR + 'AssocKind')
    want = {'%left': 'Left', '%right': 'Right', '%nonassoc': 'Nonassoc'}
    # each keyword literal is passed to lookahead_is; on its success edge an AssocKind variant is constructed
    got = {}
    for bb, t in b.calls_named('lookahead_is'):
        lit = None
        for a in t['args']:
            c = a.get('const')
            if c and 'str' in c:
                lit = c['str']
        if lit not in want:
            continue
        # blocks reachable on the Some edge until the next lookahead_is call
        nxt = t['ret']
        stopset = {x for x, _ in b.calls_named('lookahead_is')}
        region = b.reachable([nxt], stop=lambda x: x in stopset and x != nxt)
        kinds = set()
        for rb in region:
            if rb in stopset and rb != nxt:
                continue
            for s in b.blocks[rb]['stmts']:
                if s['k'] == 'assign' and 'agg' in s['rv'] and isinstance(s['rv']['agg'], dict) \
                        and s['rv']['agg'].get('adt', '').endswith('AssocKind'):
                    kinds.add(s['rv']['agg']['vname'])
        got[lit] = (kinds, bb)
    if not got:
        # the same mapping as a literal table [(keyword, kind), ..] searched with find_map: each row pairs the keyword with its kind,
        # and the searching closure tests ITS row's keyword and answers with ITS row's kind
        rows = {}
        for bb, i, st in b.stmts():
            rv = st['rv'] if st['k'] == 'assign' else {}
            lit0 = const_str_of(b, rv['ops'][0]) if rv.get('agg') == 'tuple' and len(rv['ops']) == 2 else None
            if lit0 in want:
                kl = op_local(rv['ops'][1])
                ks = {d[2]['agg']['vname'] for d in b.defs().get(kl, []) if d[1] == 'stmt' and 'agg' in d[2] and isinstance(d[2]['agg'], dict) and d[2]['agg'].get('adt', '').endswith('AssocKind')}
                rows[lit0] = (ks, bb)
        row_ok = False
        for c in facts.closures_of(b):
            if not c.calls_named('lookahead_is'):
                continue
            isrow = lambda x, f: isinstance(x, tuple) and len(x) > 2 and x[0] == 'field' and x[2] == f and strip_ref(x[1]) in (('param', 2), ('deref', ('param', 2)))
            ps = [p for p in Walker(c, facts, max_paths=32).run() if p.end[0] == 'return' and find_variant(p.end[1], 'Option') is not None and find_variant(p.end[1], 'Option')[3] == 'Some']
            good = bool(ps)
            for p in ps:
                la = [e for e in p.calls(name='lookahead_is')]
                v = find_variant(p.end[1], 'Option')
                kind_from_row = term_has(v, lambda x: isrow(x, 1))
                kw_from_row = bool(la) and any(isrow(strip_ref(a), 0) for a in la[0][3])
                if not (kind_from_row and kw_from_row):
                    good = False
            row_ok = row_ok or good
        if rows and row_ok:
            got = rows
    for lit, k in want.items():
        if lit not in got:
            res.bad(R, 'keyword:' + lit, loc_of(b), 'keyword literal %s is not tested by the declaration parser' % lit)
        elif got[lit][0] == {k}:
            res.ok(R, 'keyword:' + lit, loc_of(b, got[lit][1]), '%s -> AssocKind::%s' % (lit, k))
        else:
            res.bad(R, 'keyword:' + lit, loc_of(b, got[lit][1]), '%s constructs %s, expected AssocKind::%s' % (lit, sorted(got[lit][0]), k))
    # level counter: the Precedence aggregate's level operand is a local that is incremented by exactly 1 in the loop
    precs = []
    for bb, i, s in b.stmts():
        if s['k'] == 'assign' and 'agg' in s['rv'] and isinstance(s['rv']['agg'], dict) and s['rv']['agg'].get('adt', '').endswith('::Precedence'):
            precs.append((bb, s))
    if not precs:
        res.lost(R, 'no construction of Precedence in parse_declarations')
        return
    for bb, s in precs:
        lvl = op_local(s['rv']['ops'][0])
        # trace through a copy
        src = lvl
        for b2, i2, s2 in b.stmts():
            if s2['k'] == 'assign' and pkey(s2['lhs']) == (lvl, ()) and 'use' in s2['rv']:
                l2 = op_local(s2['rv']['use'])
                if l2 is not None:
                    src = l2
        incs = []
        for b2, i2, s2 in b.stmts():
            if s2['k'] == 'assign' and 'bin' in s2['rv'] and s2['rv']['bin'] in ('AddWithOverflow', 'Add'):
                a, c = s2['rv']['a'], s2['rv']['b']
                if op_local(a) == src and c.get('const', {}).get('int') is not None:
                    incs.append((b2, c['const']['int']))
        if len(incs) == 1 and incs[0][1] == 1:
            res.ok(R, 'level-counter', loc_of(b, bb), 'precedence level is a counter incremented by 1 once per declaration')
        else:
            res.bad(R, 'level-counter', loc_of(b, bb), 'precedence level is not a counter incremented by exactly 1 (found increments %s)' % incs)


def r35(facts, res):
    """%expect rule, decided by finite-model enumeration: along every path of the region between table construction
    and code generation, the branch conditions are literals over (error_on_conflicts, conflicts present, expect
    declared, expectrr declared, and equalities between expect/expectrr values, sr_len/rr_len and constants).  For
    every assignment over a small domain that satisfies a path's literals, the specification
        fail <=> error_on_conflicts and (expect.unwrap_or(0) != sr or expectrr.unwrap_or(0) != rr)   (sr=rr=0 without conflicts)
    must agree with what the path does (returns an error / continues)."""
    R = 'R3.5'
    b = facts.one(R, 'CTParserBuilder::build', crate='lrpar', name='build', impl_re=r'ctbuilder::CTParserBuilder<')
    fy = b.calls_named('from_yacc')
    if len(fy) != 1:
        res.lost(R, 'expected one call of from_yacc in CTParserBuilder::build, found %d' % len(fy))
        return
    out_calls = {bb for bb, _ in b.calls_named('output_file')}
    if not out_calls:
        res.lost(R, 'no output_file call after from_yacc')
        return
    headers = set(b.loops().keys())
    # the region ends where the build turns to things unrelated to conflicts: the run-time inspector hook, the
    # header bookkeeping (unused/missing keys) or code generation
    for bb, _t in b.calls_named('unused') + b.calls_named('missing'):
        out_calls.add(bb)
    for bb, i, st in b.stmts():
        if st['k'] == 'assign':
            pl = st['rv'].get('discr') or st['rv'].get('ref')
            if pl and any(isinstance(q, dict) and q.get('name') == 'inspect_rt' for q in pl['p']):
                out_calls.add(bb)
    w = Walker(b, facts, max_paths=8192)
    ps = w.run(fy[0][0], stop=lambda x: x in out_calls or x in headers)
    if w.overflow:
        res.lost(R, 'path bound exceeded')
        return
    res.count('R3.5 paths', len(ps))

    class Unknown(Exception):
        pass

    def ev(t, m):
        k = t[0]
        if k == 'const':
            return t[1]
        if k == 'ref' or k == 'deref':
            return ev(t[1], m)
        if k == 'call':
            nm = strip_generics(t[1]).split('::')[-1]
            if nm == 'expect' and 'YaccGrammar' in t[1]:
                return ('opt', m['has_e'], m['e'])
            if nm == 'expectrr' and 'YaccGrammar' in t[1]:
                return ('opt', m['has_r'], m['r'])
            if nm == 'conflicts' and 'StateTable' in t[1]:
                return ('opt', m['confl'], 'C')
            if nm in ('sr_len', 'rr_len'):
                c = ev(t[2][0], m)
                if c != 'C':
                    raise Unknown()
                return m['s'] if nm == 'sr_len' else m['q']
            if nm == 'unwrap_or':
                o = ev(t[2][0], m)
                if isinstance(o, tuple) and o[0] == 'opt':
                    return o[2] if o[1] else ev(t[2][1], m)
            if nm in ('is_none', 'is_some'):
                o = ev(t[2][0], m)
                if isinstance(o, tuple) and o[0] == 'opt':
                    return int(o[1] == (nm == 'is_some'))
            raise Unknown()
        if k == 'discr':
            o = ev(t[1], m)
            if isinstance(o, tuple) and o[0] == 'opt':
                return int(o[1])
            raise Unknown()
        if k == 'downcast':
            o = ev(t[1], m)
            if isinstance(o, tuple) and o[0] == 'opt':
                if not o[1]:
                    raise Unknown()
                return ('some', o[2])
            raise Unknown()
        if k == 'field':
            if t[3] == 'error_on_conflicts':
                return m['eoc']
            o = ev(t[1], m)
            if isinstance(o, tuple) and o[0] == 'some':
                return o[1]
            if isinstance(o, tuple) and o[0] == 'tuple':
                return o[1][t[2]]
            raise Unknown()
        if k == 'tuple':
            return ('tuple', [ev(x, m) for x in t[1]])
        if k == 'bin':
            a, c = ev(t[2], m), ev(t[3], m)
            if t[1] in ('Eq', 'Ne') and isinstance(a, tuple) and isinstance(c, tuple) and a[0] == 'tuple' and c[0] == 'tuple' and len(a[1]) == len(c[1]) \
                    and all(isinstance(x, int) for x in a[1] + c[1]):
                same = all(x == y for x, y in zip(a[1], c[1]))        # (a, b) == (c, d)
                return int(same == (t[1] == 'Eq'))
            if not isinstance(a, int) or not isinstance(c, int):
                raise Unknown()
            return {'Eq': int(a == c), 'Ne': int(a != c), 'Lt': int(a < c), 'Le': int(a <= c)}[t[1]]
        if k == 'un' and t[1] == 'Not':
            return 1 - ev(t[2], m)
        raise Unknown()

    import itertools
    models = []
    for eoc, confl, has_e, has_r in itertools.product((0, 1), repeat=4):
        for e, r in itertools.product((0, 1, 2), repeat=2):
            srq = list(itertools.product((0, 1, 2), repeat=2)) if confl else [(0, 0)]
            for sq in srq:
                if confl and sq == (0, 0):
                    continue  # a conflicts object lists at least one conflict
                models.append({'eoc': eoc, 'confl': confl, 'has_e': has_e, 'has_r': has_r, 'e': e, 'r': r, 's': sq[0], 'q': sq[1]})
    res.count('R3.5 abstract models', len(models))

    def spec(m):
        es = m['e'] if m['has_e'] else 0
        rs = m['r'] if m['has_r'] else 0
        return bool(m['eoc'] and (es != m['s'] or rs != m['q']))

    covered = set()
    bad_rows = {}
    ok_rows = {}
    for p in ps:
        # skip `?` propagation of unrelated failures (from_yacc error, inspector callback)
        if any(c[0] == 'discr' and is_call(c[1], 'branch') and v != 0 for c, v in p.conds):
            continue
        if p.end[0] == 'return':
            outcome = True
        elif p.end[0] == 'stop' and p.end[1] in out_calls:
            outcome = False
        else:
            continue
        lits = []
        for c, v in p.conds:
            lits.append((c, v))
        for i, m in enumerate(models):
            sat = True
            for c, v in lits:
                try:
                    x = ev(c, m)
                except Unknown:
                    continue  # condition over something else (drop flags, inspector, ...)
                except (KeyError, IndexError, TypeError):
                    continue
                if not isinstance(x, int):
                    continue
                if isinstance(v, int):
                    if x != v:
                        sat = False
                        break
                elif isinstance(v, tuple) and v[0] == 'ne':
                    if x in v[1]:
                        sat = False
                        break
            if not sat:
                continue
            covered.add(i)
            row = 'eoc=%d conflicts=%d expect=%s expectrr=%s sr=%d rr=%d' % (
                m['eoc'], m['confl'], m['e'] if m['has_e'] else 'none', m['r'] if m['has_r'] else 'none', m['s'], m['q'])
            if spec(m) != outcome:
                bad_rows.setdefault(row, (m, p, outcome))
            else:
                ok_rows.setdefault(row, p)
    # group reports
    for row, (m, p, outcome) in sorted(bad_rows.items()):
        cls = 'no-conflicts' if not m['confl'] else 'conflicts'
        key = 'expect-rule/%s/%s' % (cls, 'builds-but-must-fail' if not outcome else 'fails-but-must-build')
        if any(i['key'] == R + ':' + key for i in res.instances):
            continue
        n_same = sum(1 for r2, (m2, _, o2) in bad_rows.items() if bool(m2['confl']) == bool(m['confl']) and o2 == outcome)
        res.bad(R, key, loc_of(b, p.blocks[-1]),
                'e.g. %s: the build %s, but %%expect/%%expect-rr (default 0) %s the conflict counts (%d abstract cases like this)'
                % (row, 'fails' if outcome else 'continues to code generation', 'equal' if outcome else 'differ from', n_same),
                {'function': b.path, 'blocks': p.blocks, 'conds': [(fmt_term(t), str(v)) for t, v in p.conds],
                 'all_cases': sorted(r2 for r2, (m2, _, o2) in bad_rows.items() if bool(m2['confl']) == bool(m['confl']) and o2 == outcome)[:40]})
    missing = [i for i in range(len(models)) if i not in covered]
    if missing:
        res.bad(R, 'expect-rule/uncovered', loc_of(b, fy[0][0]), '%d abstract cases are not covered by any path (first: %s)' % (len(missing), models[missing[0]]))
    good = [r for r in ok_rows if r not in bad_rows]
    groups = {}
    for r in good:
        m = dict(x.split('=') for x in r.split())
        groups.setdefault((m['eoc'], m['conflicts']), []).append(r)
    for (eoc, confl), rows in sorted(groups.items()):
        res.ok(R, 'expect-rule/eoc=%s/conflicts=%s' % (eoc, confl), loc_of(b, ok_rows[rows[0]].blocks[-1]),
               '%d abstract cases agree with: fail <=> conflicts are errors and a count differs from its %%expect (default 0)' % len(rows))
    res.floor(R, 'abstract cases covered', len(covered), 200)


def strip_tuple_field(t):
    while isinstance(t, tuple) and t and t[0] in ('field', 'downcast'):
        t = t[1]
    return t


def r36(facts, res):
    """"The reported conflicts are exactly the cells settled by the default rules": the two conflict lists handed to `Conflicts`
    only ever GROW (one record per settled cell, R3.1/R3.2) and are re-ordered; nothing takes records out again.  A dedup, retain,
    truncate .. after the fact makes the report - and the %expect / %expect-rr counts compared with it - smaller than what was
    settled."""
    R = 'R3.6'
    b = facts.one(R, 'StateTable::new', crate='lrtable', name='new', impl_re=r'statetable::StateTable<')
    lit = None
    for bb, i, st in b.stmts():
        if st['k'] == 'assign' and 'agg' in st['rv'] and isinstance(st['rv']['agg'], dict) and st['rv']['agg'].get('adt', '').endswith('statetable::Conflicts'):
            lit = st
    if lit is None:
        res.lost(R, 'the Conflicts literal was not found in StateTable::new')
        return
    lists = {b.op_root(o, stop_named=True)[0] for o in lit['rv']['ops']}
    lists = {l for l in lists if b.lty(l).startswith('alloc::vec::Vec<')}
    if len(lists) != 2:
        res.lost(R, 'expected two conflict lists feeding the Conflicts literal, found %d' % len(lists))
        return
    SHRINKING = ('dedup', 'dedup_by', 'dedup_by_key', 'retain', 'retain_mut', 'truncate', 'clear', 'pop', 'remove', 'swap_remove', 'drain', 'split_off', 'extract_if')
    for l in sorted(lists):
        shr = []
        n = 0
        for bb, t in b.calls():
            for a in t['args']:
                la = op_local(a)
                if la is not None and b.lty(la).startswith('&mut ') and b.op_root(a)[0] == l:
                    n += 1
                    if cname(t) in SHRINKING:
                        shr.append((bb, cname(t)))
        key = 'grow-only:' + (b.name_of(l) or '_%d' % l)
        if shr:
            res.bad(R, key, loc_of(b, shr[0][0]), 'records are taken out of the conflict list `%s` again (%s): fewer conflicts are reported, and counted against %%expect / %%expect-rr, '
                    'than cells were settled by the default rules' % (b.name_of(l), ', '.join(sorted({x for _b, x in shr}))), {'function': b.path})
        elif n == 0:
            res.lost(R, 'the conflict list `%s` is never filled' % b.name_of(l))
        else:
            res.ok(R, key, loc_of(b), '`%s` is only appended to and re-ordered (%d mutating uses, none removes records)' % (b.name_of(l), n))


def run(facts, res):
    r36(facts, res)
    r31(facts, res)
    r32(facts, res)
    r33(facts, res)
    r34(facts, res)
    r35(facts, res)
