"""C07 Error recovery always progresses and the error list matches the outcome (DESIGN.md §4 C07) - partial.

R7.1 driver table: with recovery on, an Error action calls recover once, pushes exactly one error carrying the returned
     repairs, returns None iff the repairs are empty, otherwise continues at the returned input index
R7.2 the time budget only shrinks and bounds the deadline; every loop of the recovery cone is deadline-tested, iterator
     driven, counter-bounded or consuming
R7.3 every failing exit of recover returns (the input index it was given, no repairs)
R7.5 the cost-bucket list of the search is long enough for a neighbour's cost when it is indexed with it (any token costs)
R7.4 success criterion of the search: three trailing REAL shifts (Repair(Shift) / Merge(Shift,_)) or Accept
"""
from mirlib import *
from lrstep import *
import progress

META = {
    'level': 'other',
    'explanation': 'R7.1 (with R4.1) gives: every error except possibly the last carries at least one repair sequence, a value is '
                   'returned only if every error does. R7.2: the budget is only ever replaced by budget.checked_sub(elapsed) '
                   'clamped at zero and the deadline handed to recover is now + budget; in the recovery cone (dijkstra, '
                   'collect_repairs/traverse, rank_cnds) every cycle of every loop either runs the deadline test, is driven '
                   'by a std iterator, strictly increases a counter, or pops from a container it does not grow. R7.3: when '
                   'recovery gives up it returns the unchanged input index with an empty repair list. NOT decided: that '
                   'reported positions are strictly increasing three lexemes apart - that depends on what the search finds.',
}


def r71(facts, res, R='R7.1'):
    b = find_fn(facts, R, 'lr')
    tab, lookup, lh = arms(facts, R, b)
    errs = tab.get('Error', [])
    errors_param = [i for i in range(1, b.arg_count + 1) if 'LexParseError' in b.lty(i)]
    if not errs or len(errors_param) != 1:
        res.lost(R, 'Error arm / error list of Parser::lr not found')
        return
    eroot = ('param', errors_param[0])
    stidx_t, tidx_t = lookup[2][1], lookup[2][2]
    la = find_calls(tidx_t, 'next_tidx')
    laidx_t = la[0][2][1] if la else None
    on = [p for p in errs if p.calls(name='recover')]
    if not on:
        res.bad(R, 'recovery-on-arm', loc_of(b, lh), 'no path of the Error arm calls recover')
        return
    seen = {'gives-up': 0, 'continues': 0}
    for i, p in enumerate(on):
        probs = []
        rc = p.calls(name='recover')
        if len(rc) != 1:
            probs.append('recover called %d times' % len(rc))
        rterm = rc[0][5]
        pu = pushes_on(p, eroot)
        if len(pu) != 1:
            probs.append('%d errors pushed (must be exactly one)' % len(pu))
        else:
            pe = find_variant(pu[0][3][1], 'ParseError')
            if pe is None:
                probs.append('pushed value is not a ParseError')
            else:
                names = [f['name'] for f in facts.adt(pe[1])['variants'][0]['fields']]
                fv = dict(zip(names, pe[4]))
                if fv.get('stidx') != stidx_t:
                    probs.append('error does not carry the looked-up state')
                lx = fv.get('lexeme')
                if not (is_call(lx, 'next_lexeme') and lx[2][1] == laidx_t):
                    probs.append('error lexeme is not next_lexeme at the lookup index')
                rp = strip_ref(fv.get('repairs'))
                if not (rp[0] == 'field' and rp[2] == 1 and rp[1] == rterm):
                    probs.append('error does not carry the repairs returned by recover: %s' % fmt_term(rp)[:120])
        empt = [(c, v) for c, v in p.conds if term_has(c, lambda x: is_call(x, 'is_empty')) and term_has(c, lambda x: x == rterm)]
        keep = None
        for c, v in empt:
            neg = c[0] == 'un' and c[1] == 'Not'
            is_emp = (v == 1) != neg
            keep = not is_emp
        if keep is None:
            probs.append('the outcome does not depend on whether the repairs are empty')
        elif keep:
            seen['continues'] += 1
            if p.end[0] != 'stop':
                probs.append('repairs non-empty but the parse does not continue')
            fin = p.env.get((2, ()))
            laparam = laidx_t[1] if laidx_t and laidx_t[0] == 'param' else None
            fin = p.env.get((laparam, ())) if laparam else None
            if not (fin is not None and fin[0] == 'field' and fin[2] == 0 and fin[1] == rterm):
                probs.append('the input index does not become the one returned by recover (%s)' % (fmt_term(fin)[:100] if fin else None))
        else:
            seen['gives-up'] += 1
            if not (p.end[0] == 'return' and find_variant(p.end[1], 'None') is not None):
                probs.append('repairs empty but the parse does not return None')
        key = 'recovery-on-arm/%s#%d' % ('continues' if keep else 'gives-up', i)
        if probs:
            res.bad(R, key, loc_of(b, p.blocks[-1]), '; '.join(probs), {'blocks': p.blocks})
        else:
            res.ok(R, key, loc_of(b, p.blocks[-1]), 'one recover call, one error carrying its repairs; %s' % ('continues at the returned index' if keep else 'returns None'))
    if not seen['gives-up'] or not seen['continues']:
        res.bad(R, 'recovery-on-arm/coverage', loc_of(b, lh), 'Error arm does not distinguish empty from non-empty repairs (%s)' % seen)


FACTS_72 = []


def zero_duration(t):
    """a Duration that is zero whatever the input: Duration::new(0, 0), from_*(0), default(), or a constant"""
    if t[0] == 'closure':
        cb = FACTS_72[0].bodies.get(t[1]) if FACTS_72 else None
        if cb is None:
            return False
        ps = Walker(cb, FACTS_72[0], max_paths=64).run()
        return bool(ps) and all(p.end[0] == 'return' and zero_duration(p.end[1]) and p.end[1][0] != 'closure' for p in ps)
    if is_call(t, 'new') and 'Duration' in t[1] and all(a == ('const', 0) for a in t[2]):
        return True
    if t[0] == 'call' and 'Duration' in t[1] and t[1].rsplit('::', 1)[-1].startswith('from_') and all(a == ('const', 0) for a in t[2]):
        return True
    if is_call(t, 'default') and not t[2]:
        return True
    return t[0] == 'cst' and 'Duration' in (t[1] or '')


def measured(x):
    """the amount taken off the budget IS a measured time (now - earlier instant, earlier.elapsed(), now.duration_since(earlier)),
    not something merely computed from one (min(0, elapsed) takes nothing off)"""
    x = strip_ref(x)
    inst = lambda y: term_has(y, lambda z: is_call(z, 'now'))
    if x[0] != 'call':
        return False
    nm = x[1].rsplit('::', 1)[-1]
    if nm == 'sub' and len(x[2]) == 2:                      # Instant - Instant
        return is_call(strip_ref(x[2][0]), 'now') and inst(x[2][1])
    if nm in ('duration_since', 'saturating_duration_since') and len(x[2]) == 2:
        return is_call(strip_ref(x[2][0]), 'now') and inst(x[2][1])
    if nm == 'elapsed' and len(x[2]) == 1:                  # before.elapsed()
        return inst(x[2][0])
    return False


def shrinks(newB, B):
    """the new budget is the old one minus a measured time, clamped at zero: never more than the old one"""
    t = newB
    if t == B:
        return True
    if t[0] != 'closure' and zero_duration(t):
        return True
    if is_call(t, 'saturating_sub') and t[2][0] == B and measured(t[2][1]):
        return True
    # the Some payload of budget.checked_sub(elapsed), reached on a path that matched Some
    if t[0] == 'field' and t[1][0] == 'downcast' and is_call(t[1][1], 'checked_sub'):
        cs = t[1][1]
        return cs[2][0] == B and measured(cs[2][1])
    if t[0] == 'call' and t[1].rsplit('::', 1)[-1] in ('unwrap_or_else', 'unwrap_or', 'unwrap_or_default') and is_call(t[2][0], 'checked_sub'):
        cs = t[2][0]
        if not (cs[2][0] == B and measured(cs[2][1])):
            return False
        return len(t[2]) == 1 or zero_duration(t[2][1])
    return False


def r72(facts, res):
    R = 'R7.2'
    FACTS_72[:] = [facts]
    b = find_fn(facts, R, 'lr')
    tab, lookup, lh = arms(facts, R, b)
    on = [p for p in tab.get('Error', []) if p.calls(name='recover')]
    okb = 0
    for p in on:
        rc = p.calls(name='recover')[0]
        fb = rc[3][1]
        # finish_by = add(now(), B)
        if not (is_call(fb, 'add') and is_call(fb[2][0], 'now')):
            res.bad(R, 'deadline', loc_of(b, rc[1]), 'recover is not given now() + budget as its deadline: %s' % fmt_term(fb)[:120])
            return
        B = fb[2][1]
        if B[0] != 'uninit':
            res.bad(R, 'deadline', loc_of(b, rc[1]), 'the deadline is not computed from the running budget variable')
            return
        newB = p.env.get((B[1], ()))
        shape = newB is not None and shrinks(newB, B)
        if shape:
            okb += 1
        else:
            res.bad(R, 'budget-monotone', loc_of(b, rc[1]), 'the budget is not replaced by budget.checked_sub(elapsed) clamped at zero: %s' % (fmt_term(newB)[:160] if newB else None))
            return
    if okb:
        res.ok(R, 'budget-monotone', loc_of(b, lh), 'deadline = now + budget; budget := budget.checked_sub(elapsed).unwrap_or(0) on all %d recovery paths' % okb)
    # the neighbours closure starts with the deadline test
    rec = [x for x in facts.lib_bodies(['lrpar']) if x.name == 'recover' and 'CPCTPlus' in (x.impl_of or '')]
    if len(rec) != 1:
        res.lost(R, 'CPCTPlus::recover not found')
        return
    rec = rec[0]
    clos = facts.closures_of(rec)
    dl = []
    for c in clos:
        nows = c.calls_named('now')
        if nows and all(c.dominates(nows[0][0], r) or r == nows[0][0] for r in [bb for bb, t in c.calls() if cname(t) in ('insert', 'delete', 'shift')]):
            # the comparison's failing side returns false
            w = Walker(c, facts, max_paths=64)
            ps = w.run()
            late = [p for p in ps if any(term_has(cd, lambda x: is_call(x, 'now')) and ((cd[0] == 'bin' and cd[1] in ('Le', 'Lt'))) for cd, v in p.conds)]
            gives_up = [p for p in ps if p.end[0] == 'return' and p.end[1] == ('const', 0) and not p.calls(name='shift')]
            if gives_up:
                dl.append(c)
    if dl:
        res.ok(R, 'neighbours-deadline', loc_of(dl[0]), 'the neighbour generator tests the deadline before generating anything and reports false when it has passed')
    else:
        res.bad(R, 'neighbours-deadline', loc_of(rec), 'the neighbour closure passed to the search does not start with a deadline test')
    # which parameter of the search receives the deadline-tested closure?
    dl_param = None
    for bb, t in rec.calls_named('dijkstra'):
        for i, a in enumerate(t['args']):
            l = op_local(a)
            if l is None:
                continue
            for d in rec.defs().get(l, []):
                if d[1] == 'stmt' and 'agg' in d[2] and isinstance(d[2]['agg'], dict) and dl and d[2]['agg'].get('closure') == dl[0].path:
                    dl_param = i + 1
    # loops of the recovery cone
    pr = progress.Progress(facts, ['lrpar'])
    cone_fns = [x for x in facts.lib_bodies(['lrpar']) if (x.path.startswith('lrpar::dijkstra::') or x.path.startswith('lrpar::cpctplus::'))
                and not x.from_expansion and (x.root_parent or x.path).split('::')[-1] not in ('fmt', 'eq', 'hash')]
    n = 0
    for fb in cone_fns:
        loops = fb.loops()
        if not loops:
            continue
        root = strip_generics(fb.root_parent or fb.path)
        if not any(k in root for k in ('dijkstra', 'recover', 'collect_repairs', 'traverse', 'rank_cnds')):
            continue
        for i, h in enumerate(sorted(loops)):
            n += 1
            key = 'loop:%s@%d' % (strip_generics(fb.path), i)
            kind, detail = pr.loop_evidence(fb, h)
            if kind in ('T1', 'T0'):
                res.ok(R, key, loc_of(fb, h), '%s: %s' % (kind, detail))
                continue
            cyc, ovf = pr.cycles(fb, h)
            if ovf:
                res.bad(R, key, loc_of(fb, h), 'cannot enumerate cycles')
                continue
            bad = None
            kinds = set()
            for p in cyc:
                deadline = any(e[0] == 'call' and e[2] is not None and e[2]['name'] == 'now' for e in p.events)
                if not deadline and dl_param is not None and fb.name == 'dijkstra':
                    deadline = any(e[0] == 'call' and e[2] is not None and e[2]['name'] in ('call', 'call_mut')
                                   and e[3] and strip_ref(e[3][0]) == ('param', dl_param) for e in p.events)
                counter = False
                for (l, pj), v in p.env.items():
                    if isinstance(l, int) and not pj and fb.name_of(l) and fb.lty(l) in ('u16', 'usize', 'u32', 'u64'):
                        pr.set_conds(p.conds)
                        if pr.rel(v, pr.base_of(fb, l), fb) == progress.GT:
                            counter = True
                pops = [e for e in p.calls(name='pop')]
                def container(e):
                    blk = fb.term(e[1])
                    return fb.op_root(blk['args'][0], through=Body.THROUGH + ('index', 'index_mut'))[0] if blk['args'] else None
                grows = [e for e in p.calls() if e[2] is not None and e[2]['name'] in ('insert', 'entry', 'push', 'extend', 'resize')
                         and pops and container(e) == container(pops[0])]
                consuming = bool(pops) and not grows
                if deadline:
                    kinds.add('deadline-tested')
                elif counter:
                    kinds.add('counter')
                elif consuming:
                    kinds.add('consuming')
                else:
                    bad = p
                    break
            if bad is None and cyc:
                res.ok(R, key, loc_of(fb, h), 'every one of the %d cycles is %s' % (len(cyc), '/'.join(sorted(kinds))))
            else:
                res.bad(R, key, loc_of(fb, h), 'a cycle of this recovery loop neither tests the deadline, nor is iterator driven, counter bounded or consuming',
                        {'blocks': bad.blocks if bad else None})
    res.floor(R, 'loops in the recovery cone', n, 6)
    # traverse: deadline test dominates the recursive calls
    tr = [x for x in facts.lib_bodies(['lrpar']) if x.name == 'traverse' and x.path.startswith('lrpar::cpctplus::')]
    for t_ in tr:
        nows = t_.calls_named('now')
        recs = [bb for bb, t in t_.calls() if (cpath(t) or '') == t_.path]
        if nows and recs and all(t_.dominates(nows[0][0], r) for r in recs):
            res.ok(R, 'traverse-deadline', loc_of(t_), 'the recursive collection of repairs tests the deadline before every recursive step')
        else:
            res.bad(R, 'traverse-deadline', loc_of(t_), 'recursive repair collection is not guarded by a deadline test')


def r73(facts, res):
    R = 'R7.3'
    rec = [x for x in facts.lib_bodies(['lrpar']) if x.name == 'recover' and 'CPCTPlus' in (x.impl_of or '')]
    if len(rec) != 1:
        res.lost(R, 'CPCTPlus::recover not found')
        return
    b = rec[0]
    w = Walker(b, facts, max_paths=4096)
    w.widen_headers = set(b.loops())
    import progress as _p
    pr = _p.Progress(facts, ['lrpar'])
    w.widen_assigned = {h: pr.loop_assigned(b, h) for h in w.widen_headers}
    ps = w.run()
    if w.overflow:
        res.lost(R, 'path bound exceeded')
        return
    in_laidx = [i for i in range(1, b.arg_count + 1) if b.lty(i) == 'usize']
    if len(in_laidx) != 1:
        res.lost(R, 'cannot identify the input index parameter of recover')
        return
    il = ('param', in_laidx[0])
    nfail = nok = 0
    for p in ps:
        if p.end[0] != 'return':
            continue
        r = p.end[1]
        if r[0] != 'tuple' or len(r[1]) != 2:
            res.bad(R, 'exit-shape', loc_of(b, p.blocks[-1]), 'recover returns something that is not an (index, repairs) pair')
            continue
        idx, rp = r[1]
        empty = (rp[0] == 'call' and (rp[1].endswith('Vec::<T>::new') or 'into_vec' in rp[1] or 'from_elem' in rp[1])) or term_has(rp, lambda x: x == ('array', ()))
        if empty:
            nfail += 1
            if idx != il:
                res.bad(R, 'failing-exit', loc_of(b, p.blocks[-1]), 'recovery gives up but returns input index %s instead of the one it was given' % fmt_term(idx)[:80])
        else:
            nok += 1
            if not is_call(idx, 'apply_repairs'):
                res.bad(R, 'success-exit', loc_of(b, p.blocks[-1]), 'successful recovery does not return the index reached by replaying the repairs')
    if nfail >= 3 and not any(i['rule'] == R and i['verdict'] != 'pass' for i in res.instances):
        res.ok(R, 'failing-exit', loc_of(b), 'all %d give-up exits return (in_laidx, vec![])' % nfail)
    if nok >= 1 and not any(i['rule'] == R and i['verdict'] != 'pass' and 'success' in i['key'] for i in res.instances):
        res.ok(R, 'success-exit', loc_of(b), 'the success exit returns (index after replaying the first sequence, ranked sequences)')
    if nfail < 3 or nok < 1:
        res.lost(R, 'expected >=3 give-up exits and >=1 success exit of recover, found %d / %d' % (nfail, nok))


def r74(facts, res):
    """a repair is accepted only after three REAL shifts (or Accept): shared with C05's success-criterion rule, because
    consecutive errors lie at least three lexemes apart only if the search really demands three shifts"""
    import c05
    c05.r52(facts, res, 'R7.4')
    import c06
    c06.r610(facts, res, 'R7.6')       # a Shift is recorded only for a move that consumed a lexeme: the three trailing shifts are three real lexemes
    import c05
    c05.r56(facts, res, 'R7.7')
    c05.r57(facts, res, 'R7.8')       # the replay parses [i, end): an inclusive end moves the real stack further than the search did        # the replay on the real stacks moves as far as the sequence says: else the driver re-reports inside the repaired stretch


def r75(facts, res, R='R7.5'):
    """"a parse always returns": the search indexes its list of cost buckets with a neighbour's cost right after making room for
    it.  On every path from the top of the neighbour loop to that index, the length the list was just given (Vec::resize(v, n):
    n; Vec::push: +1) exceeds the index - with ANY token costs, not only when every cost is 1 (linear bounds domain A10)."""
    import linarith as LA
    bs = [x for x in facts.lib_bodies(['lrpar']) if strip_generics(x.path) == 'lrpar::dijkstra::dijkstra']
    if len(bs) != 1:
        res.lost(R, 'lrpar::dijkstra::dijkstra not found')
        return
    b = bs[0]
    loops = b.loops()
    buckets = [l for l, ty in enumerate(b.locals) if ty['ty'].startswith('alloc::vec::Vec<indexmap::map::IndexMap<') and b.name_of(l)]
    if len(buckets) != 1:
        res.lost(R, 'cannot identify the bucket list of dijkstra (%d candidates)' % len(buckets))
        return
    V = buckets[0]
    sites = []
    for bb, t in b.calls():
        if cname(t) in ('index', 'index_mut') and t['args'] and b.op_root(t['args'][0])[0] == V:
            inl = [h for h in loops if bb in loops[h]]
            # inside a neighbour loop (nested in the main loop): the innermost loop around the site draws neighbours from a drain(..)
            if len(inl) >= 2:
                h = min(inl, key=lambda h: len(loops[h]))
                if any('Drain' in (callee_of(nt).get('self_ty') or '') for _nb, nt in b.calls_named('next', loops[h])):
                    sites.append((bb, t, h))
    if not sites:
        res.lost(R, 'no indexing of the bucket list inside a neighbour loop found')
        return
    for bb, t, h in sites:
        key = 'bucket-exists@L%d' % sites.index((bb, t, h))
        w = widening_walker(b, facts)
        w.widen_headers = set(loops) - {h}
        w.widen_assigned = {x: loop_assigned(b, x) for x in w.widen_headers}
        ps = [p for p in w.run(h, stop=lambda x: x == t['ret'] or x not in loops[h]) if any(e[0] == 'call' and e[1] == bb for e in p.events)]
        if w.overflow or not ps:
            res.lost(R, 'cannot enumerate the paths to the bucket index')
            continue
        why = None
        for p in ps:
            L0 = LA.Lin({('LEN0',): 1})
            def with_len(term, cur):
                # linear form of term with every len(bucket list) replaced by the current symbolic length
                def sub(x):
                    if isinstance(x, tuple) and x and x[0] == 'call' and strip_generics(x[1]).split('::')[-1] == 'len' and x[2] \
                            and term_has(x[2][0], lambda y: y == ('uninit', V) or (isinstance(y, tuple) and len(y) > 1 and y[0] == 'mutated' and y[1] == (V, ()))):
                        return ('LENPH',)
                    if isinstance(x, tuple):
                        return tuple(sub(y) if isinstance(y, tuple) else y for y in x)
                    return x
                L = LA.lin(sub(term))
                c = L.c.pop(('LENPH',), 0) if ('LENPH',) in L.c else 0
                out = LA.Lin(L.c, L.k)
                if c:
                    out = out + cur.scale(c)
                return out
            cur = L0
            idx = None
            for e in p.events:
                if e[0] != 'call' or not e[2]:
                    continue
                tt = b.term(e[1])
                if not tt['args'] or b.op_root(tt['args'][0])[0] != V:
                    continue
                nm = e[2]['name']
                if nm == 'resize':
                    cur = with_len(e[3][1], cur)
                elif nm == 'push':
                    cur = cur.plus(1)
                elif nm in ('truncate', 'clear', 'drain', 'pop', 'remove', 'swap_remove'):
                    cur = LA.Lin({('LEN?', e[1]): 1})
                elif e[1] == bb:
                    idx = e[3][1]
            ctx = LA.Ctx()
            import c19
            for c, v in p.conds:
                if c[0] == 'bin' and isinstance(v, int):
                    # comparisons that mention len(bucket list) are about the length at loop top
                    A, B = with_len(c[2], L0), with_len(c[3], L0)
                    op = c[1] if v else {'Eq': 'Ne', 'Ne': 'Eq', 'Lt': 'Ge', 'Ge': 'Lt', 'Le': 'Gt', 'Gt': 'Le'}.get(c[1])
                    if op == 'Eq':
                        ctx.add_eq(A - B)
                    elif op == 'Ne':
                        ctx.add_ne(A - B)
                    elif op == 'Lt':
                        ctx.add_ge((B - A).plus(-1))
                    elif op == 'Le':
                        ctx.add_ge(B - A)
                    elif op == 'Gt':
                        ctx.add_ge((A - B).plus(-1))
                    elif op == 'Ge':
                        ctx.add_ge(A - B)
            ob = (cur - with_len(idx, L0)).plus(-1)
            ctx.nonneg_atoms(ctx.ge + ctx.ne + [ob])
            ctx.saturate()
            if not ctx.proves(ob):
                why = 'on the path through blocks %s the bucket list has length %s when it is indexed with %s: not shown to be enough (a neighbour whose cost is more than one above the ' \
                      'last bucket - any token cost above 1 - indexes out of bounds and the parse panics inside recovery)' % (p.blocks[-8:], cur.show()[:60], fmt_term(idx)[:50])
                break
        if why:
            res.bad(R, key, loc_of(b, bb), why)
        else:
            res.ok(R, key, loc_of(b, bb), 'the bucket list is given a length above the cost before it is indexed with it (%d paths)' % len(ps))


def run(facts, res):
    r75(facts, res)
    r74(facts, res)
    r71(facts, res)
    r72(facts, res)
    r73(facts, res)
