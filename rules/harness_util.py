def loc_of(body, bb=None, line=None):
    if line is None and bb is not None:
        line = body.blocks[bb]['term'].get('line')
    if line is None:
        line = body.lo
    return '%s:%s' % (body.file, line)
