#!/usr/bin/env python3
"""development helper: python3 rules/dbg.py <factsdir> mir <path-regex> | paths <path-regex> [start]"""
import sys, os, json, re
sys.path.insert(0, os.path.dirname(os.path.abspath(__file__)))
import mirlib
from mirlib import *


def fmt_place(p, body=None):
    s = '_%d' % p['l']
    if body is not None and not p['p']:
        n = body.name_of(p['l'])
        if n:
            s += '{%s}' % n
    for pr in p['p']:
        if pr == 'deref':
            s = '(*%s)' % s
        elif 'f' in pr:
            s += '.%s' % (pr.get('name') or pr['f'])
        elif 'downcast' in pr:
            s = '(%s as %s)' % (s, pr.get('name') or pr['downcast'])
        elif 'index' in pr:
            s += '[_%d]' % pr['index']
        else:
            s += json.dumps(pr)
    return s


def fmt_op(o, body=None):
    if 'copy' in o:
        return fmt_place(o['copy'], body)
    if 'move' in o:
        return 'move ' + fmt_place(o['move'], body)
    c = o.get('const')
    if c is not None:
        if 'int' in c:
            return '%d_%s' % (c['int'], c['ty'])
        if 'str' in c:
            return json.dumps(c['str'])
        if 'fn' in c:
            return 'fn:' + (c['fn'].get('resolved') or c['fn']['path'])
        if 'static' in c:
            return 'static:' + c['static']
        return 'const(%s)' % c.get('opaque')
    return json.dumps(o)


def fmt_rv(rv, body=None):
    if 'use' in rv:
        return fmt_op(rv['use'], body)
    if 'ref' in rv:
        return ('&mut ' if rv.get('mut') else '&') + fmt_place(rv['ref'], body)
    if 'rawptr' in rv:
        return '&raw ' + fmt_place(rv['rawptr'], body)
    if 'discr' in rv:
        return 'discr(%s)' % fmt_place(rv['discr'], body)
    if 'bin' in rv:
        return '%s(%s, %s)' % (rv['bin'], fmt_op(rv['a'], body), fmt_op(rv['b'], body))
    if 'un' in rv:
        return '%s(%s)' % (rv['un'], fmt_op(rv['a'], body))
    if 'cast' in rv:
        return '%s as %s [%s]' % (fmt_op(rv['a'], body), rv['to'], rv['cast'])
    if 'agg' in rv:
        a = rv['agg']
        nm = a if isinstance(a, str) else (a.get('adt', '') + '::' + a.get('vname', '') if 'adt' in a else json.dumps(a))
        return '%s{%s}' % (nm, ', '.join(fmt_op(o, body) for o in rv['ops']))
    return json.dumps(rv)[:120]


def dump(body):
    print('fn %s  [%s:%d-%d] args=%d kind=%s' % (body.path, body.file, body.lo, body.hi, body.arg_count, body.kind))
    for i, l in enumerate(body.locals):
        n = body.name_of(i)
        print('   let _%d%s: %s' % (i, '{%s}' % n if n else '', l['ty']))
    if body.kind == 'closure':
        print('   upvars:', body.upvars())
    reach = body.reachable()
    for i, b in enumerate(body.blocks):
        if i not in reach:
            continue
        print(' bb%d%s:' % (i, ' (cleanup)' if b.get('cleanup') else ''))
        for s in b['stmts']:
            if s['k'] == 'assign':
                print('    %s = %s    // L%s' % (fmt_place(s['lhs'], body), fmt_rv(s['rv'], body), s.get('line')))
            else:
                print('    %s' % json.dumps(s)[:150])
        t = b['term']
        k = t['k']
        if k == 'call':
            c = t['callee']
            nm = ('(indirect %s)' % fmt_op(c['indirect'], body)) if 'indirect' in c else (c.get('resolved') or c['path'])
            print('    %s = %s(%s) -> bb%s   // L%s' % (fmt_place(t['dest'], body), nm, ', '.join(fmt_op(a, body) for a in t['args']), t['ret'], t.get('line')))
        elif k == 'switch':
            print('    switch %s [%s] otherwise bb%d   // L%s' % (fmt_op(t['on'], body), ', '.join('%d->bb%d' % (v, b2) for v, b2 in t['targets']), t['otherwise'], t.get('line')))
        elif k == 'goto':
            print('    goto bb%d' % t['bb'])
        elif k == 'drop':
            print('    drop %s [%s]%s -> bb%d' % (fmt_place(t['place'], body), t.get('ty', '')[:50], ' impl ' + t['drop_impl'] if t.get('drop_impl') else '', t['ret']))
        elif k == 'assert':
            print('    assert %s == %s (%s) -> bb%d' % (fmt_op(t['cond'], body), t['expected'], t['msg'][:30], t['ok']))
        else:
            print('    %s' % k)


if __name__ == '__main__':
    facts = Facts(sys.argv[1])
    cmd = sys.argv[2]
    r = re.compile(sys.argv[3])
    for key, b in sorted(facts.bodies.items()):
        if not r.search(b.path):
            continue
        if cmd == 'mir':
            dump(b)
        elif cmd == 'list':
            print(b.path, b.kind, len(b.blocks), '%s:%d' % (b.file, b.lo))
        elif cmd == 'paths':
            start = int(sys.argv[4]) if len(sys.argv) > 4 else 0
            w = Walker(b, facts)
            ps = w.run(start)
            print(b.path, len(ps), 'paths', 'OVERFLOW' if w.overflow else '')
            for p in ps[:200]:
                print('  blocks', p.blocks)
                for c, v in p.conds:
                    print('     if', fmt_term(c), '==', v)
                for e in p.events:
                    if e[0] == 'call':
                        print('     call', (e[2].get('resolved') or e[2]['path']) if e[2] else 'indirect', [fmt_term(a) for a in e[3]])
                    elif e[0] == 'store':
                        print('     store', e[2], ':=', fmt_term(e[3]))
                print('     end', p.end[0], fmt_term(p.end[1]) if p.end[0] == 'return' else p.end[1:])
