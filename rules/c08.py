"""C08 Actions run once per reduction, bottom-up, with child values and matched span (DESIGN.md §4 C08) - partial.

R8.1 the duplicated reduce code of lr (driver) and lr_upto (replay) computes the span and calls the action identically
R8.2 exactly one action call and one push of its result per reduction (none in lr_upto when no value stack is given)
R8.3 arguments: rule of the production, the lexer, the span that is also pushed on the span stack, the drained child
     values of the production, a clone of the parse parameter
R8.5 on a shift the span stack receives the span of the very lexeme pushed on the value stack
R8.6 inserted lexemes handed to actions are positioned at the next real lexeme of the current input index (= C05 R5.1)
R8.7 the span handed to the action is Span::new(start(spans[pop_idx-1]), end(spans[last])) - first popped entry to last - or is
     zero-length (both bounds the same term); in particular the case in which nothing was popped must not reuse another
     symbol's extent
R8.4 generic tree mode: child values mapped in order (value -> itself, lexeme -> fterm), then fnonterm(rule, nodes)
"""
from mirlib import *
from lrstep import *

META = {
    'level': 'other',
    'explanation': 'R8.1 compares the two hand-duplicated Reduce arms with each other (not with a frozen snapshot): after replacing '
                   'the stacks by role symbols (decided from the types of the places involved) both must yield the same set of '
                   '(span-case condition, span term, action argument tuple). R8.2/R8.3: on every path through a Reduce arm the '
                   'indirect call through actions[p] happens exactly once with (prod_to_rule(p), lexer, the very span pushed on '
                   'the span stack, astack.drain(pop_idx-1..), param.clone()) and its result is pushed exactly once. R8.4: '
                   'action_map maps the drained values in order and applies fnonterm last. NOT decided: the span VALUES (e.g. '
                   'that a production deriving no lexeme gets a zero-length span - on this tree it gets the previous symbol\'s '
                   'span; documented in DESIGN.md as an observation no rule here can see).',
}


def role_of_type(ty):
    if 'AStackType<' in ty:
        return 'ASTACK'
    if 'span::Span' in ty and 'Vec<' in ty:
        return 'SPANS'
    if 'StIdx<' in ty and ('Vec<' in ty or 'PStack' in ty):
        return 'PSTACK'
    return None


CLOSURE_FACTS = None


def canon(b, t):
    """replace stack places by role symbols; drop mutation versions and call occurrence counters"""
    if not isinstance(t, tuple) or not t:
        return t
    k = t[0]
    if k in ('param', 'uninit'):
        r = role_of_type(b.lty(t[1]))
        return ('role', r) if r else t
    if k == 'mutated':
        key = t[1]
        r = role_of_type(b.lty(key[0])) if isinstance(key[0], int) else None
        return ('role', r) if r else ('mutated',)
    if k in ('ref', 'deref'):
        return canon(b, t[1])
    if k == 'field' and t[1][0] == 'downcast' and isinstance(t[1][1], tuple) and t[1][1][0] == 'call' and strip_generics(t[1][1][1]).endswith('StateTable::action'):
        return ('PIDX',)  # the production being reduced
    if k in ('field', 'downcast'):
        inner = canon(b, t[1])
        if inner[0] == 'role':
            return inner
        return (k, inner) + tuple(t[2:3])
    if k == 'call':
        nm = strip_generics(t[1]).split('::')[-1]
        if nm in ('as_mut', 'as_ref', 'as_deref', 'as_deref_mut') and len(t[2]) == 1:
            inner = canon(b, t[2][0])
            if inner[0] == 'role':
                return inner        # a view of the same stack: `opt.as_mut()` for `*opt` with `ref mut`
        return ('call', nm, tuple(canon(b, a) for a in t[2]))
    if k == 'closure':
        # two copies of the same closure have different definition paths: identify a closure by what it calls and captures
        cb = CLOSURE_FACTS.body(t[1]) if CLOSURE_FACTS is not None else None
        calls = tuple(sorted({cname(ct) for _bb, ct in cb.calls() if cname(ct)})) if cb is not None else ()
        return ('closure', calls, tuple(canon(b, a) for a in t[2]))
    if k == 'icall':
        return ('icall', canon(b, t[1]), tuple(canon(b, a) for a in t[2]))
    if k == 'widen':
        return ('widen', canon(b, t[4]))
    if not isinstance(t[0], str):
        return tuple(canon(b, x) if isinstance(x, tuple) else x for x in t)
    return tuple(canon(b, x) if isinstance(x, tuple) else x for x in t)


def reduce_facts(facts, R, b):
    global CLOSURE_FACTS
    CLOSURE_FACTS = facts
    tab, lookup, lh = arms(facts, R, b)
    out = []
    for p in tab.get('Reduce', []):
        if p.end[0] == 'diverge':
            continue
        ic = [e for e in p.events if e[0] == 'call' and (e[2] is None or (e[2]['name'] in ('call', 'call_mut', 'call_once')
              and (e[2].get('trait') or '').startswith('core::ops::function::')))]
        out.append((p, ic))
    return out, lookup


SPAN_CLASS = {'Fs': 'start of the first popped entry that derived something .. end of the last entry, without the fallback for "none derived anything"', 'O': 'the empty span (0, 0)', 'E': 'a zero-length span at the end of the last entry', 'Z': 'a zero-length span',
              'F': 'first popped entry that derived something (else the end of the last entry) .. end of the last entry',
              'P': 'first popped entry .. end of the last entry'}


def classify_span(facts, b, spt):
    """abstract value of the span handed to the action: (class, complaint).  O = new(0, 0); E = zero-length at the end of the last
    entry of the span stack; F = from the start of the first entry at or after pop_idx - 1 that is not empty (falling back to the end
    of the last entry) to the end of the last entry; P = from entry pop_idx - 1 unconditionally (the repaired defect)."""
    sp = strip_ref(spt)
    if not (is_call(sp, 'new') and len(sp[2]) == 2):
        return None, 'the span passed to the action is not built by Span::new(start, end) in the reduce arm: %s' % fmt_term(sp)[:120]
    a, d = sp[2]

    def is_pop_first(ix):
        # (len(pstack) - len(prod(p))) - 1
        return ix is not None and ix[0] == 'bin' and ix[1] == 'Sub' and ix[3] == ('const', 1) and ix[2][0] == 'bin' and ix[2][1] == 'Sub' \
            and is_call(ix[2][2], 'len') and canon(b, ix[2][2][2][0]) == ('role', 'PSTACK') and is_call(ix[2][3], 'len') and has_call(ix[2][3], 'prod')

    def is_last_ix(ix):
        return ix is not None and ix[0] == 'bin' and ix[1] == 'Sub' and ix[3] == ('const', 1) and is_call(ix[2], 'len') \
            and canon(b, ix[2][2][0]) == ('role', 'SPANS')

    def entry(t, acc):
        # acc(index(spans, IDX)) -> IDX, or None
        t = strip_ref(t)
        if is_call(t, acc) and t[2]:
            x = strip_ref(t[2][0])
            if is_call(x, 'index') and canon(b, x[2][0]) == ('role', 'SPANS'):
                return x[2][1]
            if isinstance(x, tuple) and len(x) == 3 and x[0] == 'index' and canon(b, x[1]) == ('role', 'SPANS'):
                return x[2]         # the built-in indexing of a slice (`spans: &[Span]`), not Vec's Index impl
        return None

    def end_of_last(t):
        t = strip_ref(t)
        if is_last_ix(entry(t, 'end')):
            return True
        # end(payload of spans.last())
        if is_call(t, 'end') and t[2]:
            x = strip_ref(t[2][0])
            while isinstance(x, tuple) and x and x[0] in ('field', 'downcast', 'deref', 'ref'):
                x = x[1]
            return is_call(x, 'last') and canon(b, x[2][0]) == ('role', 'SPANS')
        # payload of spans.last().map(|s| s.end())
        x = t
        while isinstance(x, tuple) and x and x[0] in ('field', 'downcast', 'deref', 'ref'):
            x = x[1]
        if is_call(x, 'map') and len(x[2]) == 2 and is_call(strip_ref(x[2][0]), 'last') and canon(b, strip_ref(x[2][0])[2][0]) == ('role', 'SPANS') and x[2][1][0] == 'closure':
            cb = facts.body(x[2][1][1])
            if cb is not None:
                ps_ = Walker(cb, facts, max_paths=8).run()
                return bool(ps_) and all(p_.end[0] == 'return' and is_call(strip_ref(p_.end[1]), 'end') and term_has(p_.end[1], lambda y: y == ('param', 2)) for p_ in ps_)
        return False

    def first_nonempty(t, forked=False):
        # map_or / unwrap_or over find(<the entries from pop_idx - 1 on>, |s| !s.is_empty()) with the END of the last entry as fallback;
        # forked: the same after the Walker has split the combinator into its two cases - start(payload of that find)
        t = strip_ref(t)
        fs = [x for x in subterms(t) if is_call(x, 'find')]
        if not fs:
            return False
        if forked and not (is_call(t, 'start') and t[2] and strip_proj(strip_ref(t[2][0])) == fs[0]):
            return False
        sl = [x for x in subterms(fs[0]) if is_call(x, 'index') and len(x[2]) == 2 and canon(b, x[2][0]) == ('role', 'SPANS')
              and isinstance(x[2][1], tuple) and x[2][1] and x[2][1][0] == 'variant' and x[2][1][3] == 'RangeFrom']
        sk = [x for x in subterms(fs[0]) if is_call(x, 'skip') and len(x[2]) == 2 and term_has(canon(b, x[2][0]), lambda y: y == ('role', 'SPANS'))]
        frm = sl[0][2][1][4][0] if sl else (sk[0][2][1] if sk else None)
        if not is_pop_first(frm):
            return False
        clos = [facts.body(x[1]) for x in subterms(t) if isinstance(x, tuple) and x and x[0] == 'closure']
        clos = [cb for cb in clos if cb is not None]
        pred = [cb for cb in clos if cb.calls_named('is_empty') or cb.calls_named('len')]
        takes_start = has_call(t, 'start') or any(cb.calls_named('start') for cb in clos)
        if not pred or not takes_start:
            return False
        return forked or term_has(t, lambda x: x == strip_ref(d))

    if a == d:
        if a == ('const', 0):
            return 'O', ''
        return ('E' if end_of_last(d) else 'Z'), ''
    if first_nonempty(a) and end_of_last(d):
        return 'F', ''
    if first_nonempty(a, forked=True) and end_of_last(d):
        return 'Fs', ''
    if is_pop_first(entry(a, 'start')) and end_of_last(d):
        return 'P', ''
    return None, ('the span is neither (start of the first popped entry that derived something, end of the last entry) nor zero-length: %s - '
                  'a production that derives no lexeme is handed a span that covers text it did not derive' % fmt_term(sp)[:160])


def span_situations(b, p):
    """which of S0 (span stack empty), S1 (pop_idx - 1 < len: the production popped entries), S2 (non-empty stack, empty production)
    the path's conditions allow"""
    sits = {'S0', 'S1', 'S2'}
    for c, v in p.conds:
        cc = canon(b, c)
        if not term_has(cc, lambda x: x == ('role', 'SPANS')) or is_len_eq(c):
            continue
        if cc[0] == 'call' and cc[1] == 'is_empty' and isinstance(v, int):
            sits &= ({'S0'} if v else {'S1', 'S2'})
            continue
        while cc[0] == 'discr' and isinstance(cc[1], tuple) and cc[1][0] == 'call' and cc[1][1] == 'map' and len(cc[1][2]) == 2:
            cc = ('discr', cc[1][2][0])     # Option::map keeps Some/None
        if cc[0] == 'discr' and isinstance(cc[1], tuple) and cc[1][0] == 'call' and cc[1][1] in ('last', 'first'):
            if v == 0:
                sits &= {'S0'}
            elif v == 1 or (isinstance(v, tuple) and v[0] == 'ne' and 0 in v[1]):
                sits &= {'S1', 'S2'}
        elif cc[0] == 'bin' and cc[1] == 'Eq' and ('const', 0) in (cc[2], cc[3]) and has_len_of_spans(cc) and isinstance(v, int):
            sits &= ({'S0'} if v else {'S1', 'S2'})
        elif cc[0] == 'bin' and cc[1] in ('Lt', 'Le') and isinstance(v, int):
            # (pop_idx - 1) < len(spans)  /  len(spans) <= pop_idx - 1
            l_is_len, r_is_len = has_len_of_spans(cc[2]), has_len_of_spans(cc[3])
            if r_is_len and not l_is_len and cc[1] == 'Lt':
                sits &= ({'S1'} if v else {'S0', 'S2'})
            elif l_is_len and not r_is_len and cc[1] == 'Le':
                sits &= ({'S0', 'S2'} if v else {'S1'})
    return sits


def has_len_of_spans(t):
    return term_has(t, lambda x: isinstance(x, tuple) and len(x) > 2 and x[0] == 'call' and x[1] == 'len' and x[2] and x[2][0] == ('role', 'SPANS'))


def r81_82_83(facts, res):
    lr = find_fn(facts, 'R8.1', 'lr')
    up = find_fn(facts, 'R8.1', 'lr_upto')
    sets = {}
    for name, b in (('lr', lr), ('lr_upto', up)):
        rf, lookup = reduce_facts(facts, 'R8.1', b)
        S = set()
        span_table = {}
        n_with = n_without = 0
        for p, ic in rf:
            # R8.2 exactly once
            astack_pushes = [e for e in p.calls(name='push') if find_variant(e[3][1], 'ActionType') is not None]
            key = 'reduce-path:%s#%d' % (name, len([i for i in res.instances if i['key'].startswith('R8.2:reduce-path:%s' % name)]))
            if len(ic) == 0:
                n_without += 1
                # allowed only in lr_upto when no value stack is supplied
                none_stack = any(c[0] == 'discr' and v == 0 and role_of_type(b.lty(strip_to_local(c[1]))) == 'ASTACK' for c, v in p.conds if strip_to_local(c[1]) is not None)
                if name == 'lr_upto' and none_stack and not astack_pushes:
                    res.ok('R8.2', key, loc_of(b, p.blocks[-1]), 'no value stack given: the action is not run and nothing is pushed')
                else:
                    res.bad('R8.2', key, loc_of(b, p.blocks[-1]), 'a reduction path runs no action (action calls=0, value pushes=%d)' % len(astack_pushes))
                continue
            n_with += 1
            if len(ic) != 1 or len(astack_pushes) != 1:
                res.bad('R8.2', key, loc_of(b, p.blocks[-1]), 'a reduction runs the action %d times and pushes %d values (must be 1 and 1)' % (len(ic), len(astack_pushes)))
                continue
            e = ic[0]
            if not term_has(astack_pushes[0][3][1], lambda x: x == e[5]):
                res.bad('R8.2', key, loc_of(b, p.blocks[-1]), 'the pushed value is not the action\'s result')
                continue
            res.ok('R8.2', key, loc_of(b, p.blocks[-1]), 'one action call, its result pushed once')
            # R8.3 arguments
            if e[2] is None:
                args, fn_t = e[3], e[5][1]
            else:
                fn_t = e[3][0]
                args = e[3][1][1] if len(e[3]) > 1 and e[3][1][0] == 'tuple' else ()
            probs = []
            pidx_terms = [x for x in subterms(fn_t) if isinstance(x, tuple) and x[0] == 'field' and is_call(strip_proj(x), 'action')]
            if not (term_has(fn_t, lambda x: isinstance(x, tuple) and len(x) > 3 and x[0] == 'field' and x[3] == 'actions') and pidx_terms):
                probs.append('the function called is not actions[production]')
            if len(args) != 5:
                probs.append('action called with %d arguments' % len(args))
            else:
                ridx, lexer, span, drain, param = args
                if not (is_call(ridx, 'prod_to_rule') and pidx_terms and ridx[2][1] == pidx_terms[0]):
                    probs.append('first argument is not prod_to_rule(the reduced production)')
                if not term_has(lexer, lambda x: isinstance(x, tuple) and len(x) > 3 and x[0] == 'field' and x[3] == 'lexer'):
                    probs.append('second argument is not the parser\'s lexer')
                span_pushes = [x for x in p.calls(name='push') if x[3][1] == span and x is not astack_pushes[0]]
                if not span_pushes:
                    probs.append('the span passed to the action is not the one pushed on the span stack')
                if not (is_call(drain, 'drain') and has_call(drain, 'prod') and canon(b, drain[2][0]) == ('role', 'ASTACK')):
                    probs.append('children are not astack.drain(pop_idx - 1 ..) of this production')
                else:
                    rng = drain[2][1]
                    v = find_variant(rng, 'RangeFrom')
                    lo = v[4][0] if v else None
                    if not (lo is not None and lo[0] == 'bin' and lo[1] == 'Sub' and lo[3] == ('const', 1)):
                        probs.append('drain range does not start at pop_idx - 1')
                if not (term_has(param, lambda x: isinstance(x, tuple) and len(x) > 3 and x[0] == 'field' and x[3] == 'param')):
                    probs.append('last argument is not (a clone of) the parse parameter')
            k3 = 'action-args:%s#%d' % (name, len([i for i in res.instances if i['key'].startswith('R8.3:action-args:%s' % name)]))
            if probs:
                res.bad('R8.3', k3, loc_of(b, e[1]), '; '.join(probs))
            else:
                res.ok('R8.3', k3, loc_of(b, e[1]), 'actions[p](prod_to_rule(p), lexer, pushed span, astack.drain(pop_idx-1..), param.clone())')
            # R8.7 / R8.1: what span does this path compute, and in which situations is it taken?
            if len(args) == 5:
                k7 = 'span-shape:%s#%d' % (name, len([i for i in res.instances if i['key'].startswith('R8.7:span-shape:%s' % name)]))
                cls, why = classify_span(facts, b, args[2])
                sits = span_situations(b, p)
                # the two halves of F after the Walker split `find(..).map_or(end, |s| s.start())`: found -> start of it; not found -> end
                found = [v for c, v in p.conds if c[0] == 'discr' and is_call(strip_ref(c[1]), 'find') and isinstance(v, int)
                         and classify_span(facts, b, ('call', 'Span::new', (('call', 'Span::start', (('field', ('downcast', strip_ref(c[1]), 1, 'Some'), 0, '0'),)), strip_ref(args[2])[2][1])))[0] == 'Fs'] \
                    if is_call(strip_ref(args[2]), 'new') and len(strip_ref(args[2])[2]) == 2 else []
                if cls == 'Fs' and found == [1]:
                    cls = 'F'
                elif cls == 'E' and found == [0] and sits <= {'S1', 'S2'}:
                    cls = 'F'
                want = {'S0': {'O'}, 'S1': {'F'}, 'S2': {'E', 'F'}}     # F with nothing left to search falls back to the end of the last entry
                wrong = sorted(st for st in sits if cls not in want[st])
                if cls == 'P':
                    res.bad('R8.7', k7, loc_of(b, e[1]), 'the span starts at the first popped entry even when that entry derived nothing: an empty leading symbol sits at the end of '
                            'whatever precedes the production, so the span then starts before the first lexeme the production derived (skipped text is included)')
                elif cls is None:
                    res.bad('R8.7', k7, loc_of(b, e[1]), why)
                elif wrong:
                    res.bad('R8.7', k7, loc_of(b, e[1]), 'span %s is computed in situation(s) %s (S0 = no spans yet, S1 = the production popped at least one entry, S2 = empty production); '
                            'expected (0,0) / first derived lexeme..end of last / zero-length at the end of the last entry: a production that derives no lexeme is handed a span that '
                            'covers text it did not derive, or the other way round' % (SPAN_CLASS[cls], wrong))
                else:
                    res.ok('R8.7', k7, loc_of(b, e[1]), '%s in %s' % (SPAN_CLASS[cls], '/'.join(sorted(sits))))
                for st in sits:
                    span_table.setdefault(st, set()).add('E' if (cls == 'F' and st == 'S2') else (cls or 'other:' + repr(canon(b, args[2]))[:200]))
            # R8.1 material: the span behaviour per situation (above) and the other arguments
            S.add(repr(tuple(canon(b, a) for a in (args[0], args[3]))))
        S.add(repr(sorted((k, sorted(v)) for k, v in span_table.items())))
        sets[name] = S
        if name == 'lr' and n_without:
            pass
    R = 'R8.1'
    if not sets['lr'] or not sets['lr_upto']:
        res.lost(R, 'could not extract the reduce arms (lr=%d, lr_upto=%d)' % (len(sets['lr']), len(sets['lr_upto'])))
        return
    if sets['lr'] == sets['lr_upto']:
        res.ok(R, 'reduce-agreement', loc_of(up), 'driver and replay compute the span (%d cases) and call the action identically' % len(sets['lr']))
    else:
        only_lr = sets['lr'] - sets['lr_upto']
        only_up = sets['lr_upto'] - sets['lr']
        res.bad(R, 'reduce-agreement', loc_of(up), 'the duplicated reduce code of lr and lr_upto disagrees: %d case(s) only in lr, %d only in lr_upto' % (len(only_lr), len(only_up)),
                {'only_in_lr': [str(x)[:600] for x in only_lr], 'only_in_lr_upto': [str(x)[:600] for x in only_up]})


def is_len_eq(c):
    """the debug assertion astack.len() == spans.len()"""
    return c[0] == 'bin' and c[1] == 'Eq' and is_call(c[2], 'len') and is_call(c[3], 'len')


def strip_to_local(t):
    while isinstance(t, tuple) and t and (t[0] in ('field', 'downcast', 'deref', 'ref')
                                          or (t[0] == 'call' and strip_generics(t[1]).split('::')[-1] in ('as_mut', 'as_ref', 'as_deref', 'as_deref_mut') and len(t[2]) == 1)):
        t = t[2][0] if t[0] == 'call' else t[1]
    if isinstance(t, tuple) and t and t[0] in ('param', 'uninit'):
        return t[1]
    return None


def strip_proj(t):
    while isinstance(t, tuple) and t and t[0] in ('field', 'downcast', 'deref', 'ref'):
        t = t[1]
    return t


def r84(facts, res):
    R = 'R8.4'
    b = facts.one(R, 'action_map', crate='lrpar', name='action_map')
    w = widening_walker(b, facts)
    ps = w.run()
    loops = b.loops()
    if len(loops) != 1:
        res.lost(R, 'action_map no longer has exactly one loop')
        return
    h = list(loops)[0]
    nx = [(bb, t) for bb, t in b.calls_named('next', loops[h])]
    drv = nx and 'vec::drain::Drain<' in (callee_of(nx[0][1]).get('self_ty') or '') and 'rev::Rev' not in (callee_of(nx[0][1]).get('self_ty') or '')
    # loop body table
    w2 = Walker(b, facts, max_paths=64)
    body_ps = [p for p in w2.run(h, stop=lambda x: x == h) if p.end == ('loop', h) or p.end == ('stop', h)]
    st = facts.adt('lrpar::parser::AStackType')
    vn = {v['discr']: v['name'] for v in st['variants']}
    rows = {}
    for p in body_ps:
        dv = [v for c, v in p.conds if c[0] == 'discr' and is_call(strip_proj(c[1]), 'next') and c[1][0] != 'call']
        pu = p.calls(name='push')
        if not dv or not pu:
            continue
        val = pu[0][3][1]
        kind = vn.get(dv[-1])
        if kind == 'ActionType':
            rows[kind] = val[0] == 'field' and val[1][0] == 'downcast'
        elif kind == 'Lexeme':
            rows[kind] = val[0] in ('call', 'icall') and any(term_has(a, lambda x: isinstance(x, tuple) and x[0] == 'downcast') for a in val[2])
    rets = [p for p in ps if p.end[0] == 'return']
    fin = rets and all(p.end[1][0] in ('icall', 'call') and p.end[1][2] and any(a == ('param', 1) for a in p.end[1][2][-1][1] if isinstance(p.end[1][2][-1], tuple) and p.end[1][2][-1][0] == 'tuple') or
                       (p.end[1][0] in ('icall', 'call') and term_has(p.end[1], lambda x: x == ('param', 1))) for p in rets)
    probs = []
    if not drv:
        probs.append('children are not visited in stack order (forward Drain)')
    if rows.get('ActionType') is not True:
        probs.append('a child value is not passed through unchanged')
    if rows.get('Lexeme') is not True:
        probs.append('a lexeme child is not mapped through fterm')
    if not fin:
        probs.append('the node is not built by fnonterm(ridx, nodes)')
    if probs:
        res.bad(R, 'generic-tree', loc_of(b), '; '.join(probs))
    else:
        res.ok(R, 'generic-tree', loc_of(b), 'children in order: value -> itself, lexeme -> fterm(lexeme); result fnonterm(ridx, nodes)')


def r85(facts, res):
    """Shift arm: the span pushed on the span stack is the span of the very lexeme pushed on the value stack"""
    R = 'R8.5'
    for name in ('lr', 'lr_upto'):
        b = find_fn(facts, R, name)
        tab, lookup, lh = arms(facts, R, b)
        n = 0
        probs = set()
        for p in tab.get('Shift', []):
            if p.end[0] == 'diverge':
                continue
            lex = [e for e in p.calls(name='push') if find_variant(e[3][1], 'Lexeme', 'AStackType') is not None]
            sp = [e for e in p.calls(name='push') if is_call(strip_ref(e[3][1]), 'span')]
            if not lex and not sp:
                continue  # no value/span stacks on this path (search mode)
            n += 1
            if len(lex) != 1 or len(sp) != 1:
                probs.add('a shift pushes %d lexeme values and %d spans (must be one each)' % (len(lex), len(sp)))
                continue
            L = find_variant(lex[0][3][1], 'Lexeme', 'AStackType')[4][0]
            S = strip_ref(strip_ref(sp[0][3][1])[2][0])
            if S != L:
                probs.add('the span pushed is that of %s but the value pushed is %s' % (fmt_term(S)[:70], fmt_term(L)[:70]))
        key = 'shift-span:' + name
        if probs:
            res.bad(R, key, loc_of(b), '; '.join(sorted(probs)))
        elif n:
            res.ok(R, key, loc_of(b), 'on a shift the span stack receives the span of the very lexeme pushed on the value stack (%d paths)' % n)
        else:
            res.bad(R, key, loc_of(b), 'no Shift path pushes a lexeme value')


def r86(facts, res):
    """the lexeme an action receives for an inserted token is the zero-length faulty lexeme positioned at the next real
    lexeme of the CURRENT input index (shared with C05 R5.1: both sites that materialise an insertion)"""
    import c05
    c05.r51(facts, res, 'R8.6')


def r88(facts, res):
    """Shift arm: the lexeme pushed on the value stack is the one whose token id was looked up in the action table on this very
    round (`next_lexeme(i)` for a lookup of `next_tidx(i)` with the same i; the prefix lexeme for a lookup of its own tok_id)."""
    R = 'R8.8'
    for name in ('lr', 'lr_upto'):
        b = find_fn(facts, R, name)
        tab, lookup, lh = arms(facts, R, b)
        n = 0
        probs = set()
        for p in tab.get('Shift', []):
            if p.end[0] == 'diverge':
                continue
            lex = [e for e in p.calls(name='push') if find_variant(e[3][1], 'Lexeme', 'AStackType') is not None]
            if len(lex) != 1:
                continue
            L = strip_ref(find_variant(lex[0][3][1], 'Lexeme', 'AStackType')[4][0])
            dv = [c for c, v in p.conds if c[0] == 'discr' and is_call(c[1], 'action')]
            if not dv or len(dv[0][1][2]) < 3:
                continue
            T = dv[0][1][2][2]
            n += 1
            nt = find_calls(T, 'next_tidx')
            tk = find_calls(T, 'tok_id')
            if nt:
                I = nt[0][2][1]
                if not (is_call(L, 'next_lexeme') and L[2][1] == I):
                    probs.add('the action was looked up for the token at input index %s but the lexeme pushed is %s' % (fmt_term(I)[:30], fmt_term(L)[:50]))
            elif tk:
                X = strip_ref(tk[0][2][0])
                if X != L:
                    probs.add('the action was looked up for the token of %s but the lexeme pushed is %s' % (fmt_term(X)[:40], fmt_term(L)[:50]))
            else:
                probs.add('cannot relate the looked-up token %s to the lexeme pushed' % fmt_term(T)[:60])
        key = 'shift-lexeme:' + name
        if probs:
            res.bad(R, key, loc_of(b), '; '.join(sorted(probs)))
        elif n:
            res.ok(R, key, loc_of(b), 'the lexeme pushed on a shift is the one whose token was looked up (%d paths)' % n)
        else:
            res.bad(R, key, loc_of(b), 'no Shift path pushes a lexeme value')


def run(facts, res):
    r88(facts, res)
    r86(facts, res)
    r85(facts, res)
    r81_82_83(facts, res)
    r84(facts, res)
