"""C17 Grammar analyses (FIRST, FOLLOW, nullable, costs) are exact (DESIGN.md §4 C17) - fixed-point discipline only.

R17.1 in every "iterate until nothing changes" loop the change flag is only ever RAISED within a round (reset once at the
      start of the round; every other assignment is `true` or an or-accumulation) - a flag that can be overwritten with
      false forgets a change seen earlier in the round and stops the iteration before the fixed point
R17.2 every mutation of the iterated sets inside such a loop is noticed: either its "did it change" result is tested and
      one outcome raises the flag, or the flag is raised unconditionally afterwards
R17.3 every "all of"/"any of" summary flag (a named bool given a constant before a loop, assigned in the loop, read after
      it) only ever moves away from its initial value inside the loop: an overwrite with a computed value makes the last
      iteration decide alone (e.g. a production counted as fully costed because its LAST symbol is)
R17.4 wherever FIRST(Y) of a production symbol Y is read as Y's contribution to a set (FIRST of a sequence, FOLLOW of the
      symbol before it), nullable(Y) of the same Y is consulted and tested: whether what stands after Y contributes too
      depends on it
R17.6 termination evidence for the "repeat until every rule is done" loops of the cost functions: an exit for a round that
      changed nothing, or all rules on dependency cycles finalised beforehand
R17.7 rule_max_costs finalises a rule only when none of its productions is incomplete, or the maximum is infinite
R17.5 in rule_min_costs every "best so far" accumulator is replaced by a candidate only when the candidate is LOWER, in
      rule_max_costs only when it is HIGHER (comparison direction normalised for operand order)
"""
from mirlib import *

META = {
    'level': 'other',
    'explanation': 'Decides ONLY the fixed-point discipline of the analyses that are computed by iteration to a fixed point '
                   '(FIRST/nullable, FOLLOW, sentence costs and the like): the loops are found structurally (a named bool that '
                   'is reset at the start of every round and whose falsity ends the loop), and in each of them the flag is only '
                   'raised (R17.1) and every mutation of non-local state is followed by raising the flag or by a test of its '
                   'change result one outcome of which raises it (R17.2). Breaking either lets the iteration stop before the '
                   'least fixed point, i.e. yields FIRST/FOLLOW/cost values that are too small - a necessary condition for '
                   'exactness and the way such analyses typically go wrong. R17.4: wherever FIRST(Y) of a production symbol is read as that symbol\'s contribution, nullable(Y) of the same Y is tested '
                   '(found the FOLLOW defect fixed in /repo 2a78056). NOT decided: that the transfer functions are right beyond '
                   'that, reachability, '
                   'minimal-sentence generation.',
}

CRATES = ['cfgrammar', 'lrtable']
MUTATORS = {'set', 'or', 'and', 'xor', 'insert', 'push', 'extend', 'set_all', 'push_str', 'entry', 'remove'}


def fixpoint_loops(b):
    """[(header, blocks, flag local, reset blocks)]"""
    out = []
    loops = b.loops()
    for h, blocks in loops.items():
        # candidate flags: named bool locals assigned const false inside the loop and tested inside the loop
        for l, ty in enumerate(b.locals):
            if ty['ty'] != 'bool' or not b.name_of(l):
                continue
            assigns = []
            for bb in blocks:
                for st in b.blocks[bb]['stmts']:
                    if st['k'] == 'assign' and pkey(st['lhs']) == (l, ()):
                        assigns.append((bb, st['rv']))
                t = b.term(bb)
                if t['k'] == 'call' and pkey(t['dest']) == (l, ()):
                    assigns.append((bb, {'calldest': cpath(t) or 'indirect'}))
            resets = [bb for bb, rv in assigns if 'use' in rv and rv['use'].get('const', {}).get('int') == 0]
            if not resets:
                continue
            # the flag decides whether the loop is left: a switch on the flag inside the loop with one successor that
            # cannot come back to the header
            decides = False
            tests = []
            for bb in blocks:
                t = b.term(bb)
                if t['k'] == 'switch':
                    pl = op_place(t['on'])
                    if pl is not None and b.root(pl['l'], through=(), stop_named=False)[0] == l:
                        tests.append(bb)
                        for s in b.succs(bb):
                            if h not in b.reachable([s]):
                                decides = True
                            elif s not in blocks:
                                decides = True
            if not decides:
                continue
            # a change flag is lowered at the start of a round: its reset comes before every test of it in the round.  A bool that is
            # merely COMPUTED in the round (`let f = a && b`, whose short-circuit arm also assigns the constant false) has no such reset
            def while_form(tb):
                # `while flag { flag = false; .. }`: the test comes first, the reset is the first thing that happens to the flag on the
                # staying side (nothing assigns the flag between the test and the reset)
                rs = [r for r in resets if b.dominates(tb, r)]
                if not rs:
                    return False
                stay = [x for x in b.succs(tb) if x in blocks]
                between = b.reachable(starts=stay, avoid=set(rs)) & blocks
                return not any(bb in between for bb, _rv in assigns)
            if not all(any(b.dominates(r, tb) for r in resets) or while_form(tb) for tb in tests):
                continue
            # only the outermost loop in which the flag is reset counts (inner loops of the round share the flag)
            inner_of = [h2 for h2, b2 in loops.items() if h2 != h and h in b2 and any(r in b2 for r in resets)]
            smallest = all(not (set(resets) <= loops[h2] and h2 in blocks and h2 != h) for h2 in loops)
            if smallest:
                out.append((h, blocks, l, resets, assigns))
    return out


def r171_172(facts, res):
    n = 0
    for b in facts.lib_bodies(CRATES):
        if b.from_expansion or not b.path.startswith(('cfgrammar::yacc::firsts::', 'cfgrammar::yacc::follows::', 'cfgrammar::yacc::grammar::', 'lrtable::')):
            continue
        for h, blocks, flag, resets, assigns in fixpoint_loops(b):
            n += 1
            fname = b.name_of(flag)
            key = '%s/%s@%s' % (strip_generics(b.path), fname, sorted(b.loops()).index(h))
            bad = []
            raises = set()
            for bb, rv in assigns:
                if bb in resets and 'use' in rv and rv['use'].get('const', {}).get('int') == 0:
                    continue
                if 'use' in rv and rv['use'].get('const', {}).get('int') == 1:
                    raises.add(bb)
                    continue
                if 'bin' in rv and rv['bin'] in ('BitOr',) and (op_local(rv['a']) == flag or op_local(rv['b']) == flag):
                    raises.add(bb)
                    continue
                what = ('the result of %s' % rv['calldest']) if 'calldest' in rv else 'a computed value'
                bad.append('`%s` is overwritten with %s at line %s: a change seen earlier in the round is forgotten when that value is false'
                           % (fname, what, b.term(bb).get('line')))
            # more than one reset inside a round?
            if len(resets) > 1:
                later = [r for r in resets if any(b.dominates(r0, r) and r0 != r for r0 in resets)]
                if later:
                    bad.append('`%s` is reset to false more than once per round (line %s)' % (fname, b.term(later[0]).get('line')))
            if bad:
                res.bad('R17.1', key, loc_of(b, h), '; '.join(bad), {'function': b.path})
            else:
                res.ok('R17.1', key, loc_of(b, h), 'change flag `%s` is reset once per round and otherwise only raised (%d raise sites)' % (fname, len(raises)))
            # R17.2 every mutation is noticed
            latches = {u for (u, hh) in b.back_edges() if hh == h}
            unnoticed = []
            nm = 0
            for bb in sorted(blocks):
                t = b.term(bb)
                if t['k'] != 'call' or cname(t) not in MUTATORS or not t['args']:
                    continue
                l0 = op_local(t['args'][0])
                if l0 is None or not b.lty(l0).startswith('&mut '):
                    continue
                r, projs, via = b.op_root(t['args'][0], through=Body.THROUGH + ('index', 'index_mut'))
                # state that outlives a round: defined outside the loop (or reached through a parameter / field)
                defs_in = [d for d in b.defs().get(r, []) if d[0] in blocks]
                if r > b.arg_count and defs_in and not projs:
                    continue
                if r > b.arg_count and all(d[0] in blocks for d in b.defs().get(r, [])) and b.defs().get(r):
                    continue
                nm += 1
                # successors to examine: if the call's result is tested, each branch; else the call's successor
                starts = [t['ret']]
                tb = t['ret']
                tt = b.term(tb) if tb is not None else None
                tested = False
                if tt is not None and tt['k'] == 'switch':
                    pl = op_place(tt['on'])
                    if pl is not None and b.root(pl['l'], through=(), stop_named=False)[0] == t['dest']['l']:
                        tested = True
                        starts = b.succs(tb)
                def escapes(s):
                    """can the end of the round (a latch / the exit test) be reached from s without raising the flag"""
                    seen = b.reachable([s], avoid=raises)
                    return bool(seen & latches) or any(x not in blocks for x in seen)
                esc = [escapes(s) for s in starts if s is not None]
                if (tested and all(esc)) or (not tested and any(esc)):
                    unnoticed.append('%s on %s (line %s)' % (cname(t), (b.name_of(r) or b.lty(l0)[5:45]), t.get('line')))
            k2 = key
            if unnoticed:
                res.bad('R17.2', k2, loc_of(b, h), 'state iterated to a fixed point is modified without raising `%s`: %s - the iteration can stop although this round changed something'
                        % (fname, '; '.join(unnoticed[:3])))
            else:
                res.ok('R17.2', k2, loc_of(b, h), 'all %d mutations of round-surviving state raise `%s` (directly or through a test of their result)' % (nm, fname))
    res.floor('R17.1', 'iterate-until-unchanged loops', n, 2)


def summary_flags(b):
    """[(flag local, init const, init block, loop header, in-loop assignments)]: a named bool that is given a constant before
    a loop, assigned inside that loop and read after it - the loop summarises "all"/"any" of something into it"""
    out = []
    loops = b.loops()
    for l, ty in enumerate(b.locals):
        if ty['ty'] != 'bool' or not b.name_of(l) or l <= b.arg_count:
            continue
        assigns = []
        for bb in sorted(b.reachable()):
            for st in b.blocks[bb]['stmts']:
                if st['k'] == 'assign' and pkey(st['lhs']) == (l, ()):
                    assigns.append((bb, st['rv']))
            t = b.term(bb)
            if t['k'] == 'call' and pkey(t['dest']) == (l, ()):
                assigns.append((bb, {'calldest': cpath(t) or 'indirect'}))
        inits = [(bb, rv['use']['const']['int']) for bb, rv in assigns if 'use' in rv and rv['use'].get('const', {}).get('int') in (0, 1)]
        for ib, c in inits:
            # the innermost loop that the init block is NOT part of, but which contains other assignments of the flag and is
            # dominated by the init
            cands = [h for h in loops if ib not in loops[h] and b.dominates(ib, h)
                     and any((bb in loops[h]) or (b.dominates(h, bb) and any(x in loops[h] for x in b.preds(bb)))
                             for bb, rv in assigns if bb != ib)]
            if not cands:
                continue
            # the outermost such loop nested directly under the init's own loop nest
            h = max(cands, key=lambda x: len(loops[x]))
            inl = [(bb, rv) for bb, rv in assigns if bb in loops[h]]
            # no other assignment between the init and the loop (another init on a different path is a different flag use)
            # read after the loop?
            exits = {s for x in loops[h] for s in b.succs(x) if s not in loops[h]}
            after = b.reachable(list(exits), avoid={ib})
            read_after = False
            for x in after:
                if x in loops[h]:
                    continue
                t = b.term(x)
                if t['k'] == 'switch':
                    pl = op_place(t['on'])
                    if pl is not None and b.root(pl['l'], through=(), stop_named=False)[0] == l:
                        read_after = True
            if read_after:
                # the arms of the loop that leave it (`flag = false; break;`) are not part of the natural loop but belong to
                # the summarising region: blocks dominated by the header that can still reach the first test of the flag
                # behind the loop without going round through the init
                tests = []
                for x in after:
                    if x in loops[h]:
                        continue
                    t = b.term(x)
                    if t['k'] == 'switch':
                        pl = op_place(t['on'])
                        if pl is not None and b.root(pl['l'], through=(), stop_named=False)[0] == l:
                            tests.append(x)
                region = set(loops[h])
                if tests:
                    preds = {}
                    for x in b.reachable():
                        for y in b.succs(x):
                            preds.setdefault(y, set()).add(x)
                    back = set()
                    todo = list(tests)
                    while todo:
                        x = todo.pop()
                        for y in preds.get(x, ()):
                            if y not in back and y != ib and y not in tests:
                                back.add(y)
                                todo.append(y)
                    region |= {x for x in back if b.dominates(h, x)}
                inl = [(bb, rv) for bb, rv in assigns if bb in region and bb != ib]
                out.append((l, c, ib, h, inl))
    return out


def r173(facts, res):
    R = 'R17.3'
    n = 0
    for b in facts.lib_bodies(CRATES):
        if b.from_expansion or not b.path.startswith(('cfgrammar::yacc::firsts::', 'cfgrammar::yacc::follows::', 'cfgrammar::yacc::grammar::', 'lrtable::')):
            continue
        loops = b.loops()
        fp = {(flag, h) for h, blocks, flag, resets, assigns in fixpoint_loops(b)}
        seen = set()
        for l, c, ib, h, inl in summary_flags(b):
            if (l, ib) in seen:
                continue
            seen.add((l, ib))
            n += 1
            fname = b.name_of(l)
            key = '%s/%s@%s' % (strip_generics(b.path), fname, sorted(loops).index(h))
            bad = []
            for bb, rv in inl:
                cv = rv['use'].get('const', {}).get('int') if 'use' in rv else None
                if cv is not None and cv in (0, 1):
                    if cv == c:
                        # raising the flag back to its initial value inside the summarising loop
                        bad.append('`%s` is set back to %s inside the loop (line %s)' % (fname, bool(c), b.term(bb).get('line')))
                    continue
                if 'bin' in rv and rv['bin'] in ('BitOr', 'BitAnd') and (op_local(rv['a']) == l or op_local(rv['b']) == l):
                    if (rv['bin'] == 'BitOr') == (c == 0):
                        continue
                # a computed overwrite is fine only when the loop is left as soon as the value differs from the initial one
                latches = {u for (u, hh) in b.back_edges() if hh == h}
                guards = set()
                for x in loops[h]:
                    t = b.term(x)
                    if t['k'] == 'switch':
                        pl = op_place(t['on'])
                        if pl is not None and b.root(pl['l'], through=(), stop_named=False)[0] == l:
                            guards.add(x)
                reach = b.reachable([bb], avoid=guards)
                if reach & latches or h in reach - {bb}:
                    what = ('the result of %s' % rv['calldest']) if 'calldest' in rv else 'a computed value'
                    bad.append('`%s` (initially %s) is overwritten with %s at line %s and the loop goes on: what earlier iterations found is forgotten, only the last iteration counts'
                               % (fname, str(bool(c)).lower(), what, b.term(bb).get('line')))
            if bad:
                res.bad(R, key, loc_of(b, ib), '; '.join(bad), {'function': b.path})
            else:
                res.ok(R, key, loc_of(b, ib), 'summary flag `%s` starts %s and is only ever %s inside the loop (%d assignments)' % (
                    fname, str(bool(c)).lower(), 'lowered' if c else 'raised', len(inl)))
    res.floor(R, 'loop summary flags', n, 6)


FIRST_READS = {'firsts', 'is_set'}          # YaccFirsts::firsts(ridx) / is_set(ridx, tidx)


CONTINUATION_ADAPTORS = ('all', 'any', 'take_while', 'skip_while', 'position', 'find', 'map_while', 'rposition')


def decides_continuation(facts, cb):
    """closure `cb` is handed, in the body it is created in, to an iterator adaptor whose traversal stops depending on its answer"""
    parent = facts.bodies.get(cb.parent)
    if parent is None:
        return False
    for nm in CONTINUATION_ADAPTORS:
        for bb, t in parent.calls_named(nm):
            if (callee_of(t).get('trait') or '') != 'core::iter::traits::iterator::Iterator' and 'iter' not in (cpath(t) or ''):
                continue
            for a in t['args'][1:]:
                l = op_local(a)
                if any(kind == 'stmt' and 'agg' in rv and isinstance(rv['agg'], dict) and rv['agg'].get('closure') == cb.path for _bb, kind, rv in parent.defs().get(l, ())):
                    return True
    return False


def flows_to_return(b, l, depth=6):
    """local `l` (a bool) is what the body returns on some path, possibly negated or copied"""
    if l == 0:
        return True
    if depth == 0:
        return False
    for bb, blk in enumerate(b.blocks):
        for st in blk['stmts']:
            if st['k'] != 'assign' or st['lhs']['p']:
                continue
            rv = st['rv']
            ops = [rv['use']] if 'use' in rv else ([rv['a']] if 'un' in rv and rv['un'] == 'Not' else [])
            if any(op_local(o) == l for o in ops) and flows_to_return(b, st['lhs']['l'], depth - 1):
                return True
    return False


def r174(facts, res, R='R17.4', crates=('cfgrammar',), prefixes=('cfgrammar::yacc::firsts::', 'cfgrammar::yacc::follows::'), floor=2):
    """Wherever FIRST(Y) of a production symbol Y is read as that symbol's contribution to a set, nullable(Y) of the SAME Y
    is consulted and tested in the same function: whether the symbols after Y contribute too depends on it."""
    n = 0
    for b in facts.lib_bodies(list(crates)):
        if b.from_expansion or not b.path.startswith(tuple(prefixes)):
            continue
        def sym_payload(op):
            """named local holding the rule index taken out of a `Symbol::Rule(..)` of a production, or None"""
            l = op_local(op)
            if l is None:
                return None
            r, projs, via = b.root(l, through=(), stop_named=True)
            if not b.name_of(r):
                return None
            # the named local itself is assigned from a (.. as Rule).0 projection
            for bb, kind, rv in b.defs().get(r, []):
                if kind == 'stmt' and 'use' in rv:
                    pl = op_place(rv['use'])
                    if pl and any(isinstance(q, dict) and q.get('downcast') is not None and q.get('name') == 'Rule' for q in pl['p']):
                        return r
            return None
        eps = {}
        for bb, t in b.calls_named('is_epsilon_set'):
            if 'YaccFirsts' not in (cpath(t) or '') or len(t['args']) < 2:
                continue
            y = sym_payload(t['args'][1])
            tested = t['ret'] is not None and b.term(t['ret'])['k'] == 'switch'
            # `!x` goes through a Not before the switch
            if not tested and t['ret'] is not None:
                tested = any(b.term(x)['k'] == 'switch' for x in [t['ret']])
            if not tested and b.kind == 'closure' and b.lty(0) == 'bool' and decides_continuation(facts, b) and flows_to_return(b, t['dest']['l']):
                tested = True       # the scan is an iterator adaptor (all/any/take_while..): the closure's answer decides whether it goes on
            if y is not None:
                eps.setdefault(y, []).append((bb, tested))
        for bb, t in b.calls():
            if cname(t) not in FIRST_READS or 'yacc::firsts::YaccFirsts' not in (cpath(t) or '') or len(t['args']) < 2:
                continue
            y = sym_payload(t['args'][1])
            if y is None:
                continue
            n += 1
            key = '%s/%s(%s)' % (strip_generics(b.path), cname(t), b.name_of(y))
            if any(tested for _bb, tested in eps.get(y, [])):
                res.ok(R, key, loc_of(b, bb), 'FIRST(%s) is read and nullable(%s) is tested in the same scan' % (b.name_of(y), b.name_of(y)))
            else:
                others = sorted({b.name_of(k) for k in eps})
                res.bad(R, key, loc_of(b, bb), 'FIRST(%s) is merged as the contribution of symbol `%s`, but nullable(%s) is never consulted (nullable is tested only for %s): '
                        'when `%s` can derive the empty string, what stands after it in the production is ignored' % (
                            b.name_of(y), b.name_of(y), b.name_of(y), others or 'nothing', b.name_of(y)), {'function': b.path})
    res.floor(R, 'reads of FIRST(symbol) as a sequence contribution', n, floor)


def _ref_targets(b, l, depth=4):
    """locals a reference local may point at (through `&mut X`, `&mut *r` and copies)"""
    out = set()
    if depth == 0:
        return out
    for _bb, kind, rv in b.defs().get(l, ()):
        if kind != 'stmt':
            continue
        if 'ref' in rv:
            tl, tp = rv['ref']['l'], rv['ref']['p']
            if tp and tp[0] == 'deref':
                out |= _ref_targets(b, tl, depth - 1)
            elif not tp:
                out.add(tl)
        elif 'use' in rv:
            ol = op_local(rv['use'])
            if ol is not None:
                out |= _ref_targets(b, ol, depth - 1)
    return out


def _acc_store_blocks(b, accs):
    """accumulator -> blocks that store something other than the `None` initialiser into it, directly or through a reference"""
    out = {}
    for bb, blk in enumerate(b.blocks):
        if blk.get('cleanup'):
            continue
        for st in blk['stmts']:
            if st['k'] != 'assign':
                continue
            l, p = st['lhs']['l'], st['lhs']['p']
            hit = set()
            if not p and l in accs:
                rv = st['rv']
                if 'agg' in rv and isinstance(rv['agg'], dict) and rv['agg'].get('vname') == 'None':
                    continue
                hit = {l}
            elif p == ['deref']:
                hit = _ref_targets(b, l) & accs
            for a in hit:
                out.setdefault(a, set()).add(bb)
        t = blk['term']
        if t['k'] == 'call' and not t['dest']['p'] and t['dest']['l'] in accs:
            out.setdefault(t['dest']['l'], set()).add(bb)
    return out


def _strip_some(t):
    """Some(x) -> x ; &v -> v"""
    while t[0] == 'ref':
        t = t[1]
    if t[0] == 'variant' and t[3] == 'Some' and len(t[4]) == 1:
        return t[4][0], True
    return t, False


def _payload_of(t, acc0):
    """is `t` the accumulator's old value (as an Option) or the payload of its Some?"""
    while t[0] in ('ref', 'deref'):
        t = t[1]
    if t == acc0:
        return True
    if t[0] == 'field' and t[1][0] == 'downcast' and t[1][1] == acc0:
        return True
    if t[0] == 'field' and t[1] == acc0:
        return True
    return False


def _update_evidence(conds, acc0, cand):
    """What the conditions of a storing path say about candidate vs old value: set of 'none' | 'lower' | 'higher'."""
    ev = set()
    for term, val in conds:
        if not isinstance(val, int):
            # ('ne', {..}) on the discriminant: Option has two variants, so "not Some" is None
            if term == ('discr', acc0) and isinstance(val, tuple) and val[0] == 'ne' and 1 in val[1]:
                ev.add('none')
            continue
        if term == ('discr', acc0):
            if val == 0:
                ev.add('none')
            continue
        if term[0] == 'call' and term[1].endswith('::is_none') and _payload_of(term[2][0], acc0):
            if val == 1:
                ev.add('none')
            continue
        if term[0] == 'call' and term[1].endswith('::is_some') and _payload_of(term[2][0], acc0):
            if val == 0:
                ev.add('none')
            continue
        a = b_ = op = None
        if term[0] == 'bin' and term[1] in ('Lt', 'Le'):
            op, a, b_ = term[1], term[2], term[3]
        elif term[0] == 'call' and term[1].rsplit('::', 1)[-1] in ('lt', 'le', 'gt', 'ge') and len(term[2]) == 2:
            nm = term[1].rsplit('::', 1)[-1]
            a, b_ = term[2]
            if nm in ('gt', 'ge'):
                a, b_ = b_, a
            op = 'Lt' if nm in ('lt', 'gt') else 'Le'
        if op is None:
            continue
        a0, _ = _strip_some(a)
        b0, _ = _strip_some(b_)
        ca, cb = (a0 == cand), (b0 == cand)
        pa, pb = _payload_of(a, acc0) or _payload_of(a0, acc0), _payload_of(b_, acc0) or _payload_of(b0, acc0)
        if ca and pb:
            # cand OP old
            ev.add('lower' if val else 'higher')
        elif pa and cb:
            # old OP cand
            ev.add('higher' if val else 'lower')
    return ev


def r175(facts, res):
    """rule_min_costs keeps the LOWER of candidate and best-so-far in every accumulator, rule_max_costs the HIGHER one.
    Decided per path of one round of the production loop: whenever an accumulator ends the round with a new value Some(X), the
    path's conditions say that the old value was None or that X is on the wanted side of it (or X is the type's maximum in the
    max function); `acc = max(acc, Some(X))` is the same thing through core::cmp."""
    R = 'R17.5'
    from lrstep import widening_walker
    want = {'rule_min_costs': 'lower', 'rule_max_costs': 'higher'}
    n = 0
    for fname, w in want.items():
        bs = [b for b in facts.lib_bodies(['cfgrammar']) if b.path == 'cfgrammar::yacc::grammar::' + fname]
        if len(bs) != 1:
            res.lost(R, '%s not found' % fname)
            continue
        b = bs[0]
        accs = {l for l, ty in enumerate(b.locals) if ty['ty'].startswith('core::option::Option<u') and b.name_of(l) and l > b.arg_count}
        stores = _acc_store_blocks(b, accs)
        loops = b.loops()
        found = 0
        for acc in sorted(stores):
            inits = [bb for bb, kind, rv in b.defs().get(acc, ()) if kind == 'stmt' and 'agg' in rv and isinstance(rv['agg'], dict) and rv['agg'].get('vname') == 'None']
            # the production loop: the largest loop holding stores into the accumulator but not its initialisation
            cands = [h for h in loops if stores[acc] & loops[h] and not any(i in loops[h] for i in inits)]
            if not cands or not inits:
                continue
            h = max(cands, key=lambda x: len(loops[x]))
            wk = widening_walker(b, facts, max_paths=20000)
            paths = wk.run(start=h, stop=lambda bb, L=loops[h]: bb not in L)
            if wk.overflow:
                res.lost(R, 'path explosion in the production loop of %s' % fname)
                continue
            key = '%s/%s' % (fname, b.name_of(acc))
            acc0 = ('widen', b.path, h, acc, ('uninit', acc))
            bad = None
            nstore = 0
            for p in paths:
                fin = wk.as_value(p.env, wk.read_key(p.env, (acc, ())))
                if fin == acc0:
                    continue
                nstore += 1
                loc = loc_of(b, max(stores[acc] & set(p.blocks)) if stores[acc] & set(p.blocks) else h)
                if fin[0] == 'call' and fin[1].rsplit('::', 1)[-1] in ('max', 'min') and len(fin[2]) == 2 and acc0 in fin[2]:
                    d = 'higher' if fin[1].endswith('max') else 'option-min'
                    if d != w:
                        bad = (loc, 'the accumulator becomes %s(old, candidate)%s' % (fin[1].rsplit('::', 1)[-1], ': the minimum of None and Some(c) is None, so the accumulator never takes a value' if d == 'option-min' else ''))
                    continue
                x, is_some = _strip_some(fin)
                if not is_some:
                    bad = (loc, 'the accumulator ends a round with a value that is not Some(candidate): %s' % (fin,)[:1])
                    continue
                if w == 'higher' and x[0] == 'const' and isinstance(x[1], int) and x[1] == (1 << int(re.search(r'Option<u(\d+)', b.lty(acc)).group(1))) - 1:
                    continue        # the type's maximum is at least as high as anything
                ev = _update_evidence(p.conds, acc0, x)
                opposite = 'higher' if w == 'lower' else 'lower'
                if opposite in ev:
                    bad = (loc, '%s stores the candidate into `%s` when it is %s than the old value, but every accumulator of this function must keep the %s one: the cost '
                           'reported for a rule is then not the %s over its productions' % (fname, b.name_of(acc), opposite, w, 'minimum' if w == 'lower' else 'maximum'))
                elif not (ev & {'none', w}):
                    bad = (loc, '%s stores the candidate into `%s` on a path that neither found it empty nor compared the candidate with it' % (fname, b.name_of(acc)))
            if nstore == 0:
                continue
            found += 1
            n += 1
            if bad:
                res.bad(R, key, bad[0], bad[1], {'function': b.path})
            else:
                res.ok(R, key, loc_of(b, h), 'on each of the %d paths of a production round that change `%s`, it was empty or the candidate is the %s one' % (nstore, b.name_of(acc), w))
        if found < 2:
            res.lost(R, 'expected two accumulators updated in the production loop of %s, found %d' % (fname, found))
    res.floor(R, 'accumulators of the cost functions whose update was decided', n, 4)


def cost_fn(facts, res, R, name):
    bs = [b for b in facts.lib_bodies(['cfgrammar']) if b.path == 'cfgrammar::yacc::grammar::' + name]
    if len(bs) != 1:
        res.lost(R, '%s not found' % name)
        return None
    return bs[0]


def r176(facts, res):
    """Termination evidence for the "repeat until every rule is done" loops of the cost functions.  Such a loop ends only when a
    round finds every rule done; a round that changes nothing is followed by an identical one.  Accepted evidence: (E1) the loop
    also ends when a round changed nothing (a change flag decides an exit), or (E2) every rule on a dependency cycle was
    finalised before the loop (a pass calling has_path(r, r) and marking r done), so the rest is acyclic and each round
    finalises at least one rule."""
    R = 'R17.6'
    from lrstep import is_call
    n = 0
    for name in ('rule_min_costs', 'rule_max_costs'):
        b = cost_fn(facts, res, R, name)
        if b is None:
            continue
        loops = b.loops()
        # the outer round loop: the largest loop that contains an `all done` summary flag test deciding its exit
        flags = [(l, c, ib, hh, inl) for l, c, ib, hh, inl in summary_flags(b) if c == 1 and ib in loops.get(max(loops, key=lambda x: len(loops[x])), ())]
        rounds = [h for h in loops if not any(h in loops[o] and o != h for o in loops)]
        rounds = [h for h in rounds if any(ib in loops[h] for _l, _c, ib, _hh, _inl in flags)]
        if len(rounds) != 1:
            # the same loop condition spelled `while done.contains(&false)`: an outermost loop left exactly when no entry of a
            # Vec<bool> is false
            rounds = []
            for bb, t in b.calls_named('contains'):
                if len(t['args']) == 2 and 'bool' in (callee_of(t).get('self_ty') or ' '.join(callee_of(t).get('args') or [])):
                    outer = [h2 for h2 in loops if bb in loops[h2] and not any(h2 in loops[o] and o != h2 for o in loops)]
                    if outer and b.term(t['ret'])['k'] == 'switch' and any(x not in loops[outer[0]] for x in b.succs(t['ret'])):
                        rounds.append(outer[0])
            rounds = sorted(set(rounds))
        if len(rounds) != 1:
            res.lost(R, 'cannot identify the round loop of %s' % name)
            continue
        h = rounds[0]
        n += 1
        key = '%s/round-loop' % name
        # E1: a bool flag initialised false per round (change flag) whose test leaves the loop
        e1 = any(hh == h for hh, _blocks, _flag, _resets, _assigns in fixpoint_loops(b))
        # E2: has_path(x, x) before the loop, with a store of `true` into the done vector under it
        e2 = False
        for bb, t in b.calls_named('has_path'):
            if bb in loops[h] or not t['args'] or len(t['args']) < 3:
                continue
            r1 = b.op_root(t['args'][1], stop_named=True)[0]
            r2 = b.op_root(t['args'][2], stop_named=True)[0]
            if r1 != r2:
                continue
            # a const-true store through index_mut reachable from the has_path test before the round loop
            for x in b.reachable([bb], avoid={h}):
                for st in b.blocks[x]['stmts']:
                    if st['k'] == 'assign' and st['lhs']['p'] == ['deref'] and 'use' in st['rv'] and st['rv']['use'].get('const', {}).get('int') == 1 \
                            and b.lty(st['lhs']['l']).startswith('&mut bool'):
                        e2 = True
        # E2 as a collect: the done vector starts out as `rules.map(|r| has_path(r, r)).collect()`
        if not e2:
            for cb in facts.closures_of(b):
                hp = cb.calls_named('has_path')
                if len(hp) == 1 and len(hp[0][1]['args']) >= 3 and cb.lty(0) == 'bool':
                    t = hp[0][1]
                    r1 = cb.op_root(t['args'][1], stop_named=False)[0]
                    r2 = cb.op_root(t['args'][2], stop_named=False)[0]
                    rets = [p for p in Walker(cb, facts, max_paths=8).run() if p.end[0] == 'return']
                    if r1 == r2 == 2 and rets and all(is_call(p.end[1], 'has_path') for p in rets):
                        # its results are collected into a Vec<bool> before the round loop
                        for bb, t2 in b.calls_named('collect'):
                            if bb not in loops[h] and b.lty(t2['dest']['l']).startswith('alloc::vec::Vec<bool'):
                                e2 = True
        if e1:
            res.ok(R, key, loc_of(b, h), 'the round loop also ends when a round changed nothing')
        elif e2:
            res.ok(R, key, loc_of(b, h), 'every rule on a dependency cycle (has_path(r, r)) is finalised before the loop: the rest is acyclic, each round finalises a rule')
        else:
            res.bad(R, key, loc_of(b, h), 'no termination evidence: the loop ends only when every rule is done, it has no exit for a round that changed nothing, and rules on '
                    'dependency cycles are not finalised beforehand - a unit cycle (A: B; B: A | x) repeats the same round forever, an unproductive recursion '
                    '(B: B x) grows a cost until it overflows', {'function': b.path})
    res.floor(R, 'round loops of the cost functions', n, 2)


def acc_roles(facts, b, accs):
    """accumulator -> set of truth values a summary flag had on the rounds of the production loop that stored into it"""
    from lrstep import widening_walker
    flags = {l for l, c, _ib, _hh, _inl in summary_flags(b) if c == 1}
    stores = _acc_store_blocks(b, accs)
    loops = b.loops()
    out = {}
    for acc in sorted(stores):
        inits = [bb for bb, kind, rv in b.defs().get(acc, ()) if kind == 'stmt' and 'agg' in rv and isinstance(rv['agg'], dict) and rv['agg'].get('vname') == 'None']
        cands = [h for h in loops if stores[acc] & loops[h] and not any(i in loops[h] for i in inits)]
        if not cands or not inits:
            continue
        h = max(cands, key=lambda x: len(loops[x]))
        wk = widening_walker(b, facts, max_paths=20000)
        acc0 = ('widen', b.path, h, acc, ('uninit', acc))
        for p in wk.run(start=h, stop=lambda bb, L=loops[h]: bb not in L):
            if p.end[0] != 'loop' or wk.as_value(p.env, wk.read_key(p.env, (acc, ()))) == acc0:
                continue
            for c, v in p.conds:
                if isinstance(v, int) and c[0] in ('widen', 'uninit') and (c[3] if c[0] == 'widen' else c[1]) in flags:
                    out.setdefault(acc, set()).add(v)
                elif isinstance(v, int) and c[0] == 'widen' and len(c) > 4 and c[4] == ('const', 1) and b.lty(c[3]) == 'bool':
                    # a bool that entered an inner loop as `true` and is tested after it: an "all .." summary, whatever it is called
                    # and however it travelled here (e.g. out of an inlined helper in a tuple)
                    out.setdefault(acc, set()).add(v)
    return out


def r177(facts, res):
    """rule_max_costs may declare a rule's maximum final only when none of its productions is still incomplete (the cost of an
    incomplete production is a lower bound that can still grow), or when the maximum is already infinite."""
    R = 'R17.7'
    from lrstep import is_call, has_call, widening_walker, loop_assigned
    b = cost_fn(facts, res, R, 'rule_max_costs')
    if b is None:
        return
    loops = b.loops()
    # the store done[i] = true inside a loop
    stores = []
    for bb in sorted(b.reachable()):
        for st in b.blocks[bb]['stmts']:
            if st['k'] == 'assign' and st['lhs']['p'] == ['deref'] and 'use' in st['rv'] and st['rv']['use'].get('const', {}).get('int') == 1 \
                    and b.lty(st['lhs']['l']).startswith('&mut bool') and any(bb in loops[h] for h in loops):
                inl = [h for h in loops if bb in loops[h]]
                if len(inl) >= 2:       # inside the per-rule loop of the round loop (not the has_path pre-pass)
                    stores.append(bb)
    if len(stores) != 1:
        res.lost(R, 'expected one `done[i] = true` store inside the round loop of rule_max_costs, found %d' % len(stores))
        return
    sb = stores[0]
    h = min((x for x in loops if sb in loops[x]), key=lambda x: len(loops[x]))
    w = widening_walker(b, facts)
    w.widen_headers = set(loops) - {h}
    w.widen_assigned = {x: loop_assigned(b, x) for x in w.widen_headers}
    ps = [p for p in w.run(h, stop=lambda x: x not in loops[h]) if sb in p.blocks]
    if not ps or w.overflow:
        res.lost(R, 'cannot enumerate the paths to the finalising store of rule_max_costs')
        return
    accs = {l for l, ty in enumerate(b.locals) if ty['ty'].startswith('core::option::Option<u') and b.name_of(l) and l > b.arg_count}
    # the accumulator of INCOMPLETE productions, by role: the one that takes the candidate on rounds of the production loop on which
    # an "all symbols done" summary flag (initially true, cleared in the symbol loop) was found false
    roles = acc_roles(facts, b, accs)
    noncmplt = [l for l in accs if 0 in roles.get(l, ()) and 1 not in roles.get(l, ())]
    wmax = {(1 << int(m_.group(1))) - 1 for m_ in (re.search(r'Option<u(\d+)', b.lty(l)) for l in accs) if m_}

    def of_nc(x):
        return isinstance(x, tuple) and len(x) > 3 and x[0] == 'widen' and x[3] in noncmplt
    bad = None
    for p in ps:
        ok = False
        for c, v in p.conds:
            # "no production was incomplete": is_none / !is_some / discriminant 0 of the incomplete accumulator
            if is_call(c, 'is_none') and v == 1 and term_has(c, of_nc):
                ok = True
            if is_call(c, 'is_some') and v == 0 and term_has(c, of_nc):
                ok = True
            if c[0] == 'discr' and of_nc(c[1]) and (v == 0 or (isinstance(v, tuple) and v[0] == 'ne' and 1 in v[1])):
                ok = True
            if c[0] == 'bin' and c[1] == 'Eq' and v == 1 and any(is_const(x) and x[1] in wmax for x in (c[2], c[3])):
                ok = True
            # `Some(x @ MAX)`: a switch on the value itself
            if isinstance(v, int) and v in wmax and c[0] == 'field' and isinstance(c[1], tuple) and c[1][0] == 'downcast':
                ok = True
        if not ok:
            bad = 'a rule\'s maximum is declared final on a path (blocks %s) on which a production of the rule is still incomplete and the maximum is not infinite: the incomplete production\'s cost is only a lower bound' % p.blocks[-8:]
            break
    if not noncmplt:
        res.lost(R, 'cannot identify the accumulator of incomplete productions in rule_max_costs')
    elif bad:
        res.bad(R, 'max-final', loc_of(b, sb), bad, {'function': b.path})
    else:
        res.ok(R, 'max-final', loc_of(b, sb), 'the maximum is final only when no production is incomplete or it is infinite (%d paths)' % len(ps))


def r178(facts, res):
    """"Generated minimal sentences are derivable": min_sentence walks productions with an explicit stack.  When it meets a rule symbol
    it defers - it pushes the continuation of the current production and the rule's cheapest production - and must then STOP scanning
    the current production: going on emits the symbols after the rule before the rule's own text, and emits them again when the
    continuation is popped.  Decided: on every round of the symbol loop that pushes onto the work stack, the loop is left."""
    R = 'R17.8'
    from lrstep import widening_walker, loop_assigned
    bs = [b for b in facts.lib_bodies(['cfgrammar']) if b.name == 'min_sentence' and 'SentenceGenerator' in (b.impl_of or '') and b.kind != 'closure']
    if len(bs) != 1:
        res.lost(R, 'SentenceGenerator::min_sentence not found')
        return
    b = bs[0]
    loops = b.loops()
    # the work stack: the Vec popped by the outer loop
    pops = [(bb, t) for bb, t in b.calls_named('pop') if t['args']]
    if len(pops) != 1:
        res.lost(R, 'expected one pop of the work stack in min_sentence, found %d' % len(pops))
        return
    stack = b.op_root(pops[0][1]['args'][0])[0]
    pushes = [(bb, t) for bb, t in b.calls_named('push') if t['args'] and b.op_root(t['args'][0])[0] == stack]
    outer = [h for h in loops if pops[0][0] in loops[h]]
    oh = min(outer, key=lambda x: len(loops[x])) if outer else None
    # the symbol loop: nested in the pop loop, and its header dominates the deferring pushes (which, once the scan stops after
    # them, are no longer part of the natural loop: they cannot come back to its header)
    inner = [h for h in loops if oh is not None and h != oh and h in loops[oh] and pops[0][0] not in loops[h] and pushes and all(b.dominates(h, pb) for pb, _ in pushes)]
    if not pushes or not inner:
        res.lost(R, 'min_sentence does not push deferred work from inside a loop over a production\'s symbols')
        return
    h = min(inner, key=lambda x: len(loops[x]))
    w = widening_walker(b, facts, max_paths=1024)
    w.widen_headers = set(loops) - {h}
    w.widen_assigned = {x: loop_assigned(b, x) for x in w.widen_headers}
    bad = None
    n = 0
    for p in w.run(h, stop=lambda x: x == oh or x not in loops[oh]):
        np = len([e for e in p.events if e[0] == 'call' and any(e[1] == pb for pb, _ in pushes)])
        if not np:
            continue
        n += 1
        if p.end == ('loop', h):
            bad = p
    # R17.10 the work stack is LIFO (`pop`): on a deferring round the frame of the rule met must be pushed LAST (it is expanded
    # next), the continuation of the current production before it
    order_bad = None
    n_order = 0
    for p in w.paths if hasattr(w, 'paths') else []:
        evs = [e for e in p.events if e[0] == 'call' and any(e[1] == pb for pb, _ in pushes)]
        if len(evs) != 2:
            continue

        def kind(e):
            t = e[3][1] if len(e[3]) > 1 else None
            if not (isinstance(t, tuple) and t and t[0] == 'tuple' and t[1]):
                return None
            first = t[1][0]
            # the nested frame names the rule symbol just met (the payload of the symbol's Rule variant); the continuation names
            # the production of the frame that was popped
            if term_has(first, lambda x: isinstance(x, tuple) and len(x) > 3 and x[0] == 'downcast' and x[3] == 'Rule'):
                return 'nested'
            return 'cont'
        ks = [kind(e) for e in evs]
        if None in ks or set(ks) != {'nested', 'cont'}:
            continue
        n_order += 1
        if ks != ['cont', 'nested']:
            order_bad = evs
    if n_order:
        if order_bad is not None:
            res.bad('R17.10', 'nested-frame-on-top', loc_of(b, order_bad[0][1]), 'the work stack is popped from the end, but the frame of the rule just met is pushed BEFORE the continuation of the current '
                    'production: the rest of the production is emitted before the rule\'s own text (`S: \'a\' B \'c\'` gives a c b)', {'function': b.path})
        else:
            res.ok('R17.10', 'nested-frame-on-top', loc_of(b, h), 'on the %d deferring rounds the continuation is pushed first and the frame of the rule met last (it is expanded next)' % n_order)
    if not n:
        res.lost(R, 'no round of the symbol loop defers work')
    elif bad is not None:
        res.bad(R, 'defer-then-stop', loc_of(b, h), 'after deferring to a rule\'s production (work pushed at line %s) the scan of the current production goes on: the symbols behind the rule are '
                'emitted before the rule\'s own text and once more when the continuation is resumed - the result is not a sentence of the grammar'
                % b.term([e[1] for e in bad.events if e[0] == 'call' and any(e[1] == pb for pb, _ in pushes)][0]).get('line'), {'function': b.path})
    else:
        res.ok(R, 'defer-then-stop', loc_of(b, h), 'each of the %d rounds that defer to a rule\'s production leaves the scan of the current one' % n)


def r179(facts, res):
    """has_path(from, to) is reachability by at least one step - from == to asks for a cycle.  Every edge the search
    discovers (a rule `p` on the right-hand side of an expanded rule) has to be compared with `to` the first time it is met.
    Either the comparison cannot be bypassed on the way from the edge to the next symbol, or it is bypassed only for rules
    marked in a table that is written for nothing but an edge target that has just been compared (mark-on-discovery).  A
    table that also marks EXPANDED rules marks `from` itself, and the edge that closes a cycle back to `from` is skipped."""
    R = 'R17.9'
    bs = [b for b in facts.lib_bodies(['cfgrammar']) if b.name == 'has_path' and (b.impl_of or '').startswith('cfgrammar::yacc::grammar::YaccGrammar<')]
    if len(bs) != 1:
        return res.lost(R, 'YaccGrammar::has_path not found')
    b = bs[0]
    TO = 3
    cmps = []
    for bb, t in b.calls(lambda t: cname(t) in ('eq', 'ne')):
        roots = [b.op_root(a, through=())[0] for a in t['args']]
        if TO in roots and len(roots) == 2:
            other = roots[1 - roots.index(TO)]
            cmps.append((bb, other))
    for bb, _i, st in b.stmts():
        if st['k'] == 'assign' and st['rv'].get('bin') in ('Eq', 'Ne'):
            roots = [b.op_root(o, through=())[0] for o in (st['rv']['a'], st['rv']['b'])]
            if TO in roots:
                cmps.append((bb, roots[1 - roots.index(TO)]))
    cmps = [(bb, o) for bb, o in cmps if o is not None and o != TO and 'RIdx' in b.lty(o)]
    if not cmps:
        return res.lost(R, 'no comparison of a discovered rule with the target in has_path')
    loops = b.loops()
    n = 0
    for cb, P in cmps:
        ds = [d for d in b.defs().get(P, []) if d[1] == 'stmt']
        if len(ds) != 1:
            continue
        A = ds[0][0]
        inl = [h for h in loops if A in loops[h]]
        if not inl:
            continue
        n += 1
        h = min(inl, key=lambda x: len(loops[x]))
        key = 'edge-compared@L%d' % (n - 1)
        where = loc_of(b, cb)
        if A == cb or h not in b.reachable(starts=(A,), avoid={cb}):
            res.ok(R, key, where, 'every discovered edge is compared with the target before the next symbol is looked at')
            continue
        # the comparison can be bypassed: which tables decide that, and what do they mark?
        skip_blocks = b.reachable(starts=(A,), avoid={cb, h})
        tables = set()
        for x in skip_blocks:
            t = b.term(x)
            if t['k'] == 'call' and cname(t) == 'index' and t['args']:
                r = b.op_root(t['args'][0], through=())[0]
                if r is not None and b.lty(r).startswith('alloc::vec::Vec<bool'):
                    tables.add(r)
        bad = []
        for x, t in b.calls_named('index_mut'):
            r = b.op_root(t['args'][0], through=())[0]
            if r not in tables:
                continue
            # what is stored through the returned reference, and for which index?
            dl = t['dest']['l']
            stores_true = any(st['k'] == 'assign' and st['lhs']['l'] == dl and st['lhs']['p'] == ['deref'] and (op_const(st['rv'].get('use', {})) or {}).get('int') == 1
                              for y in b.reachable(starts=(t['ret'],)) for st in b.blocks[y]['stmts'])
            if not stores_true:
                continue
            il = op_local(t['args'][1])
            ir = None
            for d in b.defs().get(il, []) if il is not None else []:
                if d[1] == 'call' and cname(d[2]) == 'from' and d[2]['args']:
                    ir = b.op_root(d[2]['args'][0], through=())[0]
            if ir != P or not b.dominates(cb, x):
                bad.append('`%s[%s]` (line %s)' % (b.name_of(r) or '_%d' % r, b.name_of(ir) if ir is not None and b.name_of(ir) else '?', t.get('line')))
        if not tables:
            res.bad(R, key, where, 'a discovered edge can reach the next symbol without being compared with the target')
        elif bad:
            res.bad(R, key, where, 'an edge to a marked rule is skipped before it is compared with the target, and the mark is also set by %s for a rule that '
                    'was not just compared: the edge closing a cycle back to `from` is never seen' % ', '.join(sorted(set(bad))))
        else:
            res.ok(R, key, where, 'the comparison is skipped only for rules marked right after having been compared (mark on discovery)')
    res.floor(R, 'edge/target comparisons', n, 1)


def r1711(facts, res):
    """A lazily filled cache cell has ONE computation.  SentenceGenerator keeps the cost tables in `RefCell<Option<Vec<_>>>`
    fields that each query fills on first use (`get_or_insert_with(|| compute(..))`).  If two sites fill the same cell with
    different computations (or one computation is stored in two cells that are read as different things) the answer of a
    query depends on which query ran first: min-cost asked after max-cost returns maximum costs.  Decided as a cross-site
    agreement: field -> set of library functions called by the filling closure must be single-valued, and injective."""
    R = 'R17.11'
    fills = {}   # field -> {callee set: [site]}
    n = 0
    for b in facts.lib_bodies(['cfgrammar']):
        if 'SentenceGenerator' not in (b.impl_of or '') or b.kind == 'closure' or b.from_expansion:
            continue
        for bb, t in b.calls():
            if cname(t) not in ('get_or_insert_with', 'get_or_init', 'get_or_insert', 'insert', 'replace', 'get_mut_or_init'):
                continue
            if not t['args']:
                continue
            l = op_local(t['args'][0])
            if l is None:
                continue
            root, projs, via = b.root(l, through=Body.THROUGH + ('borrow_mut', 'borrow', 'get_mut', 'as_mut'), stop_named=False)
            fld = None
            for pr in projs:
                for q in pr:
                    if isinstance(q, dict) and q.get('name'):
                        fld = q['name']
            if root != 1 or fld is None:
                continue
            # what fills it: the library functions called by the closure (or, for a value argument, by its definition)
            comp = set()
            if len(t['args']) > 1:
                al = op_local(t['args'][1])
                for _bb, kind, rv in b.defs().get(al, ()) if al is not None else ():
                    if kind == 'stmt' and 'agg' in rv and isinstance(rv['agg'], dict) and 'closure' in rv['agg']:
                        cb = facts.bodies.get(rv['agg']['closure'])
                        if cb is not None:
                            for _x, ct in cb.calls():
                                c = callee_of(ct)
                                if (c.get('crate') or '') in ('cfgrammar',) or (c.get('path') or '').startswith('cfgrammar::'):
                                    comp.add(strip_generics(c.get('path') or c['name']))
                    elif kind == 'call':
                        c = callee_of(rv)
                        if (c.get('path') or '').startswith('cfgrammar::'):
                            comp.add(strip_generics(c.get('path') or c['name']))
            if not comp:
                continue
            n += 1
            fills.setdefault(fld, {}).setdefault(frozenset(comp), []).append((b, bb))
    by_comp = {}
    for fld, d in sorted(fills.items()):
        sites = [x for v in d.values() for x in v]
        key = 'cache-cell:%s' % fld
        for comp in d:
            by_comp.setdefault(comp, set()).add(fld)
        if len(d) > 1:
            minority = min(d.items(), key=lambda kv: len(kv[1]))
            mb, mbb = minority[1][0]
            res.bad(R, key, loc_of(mb, mbb), 'the cell `%s` is filled by different computations at different sites (%s): whichever query runs first decides what the others read; '
                    'a site that differs: %s' % (fld, ' / '.join('%s x%d' % (','.join(sorted(x.split('::')[-1] for x in c)), len(v)) for c, v in sorted(d.items(), key=lambda kv: -len(kv[1]))),
                                                  strip_generics(mb.path).split('::')[-1]), {'function': mb.path})
        else:
            comp = list(d)[0]
            res.ok(R, key, loc_of(*sites[0]), 'filled at %d site(s), always by %s' % (len(sites), ','.join(sorted(x.split('::')[-1] for x in comp))))
    for comp, flds in sorted(by_comp.items(), key=lambda kv: sorted(kv[0])):
        if len(flds) > 1:
            res.bad(R, 'cache-computation:%s' % ','.join(sorted(x.split('::')[-1] for x in comp)), 'cfgrammar/src/lib/yacc/grammar.rs',
                    'one computation is stored in several cells (%s) that the queries read as different tables' % ', '.join(sorted(flds)))
    res.floor(R, 'lazy cache fills in SentenceGenerator', n, 2)


def run(facts, res):
    r179(facts, res)
    r1711(facts, res)
    r178(facts, res)
    r176(facts, res)
    r177(facts, res)
    r175(facts, res)
    r171_172(facts, res)
    r173(facts, res)
    r174(facts, res)
