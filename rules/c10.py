"""C10 A grammar object is a faithful, well-formed image of its .y source (DESIGN.md §4 C10) - one clause only.

R10.1 parallel per-production / per-token / per-rule tables have the length of their index space ("numbered densely from
      zero, every index the API returns is in range").  The round-trip clauses of C10 are NOT decided.
"""
from mirlib import *

META = {
    'level': 'other',
    'explanation': 'R10.1 decides one structural clause of C10: a field of YaccGrammar is P-/T-/R-indexed when some accessor '
                   'indexes it with usize::from(idx) of a PIdx/TIdx/RIdx parameter (read from the accessors\' MIR). In the '
                   'constructor all vectors flowing into the fields of one class must end with the same length as the class '
                   'leader (the vector whose len() becomes prods_len / tokens_len / rules_len): same initial length and pushes '
                   'in lock-step (same straight-line regions), or a snapshot of / one-push-per-element loop over the completed '
                   'leader. Necessary for: every index below *_len can be passed to every accessor without an out-of-bounds '
                   'panic. NOT decided: that rules, symbols, precedences, %epp strings, actions and spans are the ones written '
                   'in the source (a round-trip law over a hand-written parser).',
}

G = 'cfgrammar::yacc::grammar::YaccGrammar'
IDX = {'PIdx': 'P', 'TIdx': 'T', 'RIdx': 'R'}
CHASE = Body.THROUGH + ('into_boxed_slice', 'collect', 'map', 'into_iter', 'copied', 'cloned', 'into_vec', 'unwrap', 'from_iter')
GROW = {'push': 1}
OTHER_GROW = {'extend', 'insert', 'resize', 'append', 'extend_from_slice', 'truncate', 'pop', 'remove', 'clear', 'drain'}


def indexed_fields(facts, res, R):
    """{class: {field: accessor}} from the accessors' MIR"""
    out = {'P': {}, 'T': {}, 'R': {}}
    for b in facts.lib_bodies(['cfgrammar']):
        if not (b.impl_of or '').startswith(G + '<') or b.name == 'new_from_ast_with_validity_info':
            continue
        # index projections
        for bb in sorted(b.reachable()):
            places = []
            for st in b.blocks[bb]['stmts']:
                if st['k'] == 'assign':
                    places.append(st['lhs'])
                    rv = st['rv']
                    for k in ('ref', 'rawptr', 'discr', 'len'):
                        if k in rv:
                            places.append(rv[k])
                    for o in rv_operands(rv):
                        pl = op_place(o)
                        if pl:
                            places.append(pl)
            for pl in places:
                for pr in pl['p']:
                    if isinstance(pr, dict) and 'index' in pr:
                        il = pr['index']
                        r, _p, _v = b.root(il, through=())
                        cls = None
                        for d in b.defs().get(r, []):
                            if d[1] == 'call' and cname(d[2]) == 'from':
                                p = cpath(d[2]) or ''
                                for k, c in IDX.items():
                                    if 'From<cfgrammar::idxnewtype::%s<' % k in p or 'From<idxnewtype::%s<' % k in p:
                                        # the converted value must be a parameter
                                        ar, _, _ = b.op_root(d[2]['args'][0], through=())
                                        if 1 <= ar <= b.arg_count:
                                            cls = c
                        if cls is None:
                            continue
                        br, bprojs, _ = b.root(pl['l'], through=())
                        fname = None
                        for pj in bprojs:
                            for q in pj:
                                if isinstance(q, dict) and 'name' in q and 'f' in q and q['name'] not in ('0', 'pointer'):
                                    fname = fname or q['name']
                        # direct projection on self
                        if fname is None:
                            for q in pl['p']:
                                if isinstance(q, dict) and 'name' in q and 'f' in q and q['name'] not in ('0', 'pointer'):
                                    fname = q['name']
                                    break
                        if fname:
                            out[cls].setdefault(fname, strip_generics(b.path).split('::')[-1])
    # bounds-checked `x.get(usize::from(idx)).unwrap()` directly in an accessor is an index too
    for b in facts.lib_bodies(['cfgrammar']):
        if not (b.impl_of or '').startswith(G + '<') or b.name == 'new_from_ast_with_validity_info' or b.kind == 'closure':
            continue
        for bb, t in b.calls_named('get'):
            if len(t['args']) < 2:
                continue
            if not any(cname(t2) in ('unwrap', 'expect') and b.op_root(t2['args'][0], through=())[0] == t['dest']['l'] for b2, t2 in b.calls()):
                continue
            ir, _p, _v = b.op_root(t['args'][1], through=())
            cls = None
            for d in b.defs().get(ir, []):
                if d[1] == 'call' and cname(d[2]) == 'from':
                    p_ = cpath(d[2]) or ''
                    for k, c in IDX.items():
                        if 'From<cfgrammar::idxnewtype::%s<' % k in p_ or 'From<idxnewtype::%s<' % k in p_:
                            ar, _, _ = b.op_root(d[2]['args'][0], through=())
                            if 1 <= ar <= b.arg_count:
                                cls = c
            if cls is None:
                continue
            r, projs, via = b.op_root(t['args'][0], stop_named=False)
            fn = [q.get('name') for pl in projs for q in pl if isinstance(q, dict) and 'f' in q and q.get('name') not in ('0', None)]
            if r == 1 and fn:
                out[cls].setdefault(fn[-1], strip_generics(b.path).split('::')[-1])
    # bounds-checked `get(usize::from(idx))` whose result is unwrapped is an index too (also inside `opt.map(|v| ..)`)
    for b in facts.lib_bodies(['cfgrammar']):
        if b.kind != 'closure':
            continue
        parent = facts.body(b.root_parent) if b.root_parent else None
        if parent is None or not (parent.impl_of or '').startswith(G + '<') or parent.name == 'new_from_ast_with_validity_info':
            continue
        gets = [(bb, t) for bb, t in b.calls_named('get') if any(cname(t2) in ('unwrap', 'expect') and b.op_root(t2['args'][0], through=())[0] == t['dest']['l']
                                                              for b2, t2 in b.calls())]
        if not gets:
            continue
        cls = None
        for i in range(1, parent.arg_count + 1):
            for k, c in IDX.items():
                if parent.lty(i).startswith('cfgrammar::idxnewtype::%s<' % k):
                    cls = c
        if cls is None:
            continue
        # the single field of self the parent reads
        fnames = set()
        for bb, i, st in parent.stmts():
            if st['k'] != 'assign':
                continue
            pls = [st['rv'][k] for k in ('ref', 'rawptr', 'discr') if k in st['rv']] + [op_place(o) for o in rv_operands(st['rv'])]
            for pl in pls:
                if pl and pl['l'] == 1:
                    for q in pl['p']:
                        if isinstance(q, dict) and 'name' in q and 'f' in q:
                            fnames.add(q['name'])
        if len(fnames) == 1:
            out[cls].setdefault(fnames.pop(), strip_generics(parent.path).split('::')[-1])
    return out


def chains(b):
    """block -> id of its control-equivalence class (blocks that run the same number of times: one dominates the other and is
    post-dominated by it).  Pushes in one class stay in lock-step whatever branches lie between them."""
    reach0 = sorted(b.reachable())
    reps = []
    rid0 = {}
    for blk in reach0:
        for r in reps:
            if b.control_equivalent(r, blk):
                rid0[blk] = r
                break
        else:
            reps.append(blk)
            rid0[blk] = blk
    return rid0


def chains_straight_line(b):
    """straight-line regions: block -> region id (maximal chains of single-successor / single-predecessor blocks)"""
    rid = {}
    reach = b.reachable()
    for blk in sorted(reach):
        if blk in rid:
            continue
        # walk back to the chain head
        h = blk
        while True:
            ps = [p for p in b.preds(h) if p in reach]
            if len(ps) == 1 and len(b.succs(ps[0])) == 1 and ps[0] not in rid and ps[0] != blk:
                h = ps[0]
            else:
                break
        x = h
        while True:
            rid[x] = h
            ss = b.succs(x)
            if len(ss) == 1:
                n = ss[0]
                if n in reach and n not in rid and len([p for p in b.preds(n) if p in reach]) == 1:
                    x = n
                    continue
            break
    return rid


def vec_ops(b, v):
    """[(block, callee name)] of calls that receive `&mut v`"""
    out = []
    for bb, t in b.calls():
        if not t['args']:
            continue
        l = op_local(t['args'][0])
        if l is None or not b.lty(l).startswith('&mut '):
            continue
        r, _p, _v = b.op_root(t['args'][0])
        if r == v:
            out.append((bb, cname(t)))
    return out


def init_len(b, v):
    """describe the initial length of local vector v: ('zero',) | ('len', description, root, block) | ('unknown', text)"""
    ds = b.defs().get(v, [])
    if len(ds) != 1 or ds[0][1] != 'call':
        return ('unknown', 'no single defining call'), None
    bb, _k, t = ds[0]
    nm = cname(t)
    p = cpath(t) or ''
    if nm in ('new', 'with_capacity') and 'Vec' in p:
        return ('zero',), bb
    if nm == 'from_elem':
        # vec![x; n]
        n = t['args'][1]
        r, projs, via = b.op_root(n, through=())
        dd = b.defs().get(r, [])
        if len(dd) == 1 and dd[0][1] == 'call' and cname(dd[0][2]) == 'len':
            vr, vp, vv = b.op_root(dd[0][2]['args'][0])
            return ('len', describe(b, vr, vp), vr, dd[0][0]), bb
        return ('unknown', 'vec![_; n] with n not a len()'), bb
    if nm == 'collect' or nm == 'from_iter':
        vr, vp, vv = b.op_root(t['args'][0], through=CHASE + ('iter', 'enumerate'), stop_named=False)
        return ('len', describe(b, vr, vp), vr, bb), bb
    return ('unknown', 'defined by %s' % p), bb


def describe(b, v, projs):
    names = []
    for pl in reversed(projs):
        for p in pl:
            if isinstance(p, dict) and 'name' in p and 'f' in p:
                names.append(p['name'])
    n = b.name_of(v) or ('arg%d' % v if v <= b.arg_count else '_%d' % v)
    return n + ''.join('.' + x for x in names)


def table_built_in_map_closure(facts, b, v, leader, growth_blocks):
    """Option local `v` = something.map(closure) where the closure returns a vector it sized from the class leader's len():
    returns (ok, message) or None when `v` is not of that shape"""
    ds = b.defs().get(v, [])
    if len(ds) != 1 or ds[0][1] != 'call' or cname(ds[0][2]) not in ('map', 'and_then') or len(ds[0][2]['args']) < 2:
        return None
    mb, _k, t = ds[0]
    cl = op_local(t['args'][1])
    cb = None
    for _bb, kind, rv in b.defs().get(cl, ()):
        if kind == 'stmt' and 'agg' in rv and isinstance(rv['agg'], dict) and 'closure' in rv['agg']:
            cb = facts.bodies.get(rv['agg']['closure'])
    if cb is None:
        return None
    # what the closure returns
    r, projs, via = cb.op_root({'copy': {'l': 0, 'p': []}}, through=CHASE, stop_named=True)
    if not cb.lty(r).startswith(('alloc::vec::Vec<', 'vob::Vob<')):
        return None
    vinit, vdef = init_len(cb, r)
    lname = b.name_of(leader)
    if vinit[0] != 'len' or [nm for _bb, nm in vec_ops(cb, r) if nm in GROW or nm in OTHER_GROW]:
        return False, 'the table built in the closure handed to %s() is not sized from a len() (%s)' % (cname(t), vinit)
    # the len() operand inside the closure is a captured variable: which one?
    # the len() that sizes the table must be taken of the captured class leader (environment field -> captured variable)
    okrecv = False
    dd = cb.defs().get(cb.op_root(cb.defs()[r][0][2]['args'][1], through=())[0], []) if cb.defs().get(r) and len(cb.defs()[r][0][2].get('args', [])) > 1 else []
    for d in dd:
        if d[1] == 'call' and cname(d[2]) == 'len':
            rr, rp, rv_ = cb.op_root(d[2]['args'][0])
            fs = [q['f'] for pl in rp for q in pl if isinstance(q, dict) and 'f' in q]
            if rr == 1 and fs and cb.upvars().get(fs[0]) == lname:
                okrecv = True
    if not okrecv:
        return False, 'the table built in the closure is not sized from the captured class leader `%s`' % lname
    after = b.reachable([mb])
    late = [bb for bb in growth_blocks if bb in after and bb != mb]
    if late:
        return False, 'the table is sized from `%s`.len() in a closure run before `%s` stops growing' % (lname, lname)
    return True, 'built by the closure handed to %s(): sized from `%s`.len() after the last growth of `%s`' % (cname(t), lname, lname)


def r101(facts, res):
    R = 'R10.1'
    classes = indexed_fields(facts, res, R)
    nf = sum(len(v) for v in classes.values())
    res.floor(R, 'index-accessed fields of YaccGrammar', nf, 11)
    b = facts.one(R, 'YaccGrammar::new_from_ast_with_validity_info', crate='cfgrammar', name='new_from_ast_with_validity_info')
    lit = None
    for bb, i, st in b.stmts():
        if st['k'] == 'assign' and 'agg' in st['rv'] and isinstance(st['rv']['agg'], dict) and st['rv']['agg'].get('adt') == G:
            lit = (bb, st)
    if lit is None:
        res.lost(R, 'YaccGrammar struct literal not found')
        return
    adt = facts.adt(G)
    fields = [f['name'] for f in adt['variants'][0]['fields']]
    fld = {}
    for f, op in zip(fields, lit[1]['rv']['ops']):
        r, projs, via = b.op_root(op, through=CHASE, stop_named=True)
        fld[f] = (r, projs, via)
    rid = chains(b)
    lenfield = {'P': 'prods_len', 'T': 'tokens_len', 'R': 'rules_len'}
    for cls in ('P', 'T', 'R'):
        members = classes[cls]
        if not members:
            res.lost(R, 'no %s-indexed field found' % cls)
            continue
        # the leader: the vector whose len() is narrowed into *_len
        lr, lprojs, lvia = b.op_root(lit[1]['rv']['ops'][fields.index(lenfield[cls])], through=('as_',), stop_named=False)
        leader = None
        for d in b.defs().get(lr, []):
            if d[1] == 'call' and cname(d[2]) == 'len':
                leader = b.op_root(d[2]['args'][0])[0]
        if leader is None:
            res.lost(R, 'cannot find the vector whose len() becomes %s' % lenfield[cls])
            continue
        lname = b.name_of(leader) or '_%d' % leader
        lops = vec_ops(b, leader)
        lpush = {}
        for bb, nm in lops:
            if nm == 'push':
                lpush[rid[bb]] = lpush.get(rid[bb], 0) + 1
        linit, ldef = init_len(b, leader)
        last_growth_blocks = [bb for bb, nm in lops if nm in GROW or nm in OTHER_GROW]
        for f, acc in sorted(members.items()):
            key = '%s-indexed/%s' % (cls, f)
            if f not in fld:
                res.bad(R, key, loc_of(b), 'field %s not in the struct literal' % f)
                continue
            v, projs, via = fld[f]
            where = loc_of(b, lit[0])
            if b.lty(v).startswith('core::option::Option<'):
                # `Some(table)` on one branch, `None` on the other: the table is what gets indexed
                for d in b.defs().get(v, []):
                    if d[1] == 'stmt' and 'agg' in d[2] and isinstance(d[2]['agg'], dict) and d[2]['agg'].get('vname') == 'Some':
                        v, projs, via = b.op_root(d[2]['ops'][0], through=CHASE, stop_named=True)
            if b.lty(v).startswith('core::option::Option<'):
                # `opt.map(|x| { build the table; table })`: the table is built inside the closure, when the map call runs
                got = table_built_in_map_closure(facts, b, v, leader, last_growth_blocks)
                if got is not None:
                    okm, msg = got
                    (res.ok if okm else res.bad)(R, key, where, msg)
                    continue
            if v == leader:
                res.ok(R, key, where, 'is the class leader `%s` (its len() is %s); indexed by %s()' % (lname, lenfield[cls], acc))
                continue
            if v <= b.arg_count or not b.lty(v).startswith(('alloc::vec::Vec<', 'vob::Vob<')):
                # not a local vector under construction: e.g. collected straight from the AST
                desc = describe(b, v, projs)
                res.bad(R, key, where,
                        'indexed by %s() with any index below %s, but built from `%s` alone: it is not extended where the synthetic '
                        '%s entries are pushed onto `%s`, so it is shorter than the index space (out-of-bounds panic)'
                        % (acc, lenfield[cls], desc, {'P': 'production', 'T': 'token', 'R': 'rule'}[cls], lname),
                        {'function': b.path})
                continue
            vinit, vdef = init_len(b, v)
            vops = vec_ops(b, v)
            vpush = {}
            for bb, nm in vops:
                if nm == 'push':
                    vpush[rid[bb]] = vpush.get(rid[bb], 0) + 1
            odd = [nm for bb, nm in vops if nm in OTHER_GROW]
            vname = b.name_of(v) or '_%d' % v
            # Form A: lock-step
            if vinit[:2] == linit[:2] and vpush == lpush and not odd:
                res.ok(R, key, where, '`%s` starts with the same length as `%s` and is pushed in the same %d control-equivalent regions' % (vname, lname, len(lpush)))
                continue
            # Form B: snapshot of the completed leader
            if vinit[0] == 'len' and vinit[2] == leader and not vpush and not odd:
                after = b.reachable([vinit[3]])
                late = [bb for bb in last_growth_blocks if bb in after and bb != vinit[3]]
                if not late:
                    res.ok(R, key, where, '`%s` is sized from `%s`.len() after the last growth of `%s`' % (vname, lname, lname))
                    continue
                res.bad(R, key, where, '`%s` is sized from `%s`.len() but `%s` still grows afterwards (line %s)' % (vname, lname, lname, b.term(late[0]).get('line')))
                continue
            # Form C: one push per element of the completed leader
            if vinit == ('zero',) and len(vpush) == 1 and not odd:
                (reg, cnt), = vpush.items()
                loops = b.loops()
                inl = [h for h in loops if reg in loops[h] or any(bb in loops[h] for bb, nm in vops if nm == 'push')]
                if cnt == 1 and inl:
                    h = min(inl, key=lambda x: len(loops[x]))
                    drv = None
                    for bb2, t2 in b.calls_named('next', loops[h]):
                        it, itp, itvia = b.op_root(t2['args'][0], through=CHASE + ('iter', 'enumerate'), stop_named=False)
                        if it == leader:
                            drv = bb2
                    grows_in = [bb for bb in last_growth_blocks if bb in loops[h] or bb in b.reachable([h])]
                    if drv is not None and not grows_in:
                        res.ok(R, key, where, '`%s` gets exactly one push per element of the completed `%s`' % (vname, lname))
                        continue
            # otherwise: report the regions that differ
            missing = sorted(r for r in lpush if vpush.get(r, 0) != lpush[r])
            extra = sorted(r for r in vpush if r not in lpush)
            lines = [b.term(r).get('line') for r in missing]
            res.bad(R, key, where,
                    'indexed by %s() with any index below %s, but `%s` does not grow in lock-step with `%s`: initial %s vs %s; '
                    '`%s` is pushed at lines %s where `%s` is not%s'
                    % (acc, lenfield[cls], vname, lname, vinit[:2], linit[:2], lname, lines, vname,
                       '; other length-changing calls: %s' % odd if odd else ''),
                    {'function': b.path, 'leader_push_regions': sorted(lpush), 'member_push_regions': sorted(vpush)})


def r102(facts, res):
    """the unnamed end-of-input token: eof_token_idx is the index at which the `None` name is pushed"""
    R = 'R10.2'
    b = facts.one(R, 'YaccGrammar::new_from_ast_with_validity_info', crate='cfgrammar', name='new_from_ast_with_validity_info')
    lit = None
    for bb, i, st in b.stmts():
        if st['k'] == 'assign' and 'agg' in st['rv'] and isinstance(st['rv']['agg'], dict) and st['rv']['agg'].get('adt') == G:
            lit = (bb, st)
    adt = facts.adt(G)
    fields = [f['name'] for f in adt['variants'][0]['fields']]
    if lit is None or 'eof_token_idx' not in fields:
        res.lost(R, 'YaccGrammar literal / eof_token_idx field not found')
        return
    op = lit[1]['rv']['ops'][fields.index('eof_token_idx')]
    r, projs, via = b.op_root(op, through=('as_',), stop_named=False)
    lens = [d for d in b.defs().get(r, []) if d[1] == 'call' and cname(d[2]) == 'len']
    if not lens:
        res.bad(R, 'eof-index', loc_of(b, lit[0]), 'eof_token_idx is not computed from the length of the token-name vector')
        return
    lb = lens[0][0]
    tn = b.op_root(lens[0][2]['args'][0])[0]
    # next push onto the same vector after the len(): must push None, with no other push in between
    rid = chains(b)
    pushes = [(bb, t) for bb, t in b.calls_named('push') if b.op_root(t['args'][0])[0] == tn]
    after = [(bb, t) for bb, t in pushes if bb in b.reachable([lb]) and bb != lb]
    same_region = [(bb, t) for bb, t in after if rid[bb] == rid[lb]]
    ok = False
    if same_region:
        bb, t = same_region[0]
        l = op_local(t['args'][1])
        for d in b.defs().get(l, []):
            if d[1] == 'stmt' and 'agg' in d[2] and isinstance(d[2]['agg'], dict) and d[2]['agg'].get('vname') == 'None':
                ok = True
    later = [bb for bb, t in after if rid[bb] != rid[lb]]
    if ok and len(same_region) == 1 and not later:
        res.ok(R, 'eof-index', loc_of(b, lb), 'eof_token_idx = token_names.len() taken immediately before the single push of the unnamed (None) token, which is the last token')
    else:
        res.bad(R, 'eof-index', loc_of(b, lb), 'eof_token_idx is not the index of the unnamed token: after it is computed the token vector gets %d push(es) in the same region (first is None: %s) and %d later' % (len(same_region), ok, len(later)))
    # the start production field is production 0 of the start rule
    R3 = 'R10.3'
    op = lit[1]['rv']['ops'][fields.index('start_prod')]
    w = None
    r, projs, via = b.op_root(op, through=Body.THROUGH + ('index',), stop_named=False)
    # chase: index(index(rules_prods, usize::from(rule_map[&start_rule])), 0)
    l = op_local(op)
    zero = None
    seen = set()
    inner_idx_src = None
    while l is not None and l not in seen:
        seen.add(l)
        ds = b.defs().get(l, [])
        if len(ds) != 1:
            break
        if ds[0][1] == 'call' and cname(ds[0][2]) == 'index':
            ia = ds[0][2]['args'][1]
            c = ia.get('const')
            if zero is None:
                zero = bool(c and c.get('int') == 0)
                l = op_local(ds[0][2]['args'][0])
                continue
            inner_idx_src = ia
            break
        x = ds[0][2]
        if ds[0][1] == 'stmt':
            pl = op_place(x['use']) if 'use' in x else x.get('ref')
            l = pl['l'] if pl else None
        elif cname(x) in Body.THROUGH and x['args']:
            l = op_local(x['args'][0])
        else:
            break
    if zero:
        res.ok(R3, 'start-prod', loc_of(b, lit[0]), 'start_prod is production 0 of a rule looked up by name')
    else:
        res.bad(R3, 'start-prod', loc_of(b, lit[0]), 'start_prod is not the first production of the added start rule')


def r104(facts, res):
    """declaration-order independence: nothing except maintenance of the parallel span table may be conditional on a name
    being NEW to the token set (anything guarded by "first mention" makes the result depend on declaration order)"""
    R = 'R10.4'
    n = 0
    for b in facts.lib_bodies(['cfgrammar']):
        if not b.path.startswith('cfgrammar::yacc::parser::') or b.from_expansion:
            continue
        for bb, t in b.calls():
            c = callee_of(t)
            if c is None or c['name'] not in ('insert', 'insert_full'):
                continue
            st = c.get('self_ty') or ''
            if not st.startswith('indexmap::set::IndexSet<alloc::string::String'):
                continue
            r, projs, via = b.op_root(t['args'][0])
            fnames = [q.get('name') for pl in projs for q in pl if isinstance(q, dict) and 'f' in q]
            if 'tokens' not in fnames:
                continue
            n += 1
            dest = t['dest']['l']
            # the switch testing the "newly inserted" flag
            sw = None
            for sb in b.reachable([t['ret']]) if t['ret'] is not None else []:
                tt = b.term(sb)
                if tt['k'] != 'switch':
                    continue
                pl = op_place(tt['on'])
                if pl is None:
                    continue
                rr, pj, vv = b.root(pl['l'], through=(), stop_named=False)
                if rr == dest and b.dominates(bb, sb):
                    sw = sb
                    break
            key = 'first-mention:%s#%d' % (strip_generics(b.path).split('::')[-1], n)
            if sw is None:
                res.ok(R, key, loc_of(b, bb), 'the "newly inserted" flag of this token-set insertion guards nothing')
                continue
            tt = b.term(sw)
            zero = [x for v, x in tt['targets'] if v == 0]
            true_succ = tt['otherwise']
            guarded = [x for x in b.reachable([true_succ]) if b.dominates(true_succ, x)]
            offenders = []
            for g in guarded:
                gt = b.term(g)
                if gt['k'] != 'call' or not gt['args']:
                    continue
                l0 = op_local(gt['args'][0])
                if l0 is None or not b.lty(l0).startswith('&mut '):
                    continue
                rr, pj, vv = b.op_root(gt['args'][0])
                fn = [q.get('name') for pl in pj for q in pl if isinstance(q, dict) and 'f' in q]
                if cname(gt) == 'push' and 'spans' in fn:
                    continue
                if cname(gt) in ('deref_mut', 'as_mut', 'index_mut'):
                    continue
                offenders.append('%s on %s (line %s)' % (cname(gt), '.'.join(x for x in fn if x) or b.lty(l0)[:40], gt.get('line')))
            if offenders:
                res.bad(R, key, loc_of(b, sw), 'conditional on the token being new to the token set: %s - the result now depends on which declaration mentions the name first' % '; '.join(offenders))
            else:
                res.ok(R, key, loc_of(b, sw), 'only the parallel span table is extended when the name is new')
    res.floor(R, 'token-set insertions in the Yacc parser', n, 3)


def r106(facts, res):
    """`ast.spans` is PARALLEL to the token index set `ast.tokens` (token i's span is spans[i]): it grows by one exactly when an
    insertion into the token set reports a NEW token.  Every push onto it lies on the "was new" side of such an insertion, and
    that side pushes; an unconditional push shifts the span of every token that first appears later."""
    R = 'R10.6'
    n = 0
    for b in facts.lib_bodies(['cfgrammar']):
        if not b.path.startswith('cfgrammar::yacc::parser::') or b.from_expansion:
            continue
        def field_names(op):
            r, projs, via = b.op_root(op)
            return [q.get('name') for pl in projs for q in pl if isinstance(q, dict) and 'f' in q]
        pushes = [(bb, t) for bb, t in b.calls_named('push') if t['args'] and 'spans' in field_names(t['args'][0]) and 'ast' in field_names(t['args'][0])]
        if not pushes:
            continue
        # "was new" regions: blocks dominated by the true successor of a switch on the result of tokens.insert
        new_regions = []
        untested = []
        for bb, t in b.calls():
            c = callee_of(t)
            if c is None or c['name'] not in ('insert', 'insert_full') or not (c.get('self_ty') or '').startswith('indexmap::set::IndexSet<alloc::string::String'):
                continue
            if 'tokens' not in field_names(t['args'][0]):
                continue
            dest = t['dest']['l']
            tested = False
            for sb in (b.reachable([t['ret']]) if t['ret'] is not None else []):
                tt = b.term(sb)
                if tt['k'] != 'switch':
                    continue
                pl = op_place(tt['on'])
                if pl is None:
                    continue
                rr, pj, vv = b.root(pl['l'], through=(), stop_named=False)
                if rr == dest and b.dominates(bb, sb):
                    new_regions.append((bb, tt['otherwise']))
                    tested = True
                    break
            if not tested:
                untested.append(bb)
        # "was new" may also be established by a lookup done first: the absent side of tokens.get_index_of(..) / get(..) / contains(..)
        for bb, t in b.calls():
            c = callee_of(t)
            if c is None or c['name'] not in ('get_index_of', 'get', 'get_full', 'contains') or not (c.get('self_ty') or '').startswith('indexmap::set::IndexSet<alloc::string::String'):
                continue
            if 'tokens' not in field_names(t['args'][0]) or t['ret'] is None:
                continue
            tt = b.term(t['ret'])
            if tt['k'] != 'switch':
                continue
            pl = op_place(tt['on'])
            if pl is None:
                continue
            src = b.root(pl['l'], through=(), stop_named=False)[0]
            for _db, kind, rv in b.defs().get(pl['l'], ()):
                if kind == 'stmt' and 'discr' in rv:
                    src = rv['discr']['l']          # `match lookup { None => .., Some(_) => .. }` switches on the discriminant
            if src != t['dest']['l']:
                continue
            absent = [x for v, x in tt['targets'] if v == 0]
            # only a lookup that guards an INSERTION decides newness (a lookup may also just classify a name)
            inserts_there = [ib for ib, it in b.calls() if callee_of(it) and callee_of(it)['name'] in ('insert', 'insert_full')
                             and (callee_of(it).get('self_ty') or '').startswith('indexmap::set::IndexSet<alloc::string::String') and it['args']
                             and 'tokens' in field_names(it['args'][0]) and absent and b.dominates(absent[0], ib)]
            if absent and inserts_there:
                new_regions.append((bb, absent[0]))
        # an insertion whose own result is not looked at is fine inside such an "absent" region
        untested = [ib for ib in untested if not any(b.dominates(ts, ib) for _lb, ts in new_regions)]
        for pb, pt in pushes:
            n += 1
            key = 'span-push:%s@L%d' % (strip_generics(b.path).split('::')[-1], [x[0] for x in pushes].index(pb))
            if any(b.dominates(ts, pb) for _ib, ts in new_regions):
                res.ok(R, key, loc_of(b, pb), 'pushed only when the token-set insertion reported a new token')
            else:
                res.bad(R, key, loc_of(b, pb), 'a span is pushed onto the table parallel to the token set although no insertion into the token set reported a new token on '
                        'this path: the table gets one entry too many and every token that first appears later is given the span of earlier text')
        for ib in untested:
            res.bad(R, 'span-push-missing:%s@%d' % (strip_generics(b.path).split('::')[-1], ib), loc_of(b, ib), 'a name is inserted into the token set without looking at whether it was '
                    'new, and no span is pushed for it: when it IS new the span table parallel to the token set ends up one entry short (index out of bounds when the grammar is built, or '
                    'every later token carries its neighbour\'s span)')
        for ib, ts in new_regions:
            if not any(b.dominates(ts, pb) for pb, _pt in pushes):
                res.bad(R, 'span-push-missing:%s@%d' % (strip_generics(b.path).split('::')[-1], ib), loc_of(b, ib), 'a new token is added to the token set but no span is pushed for it')
    res.floor(R, 'pushes onto the token span table', n, 3)


def r105(facts, res):
    """"each rule/production/token span points at the text that defines it", for names: (a) parse_name(i) returns the cursor
    i + E together with exactly src[i .. i + E]; (b) every Ok return of parse_token carries a span whose bounds are the bounds of
    the slice its text was copied from; (c) every Span::new(a, b) in the yacc parser whose end b is the cursor returned by
    parse_name / parse_token started at x starts at x.  Linear forms (A10) decide the equalities."""
    R = 'R10.5'
    import linarith as LA
    from lrstep import is_call, has_call
    def fn(name):
        bs = [b for b in facts.lib_bodies(['cfgrammar']) if b.name == name and b.path.startswith('cfgrammar::yacc::parser::YaccParser')]
        return bs[0] if len(bs) == 1 else None
    def ok_tuple(ret):
        for x in subterms(ret):
            if isinstance(x, tuple) and x and x[0] == 'variant' and x[3] == 'Ok':
                t = x[4][0]
                return t[1] if isinstance(t, tuple) and t and t[0] == 'tuple' else None
        return None
    def text_bounds(t):
        # to_string(index(src, Range(a, b)))
        t = strip_ref(t)
        if is_call(t, 'to_string') or is_call(t, 'to_owned') or is_call(t, 'from'):
            sl = strip_ref(t[2][0])
            if is_call(sl, 'index') and isinstance(sl[2][1], tuple) and sl[2][1][0] == 'variant' and sl[2][1][3] == 'Range':
                return sl[2][1][4][0], sl[2][1][4][1]
            # to_string(m.as_str()) with m = RE.find(&src[X..]) and RE anchored at the start: the text is src[X .. X + len(m.as_str())]
            if is_call(sl, 'as_str') and 'Match' in sl[1] and sl[2]:
                m = strip_ref(sl[2][0])
                while isinstance(m, tuple) and m and m[0] in ('field', 'downcast'):
                    m = m[1]
                m = strip_ref(m)
                if is_call(m, 'find') and 'Regex' in m[1] and len(m[2]) == 2:
                    rx, hay = strip_ref(m[2][0]), strip_ref(m[2][1])
                    pat = None
                    for x in subterms(rx):
                        if isinstance(x, tuple) and len(x) == 2 and x[0] == 'static':
                            import progress
                            pat = progress.Progress(facts, ['cfgrammar']).regex_of_static(x[1])
                    if pat is not None and pat.startswith(('^', '\\A')) and is_call(hay, 'index') and isinstance(hay[2][1], tuple) and hay[2][1][0] == 'variant' \
                            and hay[2][1][3] == 'RangeFrom':
                        x0 = hay[2][1][4][0]
                        return x0, ('bin', 'Add', x0, ('call', 'core::str::<impl str>::len', (t[2][0] if False else strip_ref(t[2][0]),)))
        return None
    def same(x, y):
        return (LA.lin(x) - LA.lin(y)).is_const() and (LA.lin(x) - LA.lin(y)).k == 0
    # (a)
    pn = fn('parse_name')
    if pn is None:
        res.lost(R, 'YaccParser::parse_name not found')
    else:
        n = 0
        bad = []
        for p in Walker(pn, facts, max_paths=64).run(0):
            if p.end[0] != 'return':
                continue
            tup = ok_tuple(p.end[1])
            if tup is None:
                continue
            n += 1
            tb = text_bounds(tup[1]) if len(tup) == 2 else None
            if tb is None or not same(tb[0], ('param', 2)) or not same(tb[1], tup[0]):
                bad.append('parse_name returns the cursor %s with the text %s: not exactly the source between its argument and that cursor' % (fmt_term(tup[0])[:40], fmt_term(tup[1])[:80]))
        if bad or n == 0:
            res.bad(R, 'parse_name', loc_of(pn), '; '.join(bad) or 'no successful return found')
        else:
            res.ok(R, 'parse_name', loc_of(pn), 'returns (i + E, src[i .. i + E])')
    # (b)
    pt = fn('parse_token')
    if pt is None:
        res.lost(R, 'YaccParser::parse_token not found')
    else:
        n = 0
        bad = []
        for p in Walker(pt, facts, max_paths=256).run(0):
            if p.end[0] != 'return':
                continue
            tup = ok_tuple(p.end[1])
            if tup is None or len(tup) < 3:
                continue
            n += 1
            tb = text_bounds(tup[1])
            sp = strip_ref(tup[2])
            if tb is None or not (is_call(sp, 'new') and len(sp[2]) == 2):
                bad.append('cannot read text / span of a parse_token return')
                continue
            if not same(tb[0], sp[2][0]) or not same(tb[1], sp[2][1]):
                bad.append('a token\'s text is src[%s..%s] but its span is %s..%s' % (fmt_term(tb[0])[:30], fmt_term(tb[1])[:40], fmt_term(sp[2][0])[:30], fmt_term(sp[2][1])[:40]))
        if bad or n == 0:
            res.bad(R, 'parse_token', loc_of(pt), '; '.join(sorted(set(bad))[:2]) or 'no successful return found')
        else:
            res.ok(R, 'parse_token', loc_of(pt), 'span bounds = bounds of the slice the text was copied from (%d Ok returns)' % n)
    # (c)
    nsp = 0
    badc = []
    for b in facts.lib_bodies(['cfgrammar']):
        if b.from_expansion or not b.path.startswith('cfgrammar::yacc::parser::YaccParser') or b.name in ('parse_name', 'parse_token'):
            continue
        if not (b.calls_named('parse_name') or b.calls_named('parse_token')):
            continue
        from lrstep import widening_walker, loop_assigned
        loops = b.loops()
        for sb, stt in [(bb, t) for bb, t in b.calls() if (cpath(t) or '').endswith('span::Span::new')]:
            inl = [h for h in loops if sb in loops[h]]
            start = min(inl, key=lambda h: len(loops[h])) if inl else 0
            w = widening_walker(b, facts)
            w.widen_headers = set(loops) - ({start} if inl else set())
            w.widen_assigned = {h: loop_assigned(b, h) for h in w.widen_headers}
            w.max_paths = 3000
            stopb = stt['ret']
            ps = [p for p in w.run(start, stop=lambda x: x == stopb or (bool(inl) and x not in loops[start])) if any(e[0] == 'call' and e[1] == sb for e in p.events)]
            if w.overflow:
                continue
            for p in ps:
                e = [e for e in p.events if e[0] == 'call' and e[1] == sb][0]
                a_, b_ = e[3]
                bb_ = strip_ref(b_)
                # b is .0 of the Ok payload of parse_name / parse_token (x)
                x = bb_
                while isinstance(x, tuple) and x and x[0] in ('field', 'downcast'):
                    x = x[1]
                while isinstance(x, tuple) and x and x[0] == 'call' and strip_generics(x[1]).split('::')[-1] in ('branch', 'unwrap', 'expect') and x[2]:
                    x = strip_ref(x[2][0])
                    while isinstance(x, tuple) and x and x[0] in ('field', 'downcast'):
                        x = x[1]
                if not (isinstance(x, tuple) and x and x[0] == 'call' and strip_generics(x[1]).split('::')[-1] in ('parse_name', 'parse_token')):
                    continue
                if not (isinstance(bb_, tuple) and bb_[0] == 'field' and bb_[2] == 0):
                    continue
                nsp += 1
                arg = x[2][1]
                if not same(a_, arg):
                    badc.append('%s: a span ends at the cursor returned by %s(%s) but starts at %s' % (strip_generics(b.path).split('::')[-1], strip_generics(x[1]).split('::')[-1], fmt_term(arg)[:30], fmt_term(a_)[:40]))
                break
    if badc:
        res.bad(R, 'name-spans', '', '; '.join(sorted(set(badc))[:3]))
    else:
        res.ok(R, 'name-spans', '', '%d span constructions end at the cursor a name/token parser returned and start where it was started' % nsp)
    res.floor(R, 'spans built from a name/token parser\'s cursor', nsp, 3)


# ---------------------------------------------------------------------------------------------------------------------
# R10.7 a newline the scanner moves over is counted
NL = (10, 13)
FINDERS = ('find', 'rfind', 'split_once', 'rsplit_once', 'find_map', 'position')


def newline_counter_fields(bodies):
    """fields of the parser that some loop compares with a snapshot of themselves (`self.f == f0`): the end-of-line
    detectors of the declaration loops.  Found from the comparisons, not from the field's name."""
    out = {}
    for b in bodies:
        for bb, _i, st in b.stmts():
            if st['k'] != 'assign' or st['rv'].get('bin') not in ('Eq', 'Ne'):
                continue
            fs = []
            for o in (st['rv']['a'], st['rv']['b']):
                pl = op_place(o)
                f = None
                for _ in range(6):
                    if pl is None:
                        break
                    if pl['l'] == 1 and len(pl['p']) == 2 and pl['p'][0] == 'deref' and isinstance(pl['p'][1], dict) and 'f' in pl['p'][1]:
                        f = pl['p'][1]['f']
                        break
                    if pl['p']:
                        break
                    ds = b.defs().get(pl['l'], [])
                    if len(ds) != 1 or ds[0][1] != 'stmt' or 'use' not in ds[0][2]:
                        break
                    pl = op_place(ds[0][2]['use'])
                fs.append(f)
            if fs[0] is not None and fs[0] == fs[1]:
                out.setdefault(fs[0], []).append((b, bb))
    return out


def _is_nl_pattern(b, op):
    c = op_const(op)
    if c is not None:
        return c.get('ty') == 'char' and c.get('int') in NL or (isinstance(c.get('str'), str) and any(ch in c['str'] for ch in '\n\r'))
    pl = op_place(op)
    if pl is None or pl['p']:
        return False
    for d in b.defs().get(pl['l'], []):
        if d[1] == 'stmt' and d[2].get('agg') == 'array':
            if any((op_const(o) or {}).get('int') in NL and (op_const(o) or {}).get('ty') == 'char' for o in d[2]['ops']):
                return True
        if d[1] == 'stmt' and ('use' in d[2] or 'ref' in d[2]):
            src = d[2]['use'] if 'use' in d[2] else {'copy': d[2]['ref']}
            if _is_nl_pattern(b, src):
                return True
    return False


def r107(facts, res):
    """In the functions of the .y parser, whenever the scanner has recognised a line break ('\n' or '\r') and moves its
    cursor over it, the line counter that the declaration loops use as their end-of-line signal is advanced (or the
    function fails).  A line break that is stepped over uncounted glues the next line to a `%left`/`%avoid_insert`/...
    list (seeded change C10-line-comment-newline-uncounted)."""
    R = 'R10.7'
    P = 'cfgrammar::yacc::parser::YaccParser'
    bodies = [b for b in facts.lib_bodies(['cfgrammar']) if (b.impl_of or '').startswith(P) and b.kind != 'closure']
    if not bodies:
        return res.lost(R, 'no method of YaccParser found')
    cf = newline_counter_fields(bodies)
    if len(cf) != 1:
        return res.lost(R, 'expected one field that loops compare with a snapshot of itself, found %s' % sorted(cf))
    F = list(cf)[0]
    # the counter is an end-of-line signal only between a snapshot and the comparison with it: the loops that compare,
    # and whatever they call
    cg = CallGraph(facts, ['cfgrammar'])
    entries, inloop = set(), {}
    for cb, cbb in cf[F]:
        best = None
        for h, blks in cb.loops().items():
            if cbb in blks and (best is None or len(blks) < len(best)):
                best = blks
        if best is None:
            continue
        inloop.setdefault(cb.path, set()).update(best)
        for x in best:
            t = cb.term(x)
            if t['k'] == 'call':
                c = callee_of(t)
                if c is not None:
                    entries.add(c.get('resolved') or c['path'])
    cone = cg.cone(entries)
    if not inloop:
        return res.lost(R, 'no loop compares the line counter with a snapshot of itself')
    res.count(R + ' loops that end at a line break', len(cf[F]))
    res.count(R + ' functions called from them', len(cone))
    nsites = 0
    for b in bodies:
        if b.path not in cone and b.path not in inloop:
            continue
        defs = b.defs()
        reach = b.reachable()
        cnt, errx, okx, fetch = set(), set(), set(), set()
        for bb in reach:
            for st in b.blocks[bb]['stmts']:
                if st['k'] != 'assign':
                    continue
                l = st['lhs']
                if l['l'] == 1 and len(l['p']) == 2 and l['p'][0] == 'deref' and isinstance(l['p'][1], dict) and l['p'][1].get('f') == F:
                    cnt.add(bb)
                if l['l'] == 0 and not l['p'] and isinstance(st['rv'].get('agg'), dict):
                    (errx if st['rv']['agg'].get('vname') == 'Err' else okx).add(bb)
            t = b.term(bb)
            if t['k'] == 'call':
                if t['dest']['l'] == 0 and cname(t) == 'from_residual':
                    errx.add(bb)
                if cname(t) == 'next' and 'Chars' in (t['callee'].get('self_ty') or cpath(t) or ''):
                    fetch.add(bb)
        sites = []   # (key, site bb, target bb, cursor local or None, payload local or None)
        for bb in sorted(reach):
            t = b.term(bb)
            if t['k'] == 'switch':
                ol = op_local(t['on'])
                if t.get('on_ty') == 'char':
                    tg = sorted({x for v, x in t['targets'] if v in NL})
                    for x in tg:
                        sites.append(('match', bb, x, ol, None))
                elif t.get('on_ty') == 'bool' and ol is not None:
                    for d in defs.get(ol, []):
                        if d[1] == 'stmt' and d[2].get('bin') in ('Eq', 'Ne'):
                            a, c = d[2]['a'], d[2]['b']
                            for x, y in ((a, c), (c, a)):
                                k = op_const(y)
                                if k and k.get('ty') == 'char' and k.get('int') in NL and op_local(x) is not None:
                                    z = [tb for v, tb in t['targets'] if v == 0]
                                    tgt = t['otherwise'] if d[2]['bin'] == 'Eq' else (z[0] if z else None)
                                    if tgt is not None:
                                        # `let nl = c == '\n' || c == '\r'`: this edge only records the answer in a bool that is tested
                                        # later - that later test is the site
                                        recorded = [st['lhs']['l'] for st in b.blocks[tgt]['stmts'] if st['k'] == 'assign' and not st['lhs']['p']
                                                    and b.lty(st['lhs']['l']) == 'bool' and (op_const(st['rv'].get('use', {})) or {}).get('int') == 1]
                                        later = any(b.term(x2)['k'] == 'switch' and op_local(b.term(x2)['on']) is not None
                                                    and b.root(op_local(b.term(x2)['on']), through=(), stop_named=False)[0] in recorded for x2 in reach)
                                        if recorded and later:
                                            for x2 in sorted(reach):
                                                t2 = b.term(x2)
                                                if t2['k'] == 'switch' and op_local(t2['on']) is not None and b.root(op_local(t2['on']), through=(), stop_named=False)[0] in recorded:
                                                    s2 = (('cmp', x2, t2['otherwise'], op_local(x), None))
                                                    if s2 not in sites:
                                                        sites.append(s2)
                                            continue
                                        sites.append(('cmp', bb, tgt, op_local(x), None))
            elif t['k'] == 'call' and cname(t) in FINDERS and len(t['args']) >= 2 and 'str' in (t['callee'].get('self_ty') or ''):
                if not _is_nl_pattern(b, t['args'][1]) or t['ret'] is None:
                    continue
                # the Some branch of the result
                r, dl = t['ret'], t['dest']['l']
                sw = b.term(r)
                some = None
                if sw['k'] == 'switch':
                    for st in b.blocks[r]['stmts']:
                        if st['k'] == 'assign' and 'discr' in st['rv'] and st['rv']['discr']['l'] == dl and st['lhs']['l'] == op_local(sw['on']):
                            z = [tb for v, tb in sw['targets'] if v == 1]
                            some = z[0] if z else sw['otherwise']
                if some is None:
                    res.note('R10.7: the result of %s(line-break pattern) at %s is not matched directly; site not decided' % (cname(t), loc_of(b, bb)))
                    continue
                sites.append(('find', bb, some, None, dl))
        if b.path not in cone:
            sites = [x for x in sites if x[1] in inloop[b.path]]
        for kind, sb, tb, cl, payload in sites:
            nsites += 1
            key = '%s/%s@L%d' % (b.name, kind, sorted(x for x in sites if x[0] == kind).index((kind, sb, tb, cl, payload)))
            cursor = None
            pre = False
            if kind != 'find':
                # the cursor the character was fetched at: c = unwrap(next(&mut chars(index(src, X..))))
                cursor, fb = _fetch_cursor(b, cl)
                if cursor is None:
                    pre = True      # an iterator walks on by itself: the character is behind the cursor
                else:
                    back = {sb}
                    todo = [sb]
                    while todo:
                        x = todo.pop()
                        if x == fb:
                            continue
                        for p_ in b.preds(x):
                            if p_ not in back:
                                back.add(p_)
                                todo.append(p_)
                    region = back & b.reachable(starts=(fb,))
                    pre = any(_assigns(b, x, cursor) for x in region if x != fb) or False
            # walk
            bad = None
            seen = set()
            D0 = frozenset([payload]) if payload is not None else frozenset()
            todo = [(tb, pre, D0)]
            while todo and bad is None:
                x, cons, D = todo.pop()
                if (x, cons, D) in seen or len(seen) > 4000:
                    continue
                seen.add((x, cons, D))
                if x in errx:
                    continue
                if kind == 'find':
                    cons, D = _payload_flow(b, x, cons, D)
                if x in cnt:
                    continue
                if cursor is not None and _assigns(b, x, cursor):
                    cons = True
                if x in okx or x in fetch:
                    if cons:
                        bad = x
                    continue
                for s_ in b.succs(x):
                    todo.append((s_, cons, D))
            where = loc_of(b, sb)
            if bad is not None:
                res.bad(R, key, where, 'a line break recognised here is stepped over and the scan goes on (line %s) without advancing the line '
                        'counter (field %d of the parser) that the declaration loops use to find the end of their line' % (b.blocks[bad]['term'].get('line'), F))
            else:
                res.ok(R, key, where, 'every path from this recognised line break counts it, fails, or leaves the cursor on it')
    res.floor(R, 'line-break recognition sites', nsites, 3)


def _assigns(b, bb, l):
    for st in b.blocks[bb]['stmts']:
        if st['k'] == 'assign' and st['lhs']['l'] == l and not st['lhs']['p']:
            return True
    t = b.term(bb)
    return t['k'] == 'call' and t['dest']['l'] == l and not t['dest']['p']


def _payload_flow(b, bb, cons, D):
    """a position past the found line break is computed: payload + ... + (non-zero constant | len_utf8())"""
    D = set(D)
    for st in b.blocks[bb]['stmts']:
        if st['k'] != 'assign' or st['lhs']['p']:
            continue
        rv, dst = st['rv'], st['lhs']['l']
        if 'use' in rv:
            pl = op_place(rv['use'])
            if pl and pl['l'] in D:
                D.add(dst)
        elif rv.get('bin') in ('Add', 'AddWithOverflow', 'AddUnchecked'):
            la, lb = op_local(rv['a']), op_local(rv['b'])
            for x, y, oy in ((la, lb, rv['b']), (lb, la, rv['a'])):
                if x in D:
                    k = op_const(oy)
                    if k is not None and k.get('int') not in (None, 0):
                        cons = True
                    elif y is not None and any(d[1] == 'call' and cname(d[2]) in ('len_utf8', 'len') for d in b.defs().get(y, [])):
                        cons = True
                    D.add(dst)
    return cons, frozenset(D)


def _fetch_cursor(b, cl):
    """(cursor local, fetch block) of c = unwrap(Chars::next(&mut str::chars(&src[X..]))) or (None, None)"""
    defs = b.defs()

    def one(l, want):
        ds = defs.get(l, [])
        if len(ds) != 1:
            return None
        return ds[0] if ds[0][1] == want else None
    l = cl
    for _ in range(4):      # copies of the character
        d = one(l, 'stmt')
        if d is None or 'use' not in d[2]:
            break
        pl = op_place(d[2]['use'])
        if pl is None or pl['p']:
            break
        l = pl['l']
    d = one(l, 'call')
    if d is None or cname(d[2]) not in ('unwrap', 'expect', 'unwrap_unchecked'):
        return None, None
    r, _p, _v = b.op_root(d[2]['args'][0], through=())
    d = one(r, 'call')
    if d is None or cname(d[2]) != 'next':
        return None, None
    fb = d[0]
    r, _p, _v = b.op_root(d[2]['args'][0], through=())
    d = one(r, 'call')
    if d is None or cname(d[2]) != 'chars':
        return None, None
    r, _p, _v = b.op_root(d[2]['args'][0], through=())
    d = one(r, 'call')
    if d is None or cname(d[2]) != 'index' or len(d[2]['args']) < 2:
        return None, None
    rl = op_local(d[2]['args'][1])
    d = one(rl, 'stmt') if rl is not None else None
    for _ in range(3):
        if d is not None and 'use' in d[2] and op_local(d[2]['use']) is not None:
            d = one(op_local(d[2]['use']), 'stmt')
    if d is None or not isinstance(d[2].get('agg'), dict) or d[2]['agg'].get('vname') != 'RangeFrom':
        return None, None
    x, _p, _v = b.op_root(d[2]['ops'][0], through=())
    if _p or x is None:
        return None, None
    return x, fb


# ---------------------------------------------------------------------------------------------------------------------
# R10.8 `*/` ends a comment only when the `/` follows a `*`
def _char_tested_against(b, cl, value):
    """is the char local `cl` (or a copy of it) compared with `value` by a switch or an == test?"""
    alias = {cl}
    for _ in range(3):
        for l, ds in b.defs().items():
            for d in ds:
                if d[1] == 'stmt' and 'use' in d[2] and op_local(d[2]['use']) in alias and not (op_place(d[2]['use']) or {}).get('p'):
                    alias.add(l)
    for bb in b.reachable():
        t = b.term(bb)
        if t['k'] == 'switch' and t.get('on_ty') == 'char' and op_local(t['on']) in alias and any(v == value for v, _ in t['targets']):
            return True
        for st in b.blocks[bb]['stmts']:
            if st['k'] == 'assign' and st['rv'].get('bin') in ('Eq', 'Ne'):
                for x, y in ((st['rv']['a'], st['rv']['b']), (st['rv']['b'], st['rv']['a'])):
                    k = op_const(y)
                    if k and k.get('ty') == 'char' and k.get('int') == value and op_local(x) in alias:
                        return True
    return False


def r108(facts, res):
    """Inside a /* */ comment the scanner looks at what FOLLOWS the current character, to see whether it is the `/` that
    closes the comment.  That look-ahead may be reached only from the arm that has just seen `*`: reached from any other arm
    (a line break that falls through to the same test), `<that character>/` closes the comment too and the rest of the
    comment is parsed as grammar text."""
    R = 'R10.8'
    P = 'cfgrammar::yacc::parser::YaccParser'
    n = 0
    for b in facts.lib_bodies(['cfgrammar']):
        if not (b.impl_of or '').startswith(P) or b.kind == 'closure':
            continue
        loops = b.loops()
        if not loops:
            continue
        defs = b.defs()
        # (block, char local) of character fetches; (block) of `starts_with('/')` tests
        fetched = {}
        for bb, t in b.calls_named('next'):
            if 'Chars' not in ((callee_of(t).get('self_ty') or '') + (cpath(t) or '')):
                continue
            for ub, ut in b.calls(lambda x: cname(x) in ('unwrap', 'expect')):
                if ut['args'] and b.op_root(ut['args'][0], through=())[0] == t['dest']['l']:
                    fetched[bb] = ut['dest']['l']
        slash_tests = [fb for fb, cl in fetched.items() if _char_tested_against(b, cl, 47)]
        for bb, t in b.calls_named('starts_with'):
            if len(t['args']) > 1:
                k = op_const(t['args'][1])
                if k is None:
                    r_ = b.op_root(t['args'][1], through=())[0]
                    for d in defs.get(r_, []) if r_ is not None else []:
                        if d[1] == 'stmt' and 'use' in d[2]:
                            k = op_const(d[2]['use']) or k
                if k and ((k.get('ty') == 'char' and k.get('int') == 47) or k.get('str') == '/'):
                    slash_tests.append(bb)
        if not slash_tests:
            continue
        # edges taken only after seeing '*'
        stars = []
        for sb in sorted(b.reachable()):
            t = b.term(sb)
            if t['k'] != 'switch':
                continue
            if t.get('on_ty') == 'char':
                tg = {x for v, x in t['targets'] if v == 42}
                for x in tg:
                    if x != t['otherwise'] and all(v == 42 for v, y in t['targets'] if y == x):
                        stars.append((sb, x))
            elif t.get('on_ty') == 'bool':
                ol = op_local(t['on'])
                for d in defs.get(ol, []) if ol is not None else []:
                    if d[1] == 'stmt' and d[2].get('bin') in ('Eq', 'Ne'):
                        for x, y in ((d[2]['a'], d[2]['b']), (d[2]['b'], d[2]['a'])):
                            k = op_const(y)
                            if k and k.get('ty') == 'char' and k.get('int') == 42:
                                z = [tb for v, tb in t['targets'] if v == 0]
                                tgt = t['otherwise'] if d[2]['bin'] == 'Eq' else (z[0] if z else None)
                                if tgt is not None:
                                    stars.append((sb, tgt))
        for sb, tgt in stars:
            inl = [h for h in loops if sb in loops[h]]
            if not inl:
                continue
            h = min(inl, key=lambda x: len(loops[x]))
            for fb in sorted(set(slash_tests)):
                if fb not in loops[h] or fb not in b.reachable(starts=b.succs(sb), avoid={h}):
                    continue
                n += 1
                key = '%s/star-slash@L%d' % (b.name, n - 1)
                if b.dominates(tgt, fb) or tgt == fb:
                    res.ok(R, key, loc_of(b, sb), 'the closing `/` is looked for only after a `*`')
                else:
                    # which other characters get there?
                    t = b.term(sb)
                    other = []
                    if t.get('on_ty') == 'char':
                        edges = {}
                        for v, x in t['targets']:
                            edges.setdefault(x, []).append(v)
                        edges.setdefault(t['otherwise'], []).append(None)
                        for x, vals in edges.items():
                            if x != tgt and x != h and (x == fb or fb in b.reachable(starts=(x,), avoid={h})):
                                other += vals
                    def show(v):
                        return 'any other character' if v is None else repr(chr(v))
                    res.bad(R, key, loc_of(b, sb), 'the test "does the `/` that closes the comment follow" (line %s) is also reached without having seen `*`%s: '
                            'that character followed by `/` ends the comment' % (b.blocks[fb]['term'].get('line'), (' (after %s)' % ', '.join(show(v) for v in other)) if other else ''))
    res.floor(R, 'block-comment terminators', n, 1)


# ---------------------------------------------------------------------------------------------------------------------
# R10.9 a string assembled chunk by chunk only grows
def r109(facts, res):
    """parse_string copies the text of a quoted string in chunks (one per escape).  The String it returns is only ever
    appended to inside the scan loop; an assignment to it there throws away the chunks copied before the escape at hand, which
    shows from the second escape on."""
    R = 'R10.9'
    P = 'cfgrammar::yacc::parser::YaccParser'
    bs = [b for b in facts.lib_bodies(['cfgrammar']) if (b.impl_of or '').startswith(P) and b.name == 'parse_string' and b.kind != 'closure']
    if len(bs) != 1:
        return res.lost(R, 'YaccParser::parse_string not found')
    b = bs[0]
    loops = b.loops()
    accs = [l for l, ty in enumerate(b.locals) if ty['ty'] == 'alloc::string::String' and b.name_of(l) and l > b.arg_count
            and any(cname(t) in ('push_str', 'push') and t['args'] and b.op_root(t['args'][0])[0] == l for bb, t in b.calls())]
    if not accs or not loops:
        return res.lost(R, 'no String is assembled by appending in parse_string')
    n = 0
    for acc in accs:
        n += 1
        bad = []
        napp = 0
        for bb, t in b.calls():
            if not t['args'] or op_local(t['args'][0]) is None or not any(bb in loops[h] for h in loops):
                continue
            if b.op_root(t['args'][0])[0] != acc or not b.lty(op_local(t['args'][0])).startswith('&mut '):
                continue
            if cname(t) in ('push_str', 'push', 'extend', 'write_str', 'write_fmt', 'reserve', 'deref_mut', 'as_mut_str'):
                napp += cname(t) in ('push_str', 'push', 'extend', 'write_str', 'write_fmt')
            else:
                bad.append('line %s: `%s` on the string being assembled' % (t.get('line'), cname(t)))
        for bb, _i, st in b.stmts():
            if st['k'] == 'assign' and st['lhs']['l'] == acc and not st['lhs']['p'] and any(bb in loops[h] for h in loops):
                bad.append('line %s: the string being assembled is assigned anew inside the scan loop: the chunks copied before this escape are dropped' % st.get('line'))
        for bb in b.reachable():
            t = b.term(bb)
            if t['k'] == 'call' and t['dest']['l'] == acc and not t['dest']['p'] and any(bb in loops[h] for h in loops):
                bad.append('line %s: the string being assembled is assigned the result of `%s` inside the scan loop: the chunks copied before this escape are dropped' % (t.get('line'), cname(t)))
        key = 'chunks-appended:%s' % (b.name_of(acc) or acc)
        if bad:
            res.bad(R, key, loc_of(b), '; '.join(sorted(set(bad))[:2]))
        else:
            res.ok(R, key, loc_of(b), 'inside the scan loop the string is only appended to (%d append sites)' % napp)
    res.floor(R, 'strings assembled in parse_string', n, 1)


# ---------------------------------------------------------------------------------------------------------------------
# R10.10 a quoted token ends at its own kind of quote
def r1010(facts, res):
    """'..' and ".." are two spellings of a token; each ends at the quote character it began with, so that the other one may occur
    inside it ("don't").  In the token regex no character class mixes the two quote characters: a class such as ["'] used as a
    delimiter lets a token that began with one kind end at the other."""
    R = 'R10.10'
    import progress
    P = progress.Progress(facts, ['cfgrammar'])
    n = 0
    for st in sorted(facts.statics):
        if not st.startswith('cfgrammar::yacc::parser::RE_'):
            continue
        pat = P.regex_of_static(st)
        if pat is None or ('"' not in pat and "'" not in pat):
            continue
        n += 1
        key = 'quote-classes:' + st.rsplit('::', 1)[-1]
        bad = None
        i = 0
        while i < len(pat):
            if pat[i] == '\\':
                i += 2
                continue
            if pat[i] == '[':
                j = i + 1
                if j < len(pat) and pat[j] == '^':
                    j += 1
                if j < len(pat) and pat[j] == ']':
                    j += 1
                while j < len(pat) and pat[j] != ']':
                    j += 2 if pat[j] == '\\' else 1
                cls = pat[i:j + 1]
                if '"' in cls and "'" in cls and not cls.startswith('[^'):
                    bad = cls
                i = j + 1
                continue
            i += 1
        if bad:
            res.bad(R, key, '', 'the character class %s in `%s` accepts either quote character where one particular quote is meant: a token that began with one '
                    'kind of quote ends at the first quote of the other kind (\\"don\'t\\" is cut after `don`)' % (bad, pat))
        else:
            res.ok(R, key, '', 'no character class of `%s` mixes the two quote characters' % pat[:70])
    res.floor(R, 'token regexes with quote characters', n, 1)


def r1011(facts, res):
    """A production's span ends where its last element ends.  In YaccParser::parse_rule the end is kept in an Option<usize> that
    every branch of the symbol loop updates.  Decided: on every pass of the loop that consumed a token (parse_token was called)
    the value left in that cell is Some(end position returned by the LAST parse_token call of the pass) - not the end of a
    keyword in front of it (`%prec`), not an older position, not nothing."""
    R = 'R10.11'
    from lrstep import widening_walker
    bs = [b for b in facts.lib_bodies(['cfgrammar']) if b.name == 'parse_rule' and b.kind != 'closure' and 'yacc::parser::YaccParser' in b.path]
    if len(bs) != 1:
        return res.lost(R, 'YaccParser::parse_rule not found (%d)' % len(bs))
    b = bs[0]
    cells = set()
    for bb, t in b.calls_named('take'):
        if 'option::Option' not in (callee_of(t).get('path') or ''):
            continue
        l = op_local(t['args'][0]) if t['args'] else None
        if l is None:
            continue
        root = b.root(l, stop_named=False)[0]
        if 'Option<usize>' in b.lty(root):
            cells.add(root)
    if len(cells) != 1:
        return res.lost(R, 'parse_rule: the production-end cell (an Option<usize> that is `take`n for Span::new) not recognised (%d candidates)' % len(cells))
    E = list(cells)[0]
    w = widening_walker(b, facts, max_paths=40000)
    ps = w.run(0)
    if w.overflow:
        return res.lost(R, 'path bound exceeded in parse_rule')
    n, bad = 0, {}
    for p in ps:
        pts = p.calls(name='parse_token')
        if not pts or p.end[0] != 'loop':
            continue
        n += 1
        last = pts[-1]
        v = p.env.get((E, ()))
        line = b.term(last[1]).get('line')
        if not (isinstance(v, tuple) and v and v[0] == 'variant' and v[3] == 'Some'):
            bad.setdefault(line, 'the pass that consumed the token at line %s leaves the production end as it was' % line)
        elif not term_has(v[4][0], lambda y: y == last[5]):
            bad.setdefault(line, 'after the token consumed at line %s the production end is set to %s, not to the end of that token' % (line, fmt_term(v[4][0])[:90]))
    key = 'prod-end-after-token'
    if bad:
        res.bad(R, key, loc_of(b), '; '.join(v for k, v in sorted(bad.items()))[:400] + ': the production span no longer covers the text that defines the production', {'function': b.path})
    else:
        res.ok(R, key, loc_of(b), 'on each of the %d loop passes that consume a token the production end becomes the end of the last token consumed' % n)
    res.floor(R, 'loop passes of parse_rule that consume a token', n, 3)


def r1012(facts, res):
    """Inside a /* */ comment every character is looked at as a possible `*` of the closing `*/`.  The scanner fetches one
    character per pass and peeks at the next one after a `*`; when the peeked character is not `/` it must be LEFT for the
    next pass (it may itself be the `*` that closes the comment: `/** x **/`).  Decided on the path table of parse_ws: on every
    pass of the comment loop that returns to the loop head, the cursor has advanced by the length of at most ONE fetched
    character."""
    R = 'R10.12'
    from lrstep import widening_walker, loop_assigned, is_call
    from linarith import lin
    bs = [b for b in facts.lib_bodies(['cfgrammar']) if b.name == 'parse_ws' and b.kind != 'closure' and 'yacc::parser::YaccParser' in b.path]
    if len(bs) != 1:
        return res.lost(R, 'YaccParser::parse_ws not found (%d)' % len(bs))
    b = bs[0]
    loops = b.loops()
    fetched = {}
    for bb, t in b.calls_named('next'):
        if 'Chars' not in ((callee_of(t).get('self_ty') or '') + (cpath(t) or '')):
            continue
        for ub, ut in b.calls(lambda x: cname(x) in ('unwrap', 'expect')):
            if ut['args'] and b.op_root(ut['args'][0], through=())[0] == t['dest']['l']:
                fetched[bb] = ut['dest']['l']
    slash = [fb for fb, cl in fetched.items() if _char_tested_against(b, cl, 47)]
    heads = set()
    for sb in slash:
        hs = [h for h, body in loops.items() if sb in body]
        if len(hs) >= 2:     # a scan loop nested in the white-space loop
            heads.add(min(hs, key=lambda h: len(loops[h])))
    if not heads:
        return res.ok(R, 'one-character-per-pass', loc_of(b), 'no nested scan loop looks for `/` after a fetched character here: not analysed (no instance)')
    w = widening_walker(b, facts, max_paths=20000)
    ps = w.run(0)
    if w.overflow:
        return res.lost(R, 'path bound exceeded in parse_ws')
    n, bad = 0, []
    for H in sorted(heads):
        cursors = [l for l in loop_assigned(b, H) if b.lty(l) == 'usize' and b.name_of(l)]
        for p in ps:
            if p.end[0] != 'loop' or p.end[1] != H:
                continue
            for l in cursors:
                v = p.env.get((l, ()))
                if v is None:
                    continue
                d = lin(v)
                base = [a for a, c in d.c.items() if isinstance(a, tuple) and a and a[0] == 'widen' and len(a) > 3 and a[2] == H and a[3] == l and c == 1]
                if len(base) != 1:
                    continue
                n += 1
                adv = sum(c for a, c in d.c.items() if a is not base[0] and is_call(a, 'len_utf8')) + d.k
                other = [a for a, c in d.c.items() if a is not base[0] and not is_call(a, 'len_utf8')]
                if adv >= 2 and not other:
                    bad.append('on a pass of the scan loop (header bb%d) `%s` advances by the length of %d characters' % (H, b.name_of(l), adv))
    key = 'one-character-per-pass'
    if bad:
        res.bad(R, key, loc_of(b, min(heads)), '; '.join(sorted(set(bad))[:2]) + ': a character that was only peeked at is skipped, so a `*` right after a `*` is never tried as the start of `*/`', {'function': b.path})
    elif n:
        res.ok(R, key, loc_of(b, min(heads)), 'on each of the %d passes that return to the head of the comment loop the cursor advances by at most one fetched character' % n)
    else:
        res.ok(R, key, loc_of(b), 'the comment loop keeps no cursor of the recognised form (a named usize advanced by len_utf8): not analysed')


def run(facts, res):
    r107(facts, res)
    r1012(facts, res)
    r1011(facts, res)
    r1010(facts, res)
    r109(facts, res)
    r108(facts, res)
    r105(facts, res)
    r106(facts, res)
    r101(facts, res)
    r102(facts, res)
    r104(facts, res)
