"""mirlib: loading of grmfacts output + reusable analyses (DESIGN.md §3, A1-A4).

Everything here works on the MIR exported by the driver (resolved callees, structured places);
nothing looks at source text or line numbers (lines are carried for reports only)."""
import glob
import json
import os
import re
from harness_util import loc_of


class AnchorLost(Exception):
    def __init__(self, rule, msg):
        Exception.__init__(self, msg)
        self.rule = rule


# ------------------------------------------------------------------------------------------------
# places / operands


def pkey(place):
    """hashable key of a place: (local, (proj, ...))"""
    return (place['l'], tuple(projkey(p) for p in place['p']))


def projkey(p):
    if p == 'deref':
        return ('deref',)
    if 'f' in p:
        return ('f', p['f'], p.get('name'))
    if 'downcast' in p:
        return ('dc', p['downcast'], p.get('name'))
    if 'index' in p:
        return ('idx', p['index'])
    if 'cidx' in p:
        return ('cidx', p['cidx'], p.get('from_end', False))
    if 'sub' in p:
        return ('sub', tuple(p['sub']), p.get('from_end', False))
    return ('other', json.dumps(p, sort_keys=True))


def op_place(op):
    if 'copy' in op:
        return op['copy']
    if 'move' in op:
        return op['move']
    return None


def op_local(op):
    """local number if the operand is a bare local (no projection)"""
    p = op_place(op)
    if p is not None and not p['p']:
        return p['l']
    return None


def op_const(op):
    return op.get('const')


def callee_of(term):
    if term.get('k') != 'call':
        return None
    c = term['callee']
    if 'indirect' in c:
        return None
    return c


def cpath(term):
    """most specific def-path of a call terminator's callee (resolved impl method if known)"""
    c = callee_of(term)
    if c is None:
        return None
    return c.get('resolved') or c['path']


def cname(term):
    c = callee_of(term)
    return c['name'] if c else None


def strip_generics(path):
    """remove <...> groups (generic arguments) from a def path, keeping `<impl ..>` segments' text out"""
    out, depth = [], 0
    for ch in path:
        if ch == '<':
            depth += 1
        elif ch == '>':
            depth -= 1
        elif depth == 0:
            out.append(ch)
    s = ''.join(out)
    while '::::' in s:
        s = s.replace('::::', '::')
    return s


def signed(v, ty):
    bits = {'i8': 8, 'i16': 16, 'i32': 32, 'i64': 64, 'i128': 128, 'isize': 64}.get(ty)
    if bits and v >= (1 << (bits - 1)):
        return v - (1 << bits)
    return v


# ------------------------------------------------------------------------------------------------
# bodies


class Body:
    def __init__(self, d, crate):
        self.d = d
        self.crate = crate
        self.path = d['path']
        self.name = d['name']
        self.kind = d['kind']
        self.file = d['file']
        self.lo = d['lo']
        self.hi = d['hi']
        self.blocks = d['blocks']
        self.locals = d['locals']
        self.arg_count = d['arg_count']
        self.parent = d.get('parent')
        self.root_parent = d.get('root_parent')
        self.impl_of = d.get('impl_of')
        self.trait = d.get('trait')
        self.from_expansion = d.get('from_expansion', False)
        self._succ = None
        self._pred = None
        self._dom = None
        self._names = None

    def __repr__(self):
        return '<Body %s>' % self.path

    # ---- names
    def local_names(self):
        if self._names is None:
            m = {}
            for e in self.d.get('debug', []):
                p = e['place']
                if not p['p']:
                    m.setdefault(p['l'], e['name'])
            self._names = m
        return self._names

    def name_of(self, l):
        return self.local_names().get(l)

    def locals_named(self, name):
        return [l for l, n in self.local_names().items() if n == name]

    def upvars(self):
        """closure: field index of the environment -> captured variable name"""
        m = {}
        for e in self.d.get('debug', []):
            p = e['place']
            if p['l'] == 1 and p['p']:
                for pr in p['p']:
                    if isinstance(pr, dict) and 'f' in pr:
                        m.setdefault(pr['f'], e['name'])
                        break
        return m

    def lty(self, l):
        return self.locals[l]['ty']

    def drop_flags(self):
        """bool locals that are only ever assigned constants (compiler-introduced drop flags)"""
        if getattr(self, '_dflags', None) is None:
            cand = {i for i, l in enumerate(self.locals) if l['ty'] == 'bool' and i > self.arg_count and not self.name_of(i)}
            for b in range(len(self.blocks)):
                for st in self.blocks[b]['stmts']:
                    if st['k'] == 'assign' and st['lhs']['l'] in cand:
                        rv = st['rv']
                        if st['lhs']['p'] or not ('use' in rv and 'const' in rv['use']):
                            cand.discard(st['lhs']['l'])
                t = self.blocks[b]['term']
                if t['k'] == 'call' and t['dest']['l'] in cand:
                    cand.discard(t['dest']['l'])
            self._dflags = cand
        return self._dflags

    # ---- def/use
    def defs(self):
        """local -> [(bb, 'stmt'|'call', rvalue-or-terminator)] for whole-local definitions"""
        if getattr(self, '_defs', None) is None:
            d = {}
            for b in range(len(self.blocks)):
                if self.blocks[b].get('cleanup'):
                    continue
                for st in self.blocks[b]['stmts']:
                    if st['k'] == 'assign' and not st['lhs']['p']:
                        d.setdefault(st['lhs']['l'], []).append((b, 'stmt', st['rv']))
                t = self.blocks[b]['term']
                if t['k'] == 'call' and not t['dest']['p']:
                    d.setdefault(t['dest']['l'], []).append((b, 'call', t))
            self._defs = d
        return self._defs

    THROUGH = ('deref', 'deref_mut', 'as_ref', 'as_mut', 'borrow', 'borrow_mut', 'as_slice', 'as_mut_slice',
               'as_path', 'as_str', 'clone', 'into_iter', 'iter', 'iter_mut', 'by_ref')

    def root(self, l, through=None, stop_named=True, maxsteps=40):
        """follow single-definition temporaries back to the local they were copied/borrowed/derefed from.
        returns (root_local, projections-met (list of proj lists), callee names passed through)"""
        through = self.THROUGH if through is None else through
        projs, via = [], []
        for _ in range(maxsteps):
            if stop_named and self.name_of(l) and l > self.arg_count:
                break
            ds = self.defs().get(l, [])
            if len(ds) != 1:
                break
            b, kind, x = ds[0]
            if kind == 'stmt':
                pl = None
                if 'use' in x:
                    pl = op_place(x['use'])
                elif 'ref' in x:
                    pl = x['ref']
                elif 'rawptr' in x:
                    pl = x['rawptr']
                elif 'cast' in x:
                    pl = op_place(x['a'])
                elif 'agg' in x and len(x['ops']) == 1 and isinstance(x['agg'], dict) and 'adt' in x['agg']:
                    pl = op_place(x['ops'][0])  # single-field wrapper (newtype / Some(..))
                if pl is None:
                    break
                if pl['p']:
                    projs.append(pl['p'])
                l = pl['l']
                continue
            else:
                nm = cname(x)
                if nm in through and x['args']:
                    pl = op_place(x['args'][0])
                    if pl is None:
                        break
                    via.append(nm)
                    if pl['p']:
                        projs.append(pl['p'])
                    l = pl['l']
                    continue
                break
        return l, projs, via

    def op_root(self, op, **kw):
        pl = op_place(op)
        if pl is None:
            return None, [], []
        r, projs, via = self.root(pl['l'], **kw)
        if pl['p']:
            projs = [pl['p']] + projs
        return r, projs, via

    # ---- CFG (normal edges only: unwind edges and cleanup blocks are ignored)
    def term(self, bb):
        return self.blocks[bb]['term']

    def succs(self, bb):
        if self._succ is None:
            self._succ = [self._succs_of(i) for i in range(len(self.blocks))]
        return self._succ[bb]

    def _succs_of(self, bb):
        t = self.blocks[bb]['term']
        k = t['k']
        if k == 'goto':
            return [t['bb']]
        if k == 'switch':
            out = []
            for _v, b in t['targets']:
                if b not in out:
                    out.append(b)
            if t['otherwise'] not in out:
                out.append(t['otherwise'])
            return out
        if k == 'call':
            return [t['ret']] if t['ret'] is not None else []
        if k == 'assert':
            return [t['ok']]
        if k == 'drop':
            return [t['ret']]
        return []

    def preds(self, bb):
        if self._pred is None:
            self._pred = [[] for _ in self.blocks]
            for i in range(len(self.blocks)):
                if self.blocks[i].get('cleanup'):
                    continue
                for s in self.succs(i):
                    self._pred[s].append(i)
        return self._pred[bb]

    def reachable(self, starts=(0,), avoid=(), stop=None):
        """blocks reachable from `starts` along normal edges without entering a block in `avoid`
        (start blocks themselves are included even if in avoid is false)."""
        avoid = set(avoid)
        seen = set()
        todo = [s for s in starts if s not in avoid]
        while todo:
            b = todo.pop()
            if b in seen:
                continue
            seen.add(b)
            if stop is not None and stop(b):
                continue
            for s in self.succs(b):
                if s not in seen and s not in avoid:
                    todo.append(s)
        return seen

    def reachable_after(self, bb, avoid=()):
        """blocks reachable strictly after the terminator of bb"""
        return self.reachable(self.succs(bb), avoid=avoid)

    def dominators(self):
        """dom[b] = set of blocks dominating b (reachable blocks only)"""
        if self._dom is None:
            reach = self.reachable()
            order = self.rpo()
            dom = {b: set(reach) for b in reach}
            dom[0] = {0}
            changed = True
            while changed:
                changed = False
                for b in order:
                    if b == 0:
                        continue
                    ps = [p for p in self.preds(b) if p in reach]
                    if not ps:
                        continue
                    new = set.intersection(*[dom[p] for p in ps]) | {b}
                    if new != dom[b]:
                        dom[b] = new
                        changed = True
            self._dom = dom
        return self._dom

    def dominates(self, a, b):
        d = self.dominators()
        return b in d and a in d[b]

    def postdominators(self):
        """pdom[b] = blocks every way from b to a `return` passes through (b included); only blocks that can reach a return are
        keys - ways that end in a panic do not count, as everywhere in this engine"""
        if getattr(self, '_pdom', None) is None:
            reach = self.reachable()
            rets = [x for x in reach if self.term(x)['k'] == 'return']
            live = set()
            todo = list(rets)
            while todo:
                x = todo.pop()
                if x in live:
                    continue
                live.add(x)
                todo.extend(p for p in self.preds(x) if p in reach)
            pdom = {x: set(live) for x in live}
            for r in rets:
                pdom[r] = {r}
            changed = True
            while changed:
                changed = False
                for x in live:
                    if x in rets:
                        continue
                    ss = [y for y in self.succs(x) if y in live]
                    if not ss:
                        continue
                    new = set.intersection(*[pdom[y] for y in ss]) | {x}
                    if new != pdom[x]:
                        pdom[x] = new
                        changed = True
            self._pdom = pdom
        return self._pdom

    def control_equivalent(self, a, b):
        """a and b run the same number of times: one dominates the other and is post-dominated by it"""
        pd = self.postdominators()
        if a == b:
            return True
        if self.dominates(a, b) and a in pd and b in pd[a]:
            return True
        return self.dominates(b, a) and b in pd and a in pd[b]

    def rpo(self):
        seen, order = set(), []
        stack = [(0, iter(self.succs(0)))]
        seen.add(0)
        while stack:
            b, it = stack[-1]
            adv = False
            for s in it:
                if s not in seen:
                    seen.add(s)
                    stack.append((s, iter(self.succs(s))))
                    adv = True
                    break
            if not adv:
                order.append(b)
                stack.pop()
        order.reverse()
        return order

    def back_edges(self):
        dom = self.dominators()
        out = []
        for b in dom:
            for s in self.succs(b):
                if s in dom[b]:
                    out.append((b, s))
        return out

    def loops(self):
        """natural loops: {header: set(body blocks)} (loops sharing a header are merged)"""
        loops = {}
        for (u, h) in self.back_edges():
            body = {h}
            todo = [u]
            while todo:
                x = todo.pop()
                if x in body:
                    continue
                body.add(x)
                todo.extend(self.preds(x))
            loops.setdefault(h, set()).update(body)
        return loops

    def exits(self):
        """blocks ending the function normally (return) and abnormally (diverging call/unreachable)"""
        rets, divs = [], []
        for b in self.reachable():
            t = self.term(b)
            if t['k'] == 'return':
                rets.append(b)
            elif t['k'] == 'call' and t['ret'] is None:
                divs.append(b)
        return rets, divs

    # ---- queries
    def calls(self, pred=None, blocks=None):
        """[(bb, term)] for call terminators in reachable non-cleanup blocks"""
        out = []
        rs = self.reachable() if blocks is None else blocks
        for b in sorted(rs):
            t = self.term(b)
            if t['k'] == 'call' and (pred is None or pred(t)):
                out.append((b, t))
        return out

    def calls_named(self, name, blocks=None):
        return self.calls(lambda t: cname(t) == name, blocks)

    def calls_to(self, regex, blocks=None):
        r = re.compile(regex)
        return self.calls(lambda t: cpath(t) is not None and r.search(cpath(t)) is not None, blocks)

    def stmts(self, blocks=None):
        rs = self.reachable() if blocks is None else blocks
        for b in sorted(rs):
            for i, s in enumerate(self.blocks[b]['stmts']):
                yield b, i, s

    def control_deps(self, bb):
        """switch blocks on which `bb` is control dependent, computed by reachability:
        S is a controlling switch of bb if some successor of S can avoid bb and another cannot reach
        an exit without passing bb... simplified: successors differ in whether they reach bb."""
        out = []
        for s in self.reachable():
            t = self.term(s)
            if t['k'] != 'switch':
                continue
            succ = self.succs(s)
            flags = [bb in self.reachable([x]) for x in succ]
            if any(flags) and not all(flags):
                out.append(s)
        return out


    def control_deps_pd(self, bb):
        """switch blocks on which `bb` is control dependent in the classical sense (also inside loops): bb post-dominates one
        successor of S but not S itself"""
        pd = self.postdominators()
        out = []
        for s in self.reachable():
            t = self.term(s)
            if t['k'] != 'switch' or s not in pd or bb in (pd[s] - {s}):
                continue
            if any(x in pd and bb in pd[x] for x in self.succs(s)):
                out.append(s)
        return out

# ------------------------------------------------------------------------------------------------
# facts


class Facts:
    def __init__(self, fdir):
        self.fdir = fdir
        self.crates = {}  # (name, kind) -> data
        self.bodies = {}  # path -> Body
        self.by_name = {}
        self.adts = {}
        self.impls = []
        self.statics = {}
        files = sorted(glob.glob(os.path.join(fdir, '*.json')))
        chosen = {}
        for f in files:
            base = os.path.basename(f)
            stem = base.rsplit('-', 1)[0]
            if stem == 'build_script_build':
                continue
            with open(f) as fh:
                d = json.load(fh)
            kind = 'lib' if any(t in ('Rlib', 'ProcMacro', 'Dylib') for t in d['crate_types']) else 'bin'
            k = (d['crate'], kind)
            # the same crate may be compiled twice (host/target, feature sets): keep the richest
            score = (len(d.get('features', [])), len(d['bodies']))
            if k not in chosen or score > chosen[k][0]:
                chosen[k] = (score, d)
        for k, (_s, d) in chosen.items():
            self.crates[k] = d
            for b in d['bodies']:
                body = Body(b, d['crate'])
                key = b['path'] if k[1] == 'lib' else 'bin:' + b['path']
                self.bodies[key] = body
                self.by_name.setdefault(b['name'], []).append(body)
            for a in d['adts']:
                self.adts[a['path']] = a
            for i in d['impls']:
                i['crate'] = d['crate']
                self.impls.append(i)
            for s in d['statics']:
                self.statics[s['path']] = s

    def crates_loaded(self):
        return ['%s(%s)' % k for k in self.crates]

    def n_bodies(self):
        return len(self.bodies)

    def body(self, path):
        return self.bodies.get(path)

    def find(self, crate=None, name=None, path_re=None, impl_re=None, kind=None, pred=None):
        out = []
        r = re.compile(path_re) if path_re else None
        ir = re.compile(impl_re) if impl_re else None
        for b in self.bodies.values():
            if crate and b.crate != crate:
                continue
            if name and b.name != name:
                continue
            if kind and b.kind != kind:
                continue
            if r and not r.search(b.path):
                continue
            if ir and not (b.impl_of and ir.search(b.impl_of)):
                continue
            if pred and not pred(b):
                continue
            out.append(b)
        out.sort(key=lambda b: b.path)
        return out

    def one(self, rule, what, **kw):
        bs = self.find(**kw)
        if len(bs) != 1:
            raise AnchorLost(rule, 'anchor lost: expected exactly one %s, found %d (%s)'
                             % (what, len(bs), ', '.join(b.path for b in bs[:6])))
        return bs[0]

    # ---- the program with private helper functions inlined into their callers (a semantics-preserving normal form: DESIGN §3 A11)
    def inline_candidates(self, max_sites=3, crates=('cfgrammar', 'lrtable', 'lrpar', 'lrlex')):
        """non-public, non-recursive functions with at most max_sites direct call sites, all of them in the function's own file"""
        recursive = self._recursive_paths()
        sites = {}
        for path, bd in self.bodies.items():
            if path.startswith('bin:') or bd.crate not in crates:
                continue
            for blk in bd.blocks:
                t = blk['term']
                if t['k'] == 'call' and 'indirect' not in t['callee'] and not blk.get('cleanup'):
                    sites.setdefault(t['callee'].get('resolved') or t['callee']['path'], []).append(bd)
        out = []
        for h, callers in sorted(sites.items()):
            hb = self.bodies.get(h)
            if hb is None or hb.kind not in ('fn', 'assoc_fn') or hb.crate not in crates or hb.trait or hb.from_expansion or h in recursive:
                continue
            if not (hb.d.get('vis') or '').startswith('Restricted') or len(callers) > max_sites or any(c.file != hb.file for c in callers):
                continue
            out.append(h)
        return out

    def inlined_view(self, max_sites=1, only=None, crates=('cfgrammar', 'lrtable', 'lrpar', 'lrlex')):
        """Only non-public functions defined in the caller's own source file are inlined (a block moved into a helper next to its
        user), and only those with at most max_sites direct call sites in the library crates (1 = a block that was merely moved out)."""
        import copy
        v = copy.copy(self)
        v.__dict__ = {k: val for k, val in self.__dict__.items() if not k.startswith('_')}
        v.is_inlined_view = True
        recursive = self._recursive_paths()
        nsites = {}
        for path, bd in self.bodies.items():
            if path.startswith('bin:') or bd.crate not in crates:
                continue
            for blk in bd.blocks:
                t = blk['term']
                if t['k'] == 'call' and 'indirect' not in t['callee'] and not blk.get('cleanup'):
                    k = t['callee'].get('resolved') or t['callee']['path']
                    nsites[k] = nsites.get(k, 0) + 1

        def can(caller, callee):
            vis = callee.d.get('vis') or ''
            return (callee.kind in ('fn', 'assoc_fn') and callee.crate in crates and caller.crate in crates and vis.startswith('Restricted')
                    and callee.path not in recursive and callee.path != caller.path and not callee.from_expansion and len(callee.blocks) <= 800
                    and not callee.trait and nsites.get(callee.path, 0) <= max_sites and callee.file == caller.file
                    and (only is None or callee.path in only))
        newb = {}
        for path, bd in self.bodies.items():
            if path.startswith('bin:') or bd.crate not in crates:
                newb[path] = bd
                continue
            newb[path] = inline_body(self, bd, can)
        # a helper that no longer has a direct call anywhere is gone from the program
        used = set()
        for bd in newb.values():
            for blk in bd.blocks:
                t = blk['term']
                if t['k'] == 'call' and 'indirect' not in t['callee']:
                    used.add(t['callee'].get('resolved') or t['callee']['path'])
                for st in blk['stmts']:
                    if st['k'] == 'assign':
                        for o in rv_operands(st['rv']):
                            f = (o.get('const') or {}).get('fn') if isinstance(o, dict) else None
                            if f:
                                used.add(f.get('resolved') or f['path'])
        inlined_somewhere = {h for bd in newb.values() for h in getattr(bd, 'inlined_from', ())}
        for h in inlined_somewhere:
            if h not in used:
                newb.pop(h, None)
        v.bodies = newb
        v.by_name = {}
        for bd in newb.values():
            v.by_name.setdefault(bd.name, []).append(bd)
        return v

    def _recursive_paths(self):
        """functions on a cycle of direct calls"""
        edges = {}
        for path, bd in self.bodies.items():
            outs = set()
            for blk in bd.blocks:
                t = blk['term']
                if t['k'] == 'call' and 'indirect' not in t['callee']:
                    outs.add(t['callee'].get('resolved') or t['callee']['path'])
            # a closure's calls count for the function it lives in
            edges.setdefault(bd.root_parent or path, set()).update(outs)
        rec = set()
        for start in edges:
            seen, todo = set(), list(edges.get(start, ()))
            while todo:
                x = todo.pop()
                if x == start:
                    rec.add(start)
                    break
                if x in seen or x not in edges:
                    continue
                seen.add(x)
                todo.extend(edges[x])
        return rec

    def closures_of(self, body, recursive=True):
        out = []
        owners = {body.path} | set(getattr(body, 'inlined_from', ()))
        for b in self.bodies.values():
            if b.kind == 'closure' and (b.parent in owners or (recursive and b.root_parent in owners)):
                out.append(b)
        out.sort(key=lambda b: b.path)
        return out

    def adt(self, path):
        return self.adts.get(path)

    def lib_bodies(self, crates):
        return [b for k, b in sorted(self.bodies.items()) if not k.startswith('bin:') and b.crate in crates]


_BLOCK_KEYS = ('bb', 'ret', 'ok', 'otherwise', 'unwind')


def _shift_mir(node, loff, boff):
    """deep copy of a JSON MIR node with local numbers shifted by loff and block numbers by boff"""
    if isinstance(node, dict):
        out = {}
        isplace = 'l' in node and 'p' in node
        for k, v in node.items():
            if k == 'l' and isplace and isinstance(v, int):
                out[k] = v + loff
            elif k == 'index' and isinstance(v, int):
                out[k] = v + loff
            elif k in _BLOCK_KEYS and isinstance(v, int):
                out[k] = v + boff
            elif k == 'targets' and isinstance(v, list):
                out[k] = [[x[0], x[1] + boff] for x in v]
            else:
                out[k] = _shift_mir(v, loff, boff)
        return out
    if isinstance(node, list):
        return [_shift_mir(x, loff, boff) for x in node]
    return node


def inline_body(facts, body, can_inline, rounds=3):
    """`body` with every direct call of a function accepted by can_inline(caller, callee) replaced by the callee's blocks
    (parameters assigned from the arguments, `return` -> assign the destination and go on after the call).  Semantics-preserving;
    unwinding edges are not modelled anywhere in this engine and are dropped with the call."""
    d = None
    inlined = []
    for _round in range(rounds):
        blocks = d['blocks'] if d is not None else body.blocks
        todo = []
        for bi, blk in enumerate(blocks):
            t = blk['term']
            if t['k'] != 'call' or t.get('ret') is None or 'indirect' in t['callee'] or blk.get('cleanup'):
                continue
            hb = facts.bodies.get(t['callee'].get('resolved') or t['callee']['path'])
            if hb is None or not can_inline(body, hb) or len(t['args']) != hb.arg_count:
                continue
            todo.append((bi, hb))
        if not todo:
            break
        if d is None:
            d = dict(body.d)
            d['blocks'] = _shift_mir(body.blocks, 0, 0)
            d['locals'] = list(body.locals)
            d['debug'] = list(body.d.get('debug', []))
        for bi, hb in todo:
            blk = d['blocks'][bi]
            t = blk['term']
            loff, boff = len(d['locals']), len(d['blocks'])
            d['locals'] = d['locals'] + list(hb.locals)
            for e in hb.d.get('debug', []):
                d['debug'].append({'name': e['name'], 'place': _shift_mir(e['place'], loff, 0)})
            nbs = _shift_mir(hb.blocks, loff, boff)
            for nb in nbs:
                if nb['term']['k'] == 'return' and not nb.get('cleanup'):
                    nb['stmts'].append({'k': 'assign', 'lhs': t['dest'], 'rv': {'use': {'move': {'l': loff, 'p': []}}}, 'line': t.get('line'), 'exp': False})
                    nb['term'] = {'k': 'goto', 'bb': t['ret'], 'line': t.get('line'), 'exp': False}
            for i, a in enumerate(t['args']):
                blk['stmts'].append({'k': 'assign', 'lhs': {'l': loff + 1 + i, 'p': []}, 'rv': {'use': a}, 'line': t.get('line'), 'exp': False})
            blk['term'] = {'k': 'goto', 'bb': boff, 'line': t.get('line'), 'exp': False}
            d['blocks'] = d['blocks'] + nbs
            inlined.append(hb.path)
    if d is None:
        return body
    nb = Body(d, body.crate)
    nb.inlined_from = inlined + list(getattr(body, 'inlined_from', ()))
    return nb


# ------------------------------------------------------------------------------------------------
# call graph (A4)


class CallGraph:
    def __init__(self, facts, crates):
        self.facts = facts
        self.edges = {}
        self.bodies = {b.path: b for b in facts.lib_bodies(crates)}
        # trait method -> local impl methods (for unresolved dynamic/generic calls)
        impl_methods = {}
        for b in self.bodies.values():
            if b.trait:
                impl_methods.setdefault((b.trait, b.name), []).append(b.path)
        for b in self.bodies.values():
            outs = set()
            for bb in b.reachable():
                t = b.term(bb)
                if t['k'] == 'call':
                    c = callee_of(t)
                    if c is None:
                        continue
                    p = c.get('resolved') or c['path']
                    if p in self.bodies:
                        outs.add(p)
                    elif c.get('trait') and not c.get('resolved'):
                        for m in impl_methods.get((c['trait'], c['name']), []):
                            outs.add(m)
                # closures and fn items mentioned as values
                for st in b.blocks[bb]['stmts']:
                    if st['k'] != 'assign':
                        continue
                    rv = st['rv']
                    if 'agg' in rv and isinstance(rv['agg'], dict) and 'closure' in rv['agg']:
                        if rv['agg']['closure'] in self.bodies:
                            outs.add(rv['agg']['closure'])
                    for op in rv_operands(rv):
                        c = op.get('const')
                        if c and 'fn' in c:
                            p = c['fn'].get('resolved') or c['fn']['path']
                            if p in self.bodies:
                                outs.add(p)
                if t['k'] == 'call':
                    for a in t['args']:
                        c = a.get('const')
                        if c and 'fn' in c:
                            p = c['fn'].get('resolved') or c['fn']['path']
                            if p in self.bodies:
                                outs.add(p)
            self.edges[b.path] = outs

    def cone(self, entries):
        seen = set()
        todo = list(entries)
        while todo:
            p = todo.pop()
            if p in seen or p not in self.bodies:
                continue
            seen.add(p)
            todo.extend(self.edges.get(p, ()))
        return seen

    def sccs(self, nodes):
        """strongly connected components (Tarjan) restricted to `nodes`; returns those with a cycle"""
        index, low, onst, st, out = {}, {}, set(), [], []
        counter = [0]
        import sys
        sys.setrecursionlimit(10000)

        def visit(v):
            index[v] = low[v] = counter[0]
            counter[0] += 1
            st.append(v)
            onst.add(v)
            for w in self.edges.get(v, ()):
                if w not in nodes:
                    continue
                if w not in index:
                    visit(w)
                    low[v] = min(low[v], low[w])
                elif w in onst:
                    low[v] = min(low[v], index[w])
            if low[v] == index[v]:
                comp = []
                while True:
                    w = st.pop()
                    onst.discard(w)
                    comp.append(w)
                    if w == v:
                        break
                if len(comp) > 1 or v in self.edges.get(v, ()):
                    out.append(sorted(comp))
        for v in sorted(nodes):
            if v not in index:
                visit(v)
        return out


def rv_operands(rv):
    out = []
    for k in ('use', 'a', 'b', 'repeat'):
        if k in rv and isinstance(rv[k], dict):
            out.append(rv[k])
    if 'ops' in rv:
        out.extend(rv['ops'])
    return out


# ------------------------------------------------------------------------------------------------
# A2/A3: symbolic path walker over a region of one body


class Path:
    __slots__ = ('blocks', 'conds', 'events', 'end', 'env', 'facts')

    def __init__(self):
        self.blocks = []
        self.conds = []     # (term, value) with value int or ('ne', frozenset)
        self.events = []    # ('call', bb, callee-dict, argterms, destkey, term) | ('store', bb, placekey, term, rootterm)
        self.end = None     # ('return', term) | ('stop', bb) | ('loop', bb) | ('diverge', bb, callee) | ('limit',)
        self.env = None

    def calls(self, name=None, path_re=None):
        out = []
        for e in self.events:
            if e[0] != 'call':
                continue
            c = e[2]
            if c is None:
                if name is None and path_re is None:
                    out.append(e)
                continue
            if name and c['name'] != name:
                continue
            if path_re and not re.search(path_re, c.get('resolved') or c['path']):
                continue
            out.append(e)
        return out

    def stores(self):
        return [e for e in self.events if e[0] == 'store']

    def cond_on(self, pred):
        """value recorded for the first condition whose term satisfies pred"""
        for t, v in self.conds:
            if pred(t):
                return v
        return None


def t_const(v):
    return ('const', v)


def is_const(t):
    return isinstance(t, tuple) and t and t[0] == 'const'


def simp(t):
    """canonicalise one level (children assumed canonical)"""
    k = t[0]
    if k == 'deref' and t[1][0] == 'ref':
        return t[1][1]
    if k == 'ref' and t[1][0] == 'deref':
        return t[1][1]
    if k == 'field':
        base = t[1]
        if base[0] == 'variant' and isinstance(t[2], int) and t[2] < len(base[4]):
            return base[4][t[2]]
        if base[0] == 'tuple' and isinstance(t[2], int) and t[2] < len(base[1]):
            return base[1][t[2]]
        if base[0] == 'bin' and base[1].endswith('WithOverflow') and t[2] == 0:
            return simp(('bin', base[1][:-len('WithOverflow')], base[2], base[3]))
    if k == 'field' and t[1][0] == 'closure' and isinstance(t[2], int) and t[2] < len(t[1][2]):
        return t[1][2][t[2]]        # the environment of a closure value: its captured values
    if k == 'downcast':
        base = t[1]
        if base[0] == 'variant':
            return base
    if k == 'discr':
        base = t[1]
        if base[0] == 'variant':
            return ('const', base[5])
    if k == 'bin' and is_const(t[2]) and is_const(t[3]) and isinstance(t[2][1], int) and isinstance(t[3][1], int):
        a, b = t[2][1], t[3][1]
        op = t[1]
        r = {'Eq': int(a == b), 'Ne': int(a != b), 'Lt': int(a < b), 'Le': int(a <= b), 'Gt': int(a > b),
             'Ge': int(a >= b)}.get(op)
        if r is not None:
            return ('const', r)
    if k == 'bin' and t[2] == t[3] and t[1] in ('Eq', 'Ne', 'Lt', 'Le', 'Gt', 'Ge') and t[2][0] not in ('opaque', 'mutated', 'icall'):
        return ('const', int(t[1] in ('Eq', 'Le', 'Ge')))
    if k == 'bin':
        # orientation normalisation: Gt(a,b) = Lt(b,a); Ge(a,b) = Le(b,a)
        if t[1] == 'Gt':
            return ('bin', 'Lt', t[3], t[2])
        if t[1] == 'Ge':
            return ('bin', 'Le', t[3], t[2])
        if t[1] in ('Eq', 'Ne') and repr(t[2]) > repr(t[3]):
            return ('bin', t[1], t[3], t[2])
    if k == 'un' and t[1] == 'Not' and t[2][0] == 'un' and t[2][1] == 'Not':
        return t[2][2]
    return t


ESCAPED = ('escaped', ())

NONE_T = ('variant', 'core::option::Option', 0, 'None', (), 0)
OPTION_INLINED = ('map', 'and_then', 'map_or', 'map_or_else', 'unwrap_or_else', 'unwrap_or', 'zip')


def some_t(x):
    return ('variant', 'core::option::Option', 1, 'Some', (x,), 1)


def subst_term(t, amap, caps=None):
    """substitute terms (amap: term -> term) and, when caps is given, the closure environment fields `_1.k` / `(*_1).k` by caps[k];
    re-simplifies on the way up"""
    if not isinstance(t, tuple) or not t:
        return t
    if t in amap:
        return amap[t]
    if caps is not None and t[0] == 'field' and t[1] in (('param', 1), ('deref', ('param', 1))) and isinstance(t[2], int) and t[2] < len(caps):
        return caps[t[2]]
    if not isinstance(t[0], str):
        return tuple(subst_term(x, amap, caps) if isinstance(x, tuple) else x for x in t)
    if t[0] in ('static', 'fn', 'const', 'cst', 'opaque', 'uninit'):
        return t
    out = tuple(subst_term(x, amap, caps) if isinstance(x, tuple) else x for x in t)
    if out[0] in ('deref', 'ref', 'field', 'downcast', 'discr', 'bin', 'un'):
        return simp(out)
    return out


class Walker:
    """Enumerates acyclic paths of `body` from `start` and evaluates them symbolically.

    stop(bb) -> True ends a path *before* executing bb.  Back edges end a path with ('loop', header).
    Asserts (overflow/bounds checks) follow their ok edge.  Unwind edges are ignored.
    Calls with a `&mut` argument havoc the referent and yield a per-occurrence result term; other calls
    are treated as pure functions of their argument terms."""

    def __init__(self, body, facts=None, max_paths=4096, pure_calls=True, adt_info=None):
        self.body = body
        self.facts = facts
        self.max_paths = max_paths
        self.paths = []
        self.overflow = False
        self.universe = {}

    # -- environment helpers
    def read_place(self, env, place):
        key = pkey(place)
        return self.read_key(env, key)

    def read_key(self, env, key):
        l, projs = key
        # longest prefix present in env
        for n in range(len(projs), -1, -1):
            k = (l, projs[:n])
            if k in env:
                t = env[k]
                for p in projs[n:]:
                    t = self.project(env, t, p)
                return t
        t = self.initial(l)
        for p in projs:
            t = self.project(env, t, p)
        return t

    def initial(self, l):
        if 1 <= l <= self.body.arg_count:
            return ('param', l)
        return ('uninit', l)

    def project(self, env, t, p):
        if p[0] == 'deref':
            if t[0] == 'mref' or t[0] == 'sref':
                # reference to a place of this body: read the place now
                return self.read_key(env, t[1])
            return simp(('deref', t))
        if p[0] == 'f':
            return simp(('field', t, p[1], p[2]))
        if p[0] == 'dc':
            return simp(('downcast', t, p[1], p[2]))
        if p[0] == 'idx':
            return ('index', t, self.read_key(env, (p[1], ())))
        return ('proj', t, p)

    def write_key(self, env, key, term):
        l, projs = key
        # resolve writes through references to local places
        for n in range(len(projs)):
            if projs[n] == ('deref',):
                base = self.read_key(env, (l, projs[:n]))
                if base[0] in ('mref', 'sref'):
                    tl, tp = base[1]
                    return self.write_key(env, (tl, tp + projs[n + 1:]), term)
                break
        # drop more specific entries
        for k in list(env.keys()):
            if k[0] == l and len(k[1]) > len(projs) and k[1][:len(projs)] == projs:
                del env[k]
        # writing a sub-place of a known aggregate invalidates the aggregate's cached value partially: keep
        # the more specific entry (longest prefix wins on read)
        env[key] = term

    def operand(self, env, op):
        if 'const' in op:
            c = op['const']
            if 'int' in c:
                return ('const', signed(c['int'], c['ty']) if c['ty'].startswith('i') else c['int'])
            if 'str' in c:
                return ('const', c['str'])
            if 'fn' in c:
                f = c['fn']
                return ('fn', f.get('resolved') or f['path'])
            if 'static' in c:
                return ('static', c['static'])
            if c.get('opaque') == '()':
                return ('const', 'unit')
            if c.get('promoted') and self.facts is not None:
                t = self.eval_promoted(c['promoted'][0], c['promoted'][1])
                if t is not None:
                    return t
            return ('cst', c.get('ty'), c.get('opaque'))
        p = op_place(op)
        if p is None:
            return ('opaque', json.dumps(op)[:40])
        return self.read_place(env, p)

    def rvalue(self, env, rv, where):
        if 'use' in rv:
            return self.operand(env, rv['use'])
        if 'ref' in rv:
            key = pkey(rv['ref'])
            # reference to (a sub-place of) a local that is not itself behind a pointer: keep the place
            l, projs = key
            if ('deref',) not in projs:
                return ('mref' if rv.get('mut') else 'sref', key)
            # reborrow through a pointer
            # resolve leading deref of a local reference
            for n in range(len(projs)):
                if projs[n] == ('deref',):
                    base = self.read_key(env, (l, projs[:n]))
                    if base[0] in ('mref', 'sref'):
                        tl, tp = base[1]
                        nk = (tl, tp + projs[n + 1:])
                        if ('deref',) not in nk[1]:
                            return ('mref' if rv.get('mut') else 'sref', nk)
                    break
            if rv.get('mut'):
                # mutable reborrow through a pointer (e.g. `&mut *param`): keep the place so that a call
                # receiving it versions what the pointer refers to
                return ('mref', key)
            return simp(('ref', self.read_key(env, key)))
        if 'rawptr' in rv:
            return simp(('ref', self.read_place(env, rv['rawptr'])))
        if 'discr' in rv:
            t = simp(('discr', self.read_place(env, rv['discr'])))
            if 'vals' in rv:
                self.universe[t] = frozenset(rv['vals'])
            return t
        if 'bin' in rv:
            return simp(('bin', rv['bin'], self.operand(env, rv['a']), self.operand(env, rv['b'])))
        if 'un' in rv:
            a = self.operand(env, rv['a'])
            if rv['un'] == 'PtrMetadata':
                return ('len', simp(('deref', self.deref_val(env, a))) if a[0] != 'ref' else a[1])
            return simp(('un', rv['un'], a))
        if 'cast' in rv:
            a = self.operand(env, rv['a'])
            if rv['from'] == rv['to'] or rv['cast'].startswith('PointerCoercion') or rv['cast'] == 'Transmute' and rv['from'] == rv['to']:
                return a
            return ('cast', rv['to'], a)
        if 'agg' in rv:
            ops = tuple(self.operand(env, o) for o in rv['ops'])
            a = rv['agg']
            if a == 'tuple':
                return ('tuple', ops)
            if a == 'array':
                return ('array', ops)
            if isinstance(a, dict) and 'adt' in a:
                discr = a['variant']
                if self.facts is not None:
                    ad = self.facts.adt(a['adt'])
                    if ad and a['variant'] < len(ad['variants']):
                        discr = ad['variants'][a['variant']]['discr']
                return ('variant', a['adt'], a['variant'], a['vname'], ops, discr)
            if isinstance(a, dict) and 'closure' in a:
                # a closure capturing a local by mutable reference may change it whenever it runs: from now on
                # the captured place is re-havocked at every call
                esc = set(env.get(ESCAPED, ()))
                for o in ops:
                    if o[0] == 'mref':
                        esc.add(o[1])
                        self.counter += 1
                        self.write_key(env, o[1], ('mutated', o[1], 'closure-capture', self.counter))
                if esc:
                    env[ESCAPED] = frozenset(esc)
                return ('closure', a['closure'], tuple(self.as_value(env, o) for o in ops))
            return ('agg', json.dumps(a), ops)
        if 'repeat' in rv:
            return ('repeat', self.operand(env, rv['repeat']), rv['n'])
        if 'len' in rv:
            return ('len', self.read_place(env, rv['len']))
        return ('opaque', where)

    def addr_term(self, env, key):
        """symbolic address of a place: ('addr', root-term, (proj...)) with index locals resolved"""
        l, projs = key
        root = ('local', l)
        start = 0
        out = []
        if projs and projs[0] == ('deref',):
            raw = self.read_key(env, (l, ()))
            start = 1
            if raw[0] in ('mref', 'sref'):
                root = ('local', raw[1][0])
                out.extend(raw[1][1])
            else:
                root = self.as_value(env, raw)
                while root[0] == 'ref':
                    root = root[1]
        for p in projs[start:]:
            if p[0] == 'idx':
                out.append(('idx', self.as_value(env, self.read_key(env, (p[1], ())))))
            else:
                out.append(p)
        return ('addr', root, tuple(out))

    def deref_val(self, env, t):
        if t[0] in ('mref', 'sref'):
            return ('ref', self.read_key(env, t[1]))
        return t

    def as_value(self, env, t):
        """turn place-references into value terms (for call arguments / comparisons)"""
        if t[0] in ('mref', 'sref'):
            return simp(('ref', self.as_value(env, self.read_key(env, t[1]))))
        return t

    def eval_promoted(self, path, idx):
        """value of a promoted constant (`&Action::Accept`, `&"lit"` ..): its tiny straight-line body is evaluated once"""
        cache = self.facts.__dict__.setdefault('_promoted', {})
        key = (path, idx)
        if key not in cache:
            cache[key] = None
            owner = self.facts.bodies.get(path)
            pl = (owner.d.get('promoted') or []) if owner is not None else []
            if idx < len(pl) and getattr(self, 'inline_depth', 0) < 4:
                d = {'path': '%s::promoted[%d]' % (path, idx), 'name': '', 'kind': 'promoted', 'file': owner.file, 'lo': owner.lo, 'hi': owner.hi,
                     'blocks': pl[idx]['blocks'], 'locals': pl[idx]['locals'], 'arg_count': 0}
                w = Walker(Body(d, owner.crate), self.facts, max_paths=2)
                w.inline_depth = getattr(self, 'inline_depth', 0) + 1
                ps = w.run()
                if len(ps) == 1 and ps[0].end[0] == 'return' and not w.overflow and not ps[0].conds:
                    v = ps[0].end[1]
                    if not term_has(v, lambda x: isinstance(x, tuple) and x and x[0] in ('uninit', 'param', 'mutated', 'opaque')):
                        cache[key] = v
        return cache[key]

    def closure_alternatives(self, clo, argterms):
        """[(conds, events, result)] of a pure, loop-free closure applied to argterms, expressed in the caller's terms; None if the
        closure cannot be evaluated that way (unknown body, loops, impure calls, stores, divergence, too many paths)"""
        if self.facts is None or not isinstance(clo, tuple) or not clo or clo[0] != 'closure':
            return None
        cb = self.facts.bodies.get(clo[1])
        if cb is None or cb.loops() or cb.arg_count != 1 + len(argterms):
            return None
        key = ('cloalts', clo, tuple(argterms))
        cache = self.facts.__dict__.setdefault('_cloalts', {})
        if key not in cache:
            # evaluate the closure body in the CALLER's frame: its environment parameter is the closure value itself (so that a captured
            # closure called inside is a closure value again), its other parameters are the argument terms
            w = Walker(cb, self.facts, max_paths=6)
            w.inline_depth = getattr(self, 'inline_depth', 0) + 1
            self_t = ('ref', clo) if cb.lty(1).startswith('&') else clo
            env = {(1, ()): self_t}
            for i, a in enumerate(argterms):
                env[(i + 2, ())] = a
            ps = w.run(0, env=env)
            ok = not w.overflow and bool(ps) and not getattr(w, 'impure', 0) and all(p.end[0] == 'return' for p in ps) \
                and not any(e[0] in ('store', 'drop') for p in ps for e in p.events)
            cache[key] = [([cv for cv in p.conds], [('call', None, e[2], e[3], None, e[5], e[6] if len(e) > 6 else None) for e in p.events if e[0] == 'call'], p.end[1])
                          for p in ps] if ok else None
        return cache[key]

    def inline_option_call(self, c, ckey, args):
        """Option combinators as the match they stand for: [(discriminant of the receiver, conds, events, result)] or None"""
        name = c['name']
        if name not in OPTION_INLINED or not ckey.startswith('core::option::Option') or not args or getattr(self, 'inline_depth', 0) > 2:
            return None
        opt = args[0]
        payload = simp(('field', simp(('downcast', opt, 1, 'Some')), 0, '0'))
        if name == 'zip' and len(args) == 2:
            # Some((a, b)) exactly when both are Some
            p2 = simp(('field', simp(('downcast', args[1], 1, 'Some')), 0, '0'))
            d2 = simp(('discr', args[1]))
            return [(0, [], [], NONE_T), (1, [(d2, 0)], [], NONE_T), (1, [(d2, 1)], [], some_t(('tuple', (payload, p2))))]
        if name == 'unwrap_or' and len(args) == 2:
            return [(0, [], [], args[1]), (1, [], [], payload)]
        if name == 'unwrap_or_else' and len(args) == 2:
            d = self.closure_alternatives(args[1], [])
            return None if d is None else [(0,) + x for x in d] + [(1, [], [], payload)]
        if name == 'map' and len(args) == 2:
            f = self.closure_alternatives(args[1], [payload])
            return None if f is None else [(0, [], [], NONE_T)] + [(1, cs, es, some_t(r)) for cs, es, r in f]
        if name == 'and_then' and len(args) == 2:
            f = self.closure_alternatives(args[1], [payload])
            return None if f is None else [(0, [], [], NONE_T)] + [(1,) + x for x in f]
        if name == 'map_or' and len(args) == 3:
            f = self.closure_alternatives(args[2], [payload])
            return None if f is None else [(0, [], [], args[1])] + [(1,) + x for x in f]
        if name == 'map_or_else' and len(args) == 3:
            d = self.closure_alternatives(args[1], [])
            f = self.closure_alternatives(args[2], [payload])
            return None if d is None or f is None else [(0,) + x for x in d] + [(1,) + x for x in f]
        return None

    # -- the walk
    def run(self, start=0, stop=None, env=None, follow_back_edges=False):
        if start is None:
            start = 0
        self.stop = stop
        self.counter = 0
        p = Path()
        self._walk(start, dict(env or {}), p, {}, set())
        return self.paths

    def _finish(self, path, env, end):
        if len(self.paths) >= self.max_paths:
            self.overflow = True
            return
        q = Path()
        q.blocks = list(path.blocks)
        q.conds = list(path.conds)
        q.events = list(path.events)
        q.end = end
        q.env = dict(env)
        self.paths.append(q)

    def _walk(self, bb, env, path, known, onpath):
        body = self.body
        while True:
            if self.overflow:
                return
            if self.stop is not None and path.blocks and self.stop(bb):
                self._finish(path, env, ('stop', bb))
                return
            if bb in onpath:
                self._finish(path, env, ('loop', bb))
                return
            onpath = onpath | {bb}
            path.blocks.append(bb)
            wh = getattr(self, 'widen_headers', None)
            if wh and bb in wh:
                ctx = None
                for l in self.widen_assigned[bb]:
                    prev = self.as_value(env, self.read_key(env, (l, ())))
                    if body.lty(l) == 'core::option::Option<usize>':
                        # a loop-carried optional position: remember where the loop's usize cursors stood on entry, so that a
                        # bound "payload >= cursor c at the start of its iteration" can be related to the caller's frame
                        if ctx is None:
                            ctx = tuple((c, self.as_value(env, self.read_key(env, (c, ())))) for c in sorted(self.widen_assigned[bb]) if body.lty(c) == 'usize')
                        for k in [k for k in env if k[0] == l]:
                            del env[k]
                        env[(l, ())] = ('widen', body.path, bb, l, prev, ctx)
                        continue
                    for k in [k for k in env if k[0] == l]:
                        del env[k]
                    env[(l, ())] = ('widen', body.path, bb, l, prev)
            blk = body.blocks[bb]
            for i, st in enumerate(blk['stmts']):
                if st['k'] == 'assign':
                    key = pkey(st['lhs'])
                    t = self.rvalue(env, st['rv'], (bb, i))
                    self.write_key(env, key, t)
                    if st['lhs']['p']:
                        path.events.append(('store', bb, key, self.as_value(env, t), st.get('line'),
                                            self.addr_term(env, key)))
                elif st['k'] == 'setdiscr':
                    pass
            t = blk['term']
            k = t['k']
            if k == 'goto':
                bb = t['bb']
                continue
            if k in ('drop',):
                if t.get('drop_impl'):
                    path.events.append(('drop', bb, t['drop_impl'], pkey(t['place']), t.get('line')))
                bb = t['ret']
                continue
            if k == 'assert':
                if (t.get('msg') or '').startswith('BoundsCheck'):
                    # built-in slice/array indexing: `assert Lt(index, len)`; recorded so that rules can take it as an index site
                    try:
                        path.events.append(('assert', bb, self.as_value(env, self.operand(env, t['cond'])), t.get('expected'), 'BoundsCheck'))
                    except Exception:
                        path.events.append(('assert', bb, None, t.get('expected'), 'BoundsCheck'))
                bb = t['ok']
                continue
            if k == 'return':
                self._finish(path, env, ('return', self.as_value(env, self.read_key(env, (0, ())))))
                return
            if k in ('unreachable',):
                return  # infeasible
            if k in ('resume', 'terminate', 'otherterm'):
                self._finish(path, env, ('abort', bb))
                return
            if k == 'call':
                c = callee_of(t)
                rawargs = [self.operand(env, a) for a in t['args']]
                args = tuple(self.as_value(env, a) for a in rawargs)
                has_mut = False
                for a, op in zip(rawargs, t['args']):
                    if a[0] == 'mref':
                        has_mut = True
                    else:
                        l = op_local(op)
                        if l is not None and self.body.lty(l).startswith('&mut '):
                            has_mut = True
                if c is not None and t['ret'] is not None and getattr(self, 'inline_closures', True) and self.facts is not None \
                        and getattr(self, 'inline_depth', 0) <= 2 and args and strip_ref(args[0])[0] == 'closure':
                    # a direct call of a local closure value (`let helper = |a, b| ..; helper(x, y)`), pure and loop-free: evaluate it in place
                    ck = c.get('resolved') or c['path']
                    clo = strip_ref(args[0])
                    cbody = self.facts.bodies.get(ck)
                    calts = None
                    if cbody is not None and cbody.kind == 'closure' and clo[1] == ck:
                        if c['name'] in ('call', 'call_mut', 'call_once') and len(args) == 2 and args[1][0] == 'tuple':
                            calts = self.closure_alternatives(clo, list(args[1][1]))     # Fn::call resolved to the closure: (self, (x, y))
                        else:
                            calts = self.closure_alternatives(clo, list(args[1:]))
                    elif c['name'] in ('call', 'call_mut', 'call_once') and (c.get('trait') or '').startswith('core::ops::function::Fn') and len(args) == 2 \
                            and args[1][0] == 'tuple':
                        # the same through the Fn* traits (a closure captured by reference and called: `f(x, y)` is Fn::call(&f, (x, y)))
                        calts = self.closure_alternatives(clo, list(args[1][1]))
                    if True:
                        if calts is not None:
                            for i, (cs, es, r) in enumerate(calts):
                                last = i == len(calts) - 1
                                if last:
                                    p2, e2, k2 = path, env, dict(known)
                                else:
                                    p2 = Path()
                                    p2.blocks = list(path.blocks)
                                    p2.conds = list(path.conds)
                                    p2.events = list(path.events)
                                    e2, k2 = dict(env), dict(known)
                                feasible = True
                                for cv in cs:
                                    if is_const(cv[0]):
                                        continue
                                    kn = k2.get(cv[0])
                                    if kn is not None and ((isinstance(kn, int) and isinstance(cv[1], int) and kn != cv[1]) or (isinstance(kn, frozenset) and cv[1] in kn)):
                                        feasible = False
                                        break
                                    if kn is None or isinstance(kn, frozenset):
                                        p2.conds = p2.conds + [cv]
                                        if isinstance(cv[1], int):
                                            k2[cv[0]] = cv[1]
                                if not feasible:
                                    if last:
                                        return
                                    continue
                                p2.events = p2.events + [('call', bb) + e[2:] for e in es]
                                self.write_key(e2, pkey(t['dest']), r)
                                if not last:
                                    self._walk(t['ret'], e2, p2, k2, onpath)
                                else:
                                    known = k2
                            bb = t['ret']
                            continue
                if c is not None and t['ret'] is not None and getattr(self, 'inline_closures', True):
                    alts = self.inline_option_call(c, c.get('resolved') or c['path'], args)
                    if alts is not None:
                        d = simp(('discr', args[0]))
                        kn = d[1] if is_const(d) else known.get(d)
                        feas = [a for a in alts if kn is None or (a[0] == kn if isinstance(kn, int) else a[0] not in kn)]
                        if not feas:
                            return
                        self.universe[d] = frozenset((0, 1))
                        def cs_feasible(cs, kmap):
                            for cv in cs:
                                if is_const(cv[0]):
                                    if isinstance(cv[1], int) and cv[0][1] != cv[1]:
                                        return False
                                    continue
                                k0 = kmap.get(cv[0])
                                if isinstance(k0, int) and isinstance(cv[1], int) and k0 != cv[1]:
                                    return False
                                if isinstance(k0, frozenset) and cv[1] in k0:
                                    return False
                            return True
                        feas = [a for a in feas if cs_feasible(a[1], known)]
                        if not feas:
                            return
                        for i, (dv, cs, es, r) in enumerate(feas):
                            last = i == len(feas) - 1
                            if last:
                                p2, e2, k2 = path, env, dict(known)
                            else:
                                p2 = Path()
                                p2.blocks = list(path.blocks)
                                p2.conds = list(path.conds)
                                p2.events = list(path.events)
                                e2, k2 = dict(env), dict(known)
                            if not isinstance(kn, int):
                                p2.conds = p2.conds + [(d, dv)]
                                k2[d] = dv
                            for cv in cs:
                                if is_const(cv[0]) or isinstance(k2.get(cv[0]), int):
                                    continue
                                p2.conds = p2.conds + [cv]
                                if isinstance(cv[1], int):
                                    k2[cv[0]] = cv[1]
                                    if cv[0][0] == 'discr':
                                        self.universe.setdefault(cv[0], frozenset((0, 1)))
                            p2.events = p2.events + [('call', bb) + e[2:] for e in es]
                            self.write_key(e2, pkey(t['dest']), r)
                            if not last:
                                self._walk(t['ret'], e2, p2, k2, onpath)
                            else:
                                known = k2
                        bb = t['ret']
                        continue
                self.counter += 1
                if c is None or has_mut:
                    self.impure = getattr(self, 'impure', 0) + 1
                if c is None:
                    res = ('icall', self.as_value(env, self.operand(env, t['callee']['indirect'])), args, self.counter)
                    ckey = None
                else:
                    ckey = c.get('resolved') or c['path']
                    res = self.model_call(ckey, c, args)
                    if res is None:
                        if has_mut:
                            res = ('call', ckey, args, self.counter)
                        else:
                            res = ('call', ckey, args)
                path.events.append(('call', bb, c, args, pkey(t['dest']), res, t.get('line')))
                # havoc referents of &mut arguments
                for a, op in zip(rawargs, t['args']):
                    if a[0] == 'mref':
                        self.counter += 1
                        self.write_key(env, a[1], ('mutated', a[1], ckey, self.counter))
                    else:
                        l = op_local(op)
                        if l is not None and self.body.lty(l).startswith('&mut ') and a[0] in ('param', 'uninit'):
                            # the pointer itself (a `&mut` parameter) is handed over: version its referent
                            self.counter += 1
                            self.write_key(env, (a[1], (('deref',),)), ('mutated', (a[1], (('deref',),)), ckey, self.counter))
                for k in env.get(ESCAPED, ()):
                    self.counter += 1
                    self.write_key(env, k, ('mutated', k, 'escaped', self.counter))
                if t['ret'] is None:
                    self._finish(path, env, ('diverge', bb, ckey))
                    return
                self.write_key(env, pkey(t['dest']), res)
                bb = t['ret']
                continue
            if k == 'switch':
                on = self.as_value(env, self.operand(env, t['on']))
                ty = t.get('on_ty', '')
                if on[0] == 'uninit' and on[1] in body.drop_flags():
                    # drop flag set before the region started: irrelevant for call/store effects; take the
                    # branch on which the value is still owned (the drop happens)
                    bb = t['otherwise']
                    continue
                targets = [(signed(v, ty), b) for v, b in t['targets']]
                if ty == 'bool':
                    # one canonical form for a tested condition: `a != b` is recorded as Eq(a, b) with the opposite truth value,
                    # `!x` as x with the opposite truth value (so that rules need not know both spellings)
                    flip = False
                    while True:
                        if on[0] == 'un' and on[1] == 'Not':
                            on, flip = on[2], not flip
                        elif on[0] == 'bin' and on[1] == 'Ne':
                            on, flip = simp(('bin', 'Eq', on[2], on[3])), not flip
                        else:
                            break
                    if flip:
                        tv = {v: b for v, b in targets}
                        full = {v: tv.get(v, t['otherwise']) for v in (0, 1)}
                        targets = [(1 - v, b) for v, b in sorted(full.items())]
                if is_const(on) and isinstance(on[1], int):
                    nxt = t['otherwise']
                    for v, b in targets:
                        if v == on[1]:
                            nxt = b
                            break
                    bb = nxt
                    continue
                kn = known.get(on)
                if kn is not None and not isinstance(kn, frozenset):
                    nxt = t['otherwise']
                    for v, b in targets:
                        if v == kn:
                            nxt = b
                            break
                    bb = nxt
                    continue
                excluded = kn if isinstance(kn, frozenset) else frozenset()
                # fork
                for v, b in targets:
                    if v in excluded:
                        continue
                    p2 = Path()
                    p2.blocks = list(path.blocks)
                    p2.conds = path.conds + [(on, v)]
                    p2.events = list(path.events)
                    k2 = dict(known)
                    k2[on] = v
                    self._walk(b, dict(env), p2, k2, onpath)
                ne = frozenset(excluded | {v for v, _ in targets})
                vals = None
                if ty == 'bool' or on in self.universe:
                    rest = (set(self.universe[on]) if on in self.universe else {0, 1}) - ne
                    if not rest:
                        return
                    if len(rest) == 1:
                        vals = next(iter(rest))
                p2 = path
                k2 = dict(known)
                if vals is not None:
                    p2.conds = path.conds + [(on, vals)]
                    k2[on] = vals
                else:
                    p2.conds = path.conds + [(on, ('ne', ne))]
                    k2[on] = ne
                known = k2
                bb = t['otherwise']
                continue
            self._finish(path, env, ('abort', bb))
            return

    def model_call(self, ckey, c, args):
        """semantic models of a few std callees (A3 canonicalisation)"""
        name = c['name']
        tr = c.get('trait') or ''
        if tr == 'core::cmp::PartialOrd' and len(args) == 2:
            a, b = (strip_ref(args[0]), strip_ref(args[1]))
            op = {'lt': 'Lt', 'le': 'Le', 'gt': 'Gt', 'ge': 'Ge'}.get(name)
            if op:
                return simp(('bin', op, a, b))
        if tr == 'core::cmp::PartialEq' and len(args) == 2 and name in ('eq', 'ne'):
            a, b = (strip_ref(args[0]), strip_ref(args[1]))
            return simp(('bin', 'Eq' if name == 'eq' else 'Ne', a, b))
        if tr == 'core::ops::try_trait::Try' and name == 'branch' and len(args) == 1 and args[0][0] == 'variant':
            # `?` on a value whose variant is known on this path (after inlining a helper: its `return Err(e)` / `Ok(v)`)
            v = args[0]
            if v[3] in ('Ok', 'Some') and len(v[4]) == 1:
                return ('variant', 'core::ops::control_flow::ControlFlow', 0, 'Continue', (v[4][0],), 0)
            if v[3] in ('Err', 'None'):
                return ('variant', 'core::ops::control_flow::ControlFlow', 1, 'Break', (v,), 1)
        if tr == 'core::ops::try_trait::FromResidual' and name == 'from_residual' and len(args) == 1 and args[0][0] == 'variant' and args[0][3] in ('Err', 'None'):
            v = args[0]
            return ('variant', v[1], v[2], v[3], tuple(('conv', 'residual', x) for x in v[4]), v[5])
        if tr == 'core::ops::try_trait::FromResidual' and name == 'from_residual' and len(args) == 1:
            # a residual is always the failure case (Option<Infallible> is None, Result<Infallible, E> is Err(e)): so is the result
            st = c.get('self_ty') or ''
            if st.startswith('core::option::Option<'):
                return NONE_T
            if st.startswith('core::result::Result<'):
                return ('variant', 'core::result::Result', 1, 'Err', (('conv', 'residual', simp(('field', simp(('downcast', args[0], 1, 'Err')), 0, '0'))),), 1)
        if name in ('is_some', 'is_none', 'is_ok', 'is_err') and len(args) == 1 and (c.get('self_ty') or c.get('impl_self') or ckey).startswith(('core::option::Option', 'core::result::Result')):
            v = strip_ref(args[0])
            if isinstance(v, tuple) and v and v[0] == 'variant' and v[3] in ('Some', 'None', 'Ok', 'Err'):
                return ('const', 1 if (v[3] in ('Some', 'Ok')) == (name in ('is_some', 'is_ok')) else 0)
        if tr == 'core::cmp::Ord' and name == 'cmp' and len(args) == 2:
            return ('cmp', strip_ref(args[0]), strip_ref(args[1]))
        if name == 'reverse' and len(args) == 1 and args[0][0] == 'cmp' and 'Ordering' in ckey:
            return ('cmp', args[0][2], args[0][1])
        if tr in ('core::convert::From', 'core::convert::Into') and len(args) == 1:
            st = c.get('self_ty', '')
            return ('conv', st if tr.endswith('From') else (c['args'][1] if len(c['args']) > 1 else ''), args[0])
        if tr == 'core::clone::Clone' and name == 'clone' and len(args) == 1:
            return strip_ref(args[0])
        if tr in ('core::ops::deref::Deref', 'core::ops::deref::DerefMut', 'core::convert::AsRef', 'core::borrow::Borrow') and len(args) == 1:
            return args[0]
        return None


def strip_ref(t):
    while t[0] == 'ref':
        t = t[1]
    return t


def term_has(t, pred):
    """does any sub-term satisfy pred"""
    if pred(t):
        return True
    if isinstance(t, tuple):
        for x in t:
            if isinstance(x, tuple) and term_has(x, pred):
                return True
    return False


def subterms(t):
    yield t
    if isinstance(t, tuple):
        for x in t:
            if isinstance(x, tuple):
                for y in subterms(x):
                    yield y


def calls_in_term(t):
    return [x for x in subterms(t) if isinstance(x, tuple) and x and x[0] == 'call']


def fmt_term(t, depth=0):
    if not isinstance(t, tuple) or not t:
        return repr(t)
    k = t[0]
    if depth > 6:
        return '…'
    f = lambda x: fmt_term(x, depth + 1)
    if k == 'param':
        return 'arg%d' % t[1]
    if k == 'const':
        return repr(t[1])
    if k == 'field':
        return '%s.%s' % (f(t[1]), t[3] if len(t) > 3 and t[3] else t[2])
    if k == 'deref':
        return '*%s' % f(t[1])
    if k == 'ref':
        return '&%s' % f(t[1])
    if k == 'discr':
        return 'discr(%s)' % f(t[1])
    if k == 'downcast':
        return '(%s as %s)' % (f(t[1]), t[3] if len(t) > 3 and t[3] else t[2])
    if k == 'call':
        return '%s(%s)' % (strip_generics(t[1]).split('::')[-1], ', '.join(f(a) for a in t[2]))
    if k == 'bin':
        return '(%s %s %s)' % (f(t[2]), t[1], f(t[3]))
    if k == 'cmp':
        return 'cmp(%s, %s)' % (f(t[1]), f(t[2]))
    if k == 'variant':
        return '%s(%s)' % (t[3], ', '.join(f(a) for a in t[4]))
    if k == 'tuple':
        return '(%s)' % ', '.join(f(a) for a in t[1])
    if k == 'conv':
        return 'conv<%s>(%s)' % (t[1].split('::')[-1], f(t[2]))
    return '%s(%s)' % (k, ', '.join(f(x) if isinstance(x, tuple) else repr(x) for x in t[1:]))
