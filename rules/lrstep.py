"""Shared helpers for the LR driver functions of lrpar (Parser::lr, lr_upto, lr_cactus): per-action-arm path tables."""
from mirlib import *

P = 'lrpar::parser::Parser'


def find_fn(facts, rule, name, impl=r'^lrpar::parser::Parser<'):
    return facts.one(rule, 'Parser::' + name, crate='lrpar', name=name, impl_re=impl)


def is_call(t, name):
    return isinstance(t, tuple) and t and t[0] in ('call',) and strip_generics(t[1]).endswith('::' + name)


def has_call(t, name):
    return term_has(t, lambda x: is_call(x, name))


def find_calls(t, name):
    return [x for x in subterms(t) if is_call(x, name)]


def find_variant(t, vname=None, adt_suffix=None):
    for x in subterms(t):
        if isinstance(x, tuple) and x and x[0] == 'variant' and (vname is None or x[3] == vname) \
                and (adt_suffix is None or x[1].endswith(adt_suffix)):
            return x
    return None


def arms(facts, rule, body):
    """{variant name: [paths]} for the match on StateTable::action in the (innermost) loop of `body`;
    paths start at that loop's header and end at the next loop header / return / panic"""
    ac = [(bb, t) for bb, t in body.calls_named('action') if 'StateTable' in (cpath(t) or '')]
    if len(ac) != 1:
        raise AnchorLost(rule, 'expected one StateTable::action lookup in %s, found %d' % (body.path, len(ac)))
    loops = body.loops()
    inl = [h for h in loops if ac[0][0] in loops[h]]
    if not inl:
        raise AnchorLost(rule, 'the action lookup of %s is not in a loop' % body.path)
    lh = min(inl, key=lambda h: len(loops[h]))
    headers = set(loops)
    w = Walker(body, facts, max_paths=20000)
    # inner loops are widened (their assigned locals become symbols) so that arms containing a loop are followed
    # to the end of the arm; only the driver loop's own header ends a path
    w.widen_headers = headers - {lh}
    w.widen_assigned = {h: loop_assigned(body, h) for h in w.widen_headers}
    ps = [p for p in w.run(lh, stop=lambda x: x == lh or (x in headers and lh not in loops[x] and x not in loops[lh]))
          if not (p.end[0] == 'loop' and p.end[1] != lh)]
    if w.overflow:
        raise AnchorLost(rule, 'path bound exceeded in %s' % body.path)
    act = facts.adt('lrtable::statetable::Action')
    vn = {v['discr']: v['name'] for v in act['variants']}
    out = {}
    lookup = None
    for p in ps:
        dv = [(c, v) for c, v in p.conds if c[0] == 'discr' and is_call(c[1], 'action')]
        if not dv or not isinstance(dv[0][1], int):
            continue
        lookup = dv[0][0][1]
        out.setdefault(vn[dv[0][1]], []).append(p)
    return out, lookup, lh


def loop_assigned(body, h):
    blocks = body.loops()[h]
    out = set()
    for b in blocks:
        for st in body.blocks[b]['stmts']:
            if st['k'] == 'assign':
                out.add(st['lhs']['l'])
                rv = st['rv']
                if 'ref' in rv and rv.get('mut') and ('deref',) not in pkey(rv['ref'])[1]:
                    out.add(rv['ref']['l'])
        t = body.term(b)
        if t['k'] == 'call':
            out.add(t['dest']['l'])
    return out


def widening_walker(body, facts, max_paths=4096):
    w = Walker(body, facts, max_paths=max_paths)
    w.widen_headers = set(body.loops())
    w.widen_assigned = {h: loop_assigned(body, h) for h in w.widen_headers}
    return w


def pushes_on(p, root):
    """push events whose receiver is (a reference to) `root`"""
    out = []
    for e in p.calls(name='push'):
        if e[3] and strip_ref(e[3][0]) == root:
            out.append(e)
    return out
