"""C16 State graph and table queries agree with each other (DESIGN.md §4 C16).

R16.1 derived views (state_actions, state_shifts, core_reduces, reduce_states) are functions of the FINAL cells
R16.2 view table: what each decoded final action contributes to the views
R16.3 shift and goto targets come from the graph's edge on that symbol (goto stored +1)
R16.4 encode/decode are mutually inverse; goto() undoes the +1
R16.5 gc precedes StateGraph::new (every state of the graph is reachable)
"""
from mirlib import *

META = {
    'level': 'proof',
    'exhaustive': True,
    'explanation': 'R16.2/R16.4 are finite tables read out of the MIR by exhaustive path enumeration (one row per Action '
                   'variant / tag) and compared with the specification; R16.1/R16.3/R16.5 are ordering, reachability and '
                   'provenance facts over the CFG of StateTable::new and pager_stategraph that hold on every path. Together: '
                   'the four derived views are computed from the cells as they are when construction finishes, so the '
                   'queries agree with action(); targets are the graph\'s edges. NOT decided: that each closed state is the '
                   'LR(1) closure of its core (C01).',
    'trusted_base': ['vob::Vob::set / sparsevec::SparseVec::from,get semantics'],
}

ST = 'lrtable::statetable::'


def find_new(facts, R):
    return facts.one(R, 'StateTable::new', crate='lrtable', name='new', impl_re=r'statetable::StateTable<')


def table_literal(b, R, res):
    """(block, stmt) of the StateTable struct literal, and a map field name -> root local of the operand"""
    for bb, i, st in b.stmts():
        if st['k'] == 'assign' and 'agg' in st['rv'] and isinstance(st['rv']['agg'], dict) \
                and st['rv']['agg'].get('adt') == ST + 'StateTable':
            return bb, st
    return None, None


def view_locals(facts, b, st):
    adt = facts.adt(ST + 'StateTable')
    fields = [f for f in adt['variants'][0]['fields']]
    out = {}
    for f, op in zip(fields, st['rv']['ops']):
        r, _p, _v = b.op_root(op)
        out[f['name']] = (r, f['ty'])
    return out


def cells_local(b, views):
    """the Vec<usize> the action SparseVec is built from"""
    a = views.get('actions')
    if not a:
        return None
    ds = b.defs().get(a[0], [])
    for bb, kind, x in ds:
        if kind == 'call' and cname(x) == 'from':
            r, _p, _v = b.op_root(x['args'][0])
            return r
    return None


def cell_store_sites(b, cells):
    """blocks after which a cell may have been written: index_mut on the cell vec, or any call receiving a
    mutable borrow of it"""
    sites = []
    for bb, t in b.calls():
        for a in t['args']:
            l = op_local(a)
            if l is None:
                continue
            r, projs, via = b.root(l)
            if r == cells and (b.lty(l).startswith('&mut ')):
                sites.append((bb, cpath(t) or 'indirect'))
                break
    return sites


def r161(facts, res):
    R = 'R16.1'
    b = find_new(facts, R)
    lb, st = table_literal(b, R, res)
    if st is None:
        res.lost(R, 'StateTable struct literal not found in StateTable::new')
        return None
    views = view_locals(facts, b, st)
    cells = cells_local(b, views)
    if cells is None:
        res.lost(R, 'cannot identify the action-cell vector (the Vec the `actions` SparseVec is built from)')
        return None
    vobs = {n: l for n, (l, ty) in views.items() if ty.startswith('vob::Vob<')}
    res.floor(R, 'bit-vector views in the StateTable literal', len(vobs), 4)
    stores = cell_store_sites(b, cells)
    res.floor(R, 'cell store sites', len(stores), 5)
    store_blocks = {bb for bb, _ in stores}
    decs = [(bb, t) for bb, t in b.calls_named('decode')
            if b.op_root(t['args'][0], through=Body.THROUGH + ('index', 'index_mut'))[0] == cells
            or b.op_root(t['args'][0], through=Body.THROUGH + ('index', 'index_mut', 'iter', 'enumerate', 'next', 'into_iter', 'copied', 'cloned', 'unwrap'), stop_named=False)[0] == cells]
    nset = 0
    for name, vl in sorted(vobs.items()):
        sets = []
        for bb, t in b.calls():
            if cname(t) not in ('set', 'set_all', 'or', 'and', 'xor', 'push', 'negate', 'resize', 'extend'):
                continue
            if not t['args']:
                continue
            r, _p, _v = b.op_root(t['args'][0])
            if r == vl and b.lty(op_local(t['args'][0]) or 0).startswith('&mut '):
                sets.append((bb, t))
        if not sets:
            res.bad(R, 'view:%s/never-set' % name, loc_of(b, lb), 'view `%s` is never populated' % name)
            continue
        for bb, t in sets:
            nset += 1
            after = b.reachable_after(bb)
            late = sorted(after & store_blocks)
            key = 'view:%s/set-then-cell-store' % name
            if late:
                what = sorted({p.split('::')[-1] for sb, p in stores if sb in late})
                if not any(i['key'] == R + ':' + key for i in res.instances):
                    res.bad(R, key, loc_of(b, bb),
                            'a bit of `%s` is set while cells can still be rewritten afterwards (via %s, e.g. at line %s): '
                            'the view can disagree with the final cell (a %%nonassoc conflict erases the cell to Error but the bit stays)'
                            % (name, ', '.join(what), b.term(late[0]).get('line')),
                            {'function': b.path, 'set_block': bb, 'later_store_blocks': late})
                continue
            # must be control dependent on a decode of the final cell
            final = [d for d, _ in decs if not (b.reachable_after(d) & store_blocks)]
            lps = b.loops()
            dom = [d for d in final if b.dominates(d, bb)]
            # or: in the per-state loop of the final decode (aggregated views are filled after the per-token loop)
            same_loop = [d for d in final for h, body in lps.items() if d in body and bb in body]
            if dom or same_loop:
                res.ok(R, 'view:%s/set@%s' % (name, nth(res, R, name)), loc_of(b, bb),
                       'set only after the last cell store, under a decode of the final cell')
            else:
                res.bad(R, 'view:%s/not-from-final-cell' % name, loc_of(b, bb),
                        'bit of `%s` is set without decoding the final cell first' % name)
    res.count('R16.1 set sites', nset)
    return b, views, cells, store_blocks, decs


def nth(res, R, name):
    return sum(1 for i in res.instances if i['key'].startswith('%s:view:%s/set@' % (R, name)))


def r162(facts, res, ctx):
    R = 'R16.2'
    b, views, cells, store_blocks, decs = ctx
    final = [(bb, t) for bb, t in decs if not (b.reachable_after(bb) & store_blocks)]
    if len(final) != 1:
        res.lost(R, 'expected exactly one decode(cell) after the last cell store (the final per-cell match), found %d' % len(final))
        return
    dbb, dt = final[0]
    loops = b.loops()
    headers = set(loops)
    vobs = {l: n for n, (l, ty) in views.items() if ty.startswith('vob::Vob<')}
    act = facts.adt(ST + 'Action')
    vn = {v['discr']: v['name'] for v in act['variants']}
    # the reduce-only flag: bool local assigned a constant inside the per-state loop and read on the way to the
    # reduce_states set
    rs_local = views['reduce_states'][0]
    rs_sets = [(bb, t) for bb, t in b.calls_named('set') if b.op_root(t['args'][0])[0] == rs_local]
    if len(rs_sets) != 1:
        res.lost(R, 'expected one set on reduce_states, found %d' % len(rs_sets))
        return
    w = Walker(b, facts, max_paths=512)
    ps = w.run(dbb, stop=lambda x: x in headers)
    if w.overflow:
        res.lost(R, 'path bound exceeded')
        return
    dest = dt['dest']['l']
    rows = {}
    for p in ps:
        dv = None
        for c, v in p.conds:
            if c[0] == 'discr' and is_call(c[1], 'decode'):
                dv = v
        if not isinstance(dv, int):
            continue
        kind = vn[dv]
        sets = []
        for e in p.calls(name='set'):
            # which view?
            blk = e[1]
            t = b.term(blk)
            r = b.op_root(t['args'][0])[0]
            if r in vobs:
                sets.append(vobs[r])
        inserts = [e for e in p.calls(name='insert')]
        flags = {}
        for (l, pr), val in p.env.items():
            if isinstance(l, int) and not pr and b.lty(l) == 'bool' and is_const(val) and b.name_of(l):
                flags[l] = val[1]
        rows.setdefault(kind, []).append((sorted(sets), inserts, flags, p))
    # identify the flag: a bool local set to 0 on some rows
    flagset = {}
    for kind, lst in rows.items():
        for sets, ins, flags, p in lst:
            for l, v in flags.items():
                if v == 0:
                    flagset.setdefault(l, set()).add(kind)
    spec = {
        'Reduce': dict(sets_must=[], sets_not=['state_shifts'], key=True, flag=False),
        'Shift': dict(sets_must=['state_shifts'], sets_not=[], key=False, flag=True),
        'Accept': dict(sets_must=[], sets_not=['state_shifts'], key=False, flag=True),
        'Error': dict(sets_must=[], sets_not=['state_shifts', 'state_actions'], key=False, flag=None),
    }
    flag_local = None
    cands = [l for l, ks in flagset.items() if ks == {'Shift', 'Accept'}]
    if len(cands) == 1:
        flag_local = cands[0]
    for kind in ['Shift', 'Reduce', 'Accept', 'Error']:
        if kind not in rows:
            res.bad(R, 'row:' + kind, loc_of(b, dbb), 'no path handles a final cell holding %s' % kind)
            continue
        for sets, ins, flags, p in rows[kind][:1]:
            sp = spec[kind]
            problems = []
            # state_actions: after the repair it is set here for every non-Error action; before the repair it is
            # set elsewhere (R16.1 reports that).  Here: an Error cell must never contribute, and if any non-Error row
            # sets state_actions then all three must.
            for m in sp['sets_must']:
                if m not in sets:
                    problems.append('does not set `%s`' % m)
            for m in sp['sets_not']:
                if m in sets:
                    problems.append('sets `%s`' % m)
            if sp['key']:
                okk = False
                for e in ins:
                    if len(e[3]) >= 3:
                        k = strip_ref(e[3][1])
                        if k[0] == 'tuple' and len(k[1]) == 2:
                            a, c = k[1]
                            if has_call(a, 'prod_to_rule') and has_call(c, 'len') and has_call(c, 'prod'):
                                okk = True
                if not okk:
                    problems.append('does not record the key (prod_to_rule(p), prod(p).len()) for the distinct-reduction map')
            else:
                if ins:
                    problems.append('records a reduction key')
            if flag_local is not None and sp['flag'] is not None:
                cleared = flags.get(flag_local) == 0
                if cleared != sp['flag']:
                    problems.append('reduce-only flag %s' % ('not cleared' if sp['flag'] else 'cleared'))
            if problems:
                res.bad(R, 'row:' + kind, loc_of(b, p.blocks[-1]), 'final cell %s: %s' % (kind, '; '.join(problems)),
                        {'blocks': p.blocks})
            else:
                res.ok(R, 'row:' + kind, loc_of(b, p.blocks[-1]), 'final cell %s contributes views=%s%s' % (kind, sets, ', reduction key' if sp['key'] else ''))
    if flag_local is None:
        res.bad(R, 'reduce-only-flag', loc_of(b, dbb), 'cannot identify a flag cleared exactly by Shift and Accept cells (found %s)' % {b.name_of(l): sorted(k) for l, k in flagset.items()})
    else:
        res.ok(R, 'reduce-only-flag', loc_of(b, dbb), 'flag `%s` is cleared exactly by Shift and Accept' % b.name_of(flag_local))
    # state_actions consistency (when populated in the final loop)
    sa_rows = {k for k, lst in rows.items() if any('state_actions' in s for s, _, _, _ in lst)}
    if sa_rows and sa_rows != {'Shift', 'Reduce', 'Accept'}:
        res.bad(R, 'state_actions-rows', loc_of(b, dbb), '`state_actions` is set for final cells %s; must be exactly Shift, Reduce, Accept' % sorted(sa_rows))
    elif sa_rows:
        res.ok(R, 'state_actions-rows', loc_of(b, dbb), '`state_actions` is set exactly for non-Error final cells')
    # reduce_states set <=> flag and distinct == 1: walk from the exits of the loop that fills core_reduces
    rbb = rs_sets[0][0]
    cr_local = views['core_reduces'][0]
    cr_sets = [(bb, t) for bb, t in b.calls_named('set') if b.op_root(t['args'][0])[0] == cr_local]
    inner = [h for h in loops if cr_sets and cr_sets[0][0] in loops[h]]
    if not inner:
        res.lost(R, 'core_reduces is not filled in a loop')
        return
    ih = min(inner, key=lambda h: len(loops[h]))
    exits = sorted({s2 for x in loops[ih] for s2 in b.succs(x) if s2 not in loops[ih]})
    good = bad = 0
    why = ''
    for ex in exits:
        w = Walker(b, facts, max_paths=256)
        for p in w.run(ex, stop=lambda x: x in headers):
            if p.end[0] == 'diverge':
                continue
            did = any(e[1] == rbb for e in p.calls(name='set'))
            fl = [v for c, v in p.conds if c == ('uninit', flag_local)]
            one = [v for c, v in p.conds if c[0] == 'bin' and c[1] == 'Eq' and (c[2] == ('const', 1) or c[3] == ('const', 1))]
            others = [c for c, v in p.conds if c != ('uninit', flag_local) and not (c[0] == 'bin' and c[1] == 'Eq')
                      and not (c[0] == 'uninit' and c[1] in b.drop_flags())]
            if did:
                if fl == [1] and one == [1] and not others:
                    good += 1
                else:
                    bad += 1
                    why = 'reduce_states set under conditions flag=%s one=%s others=%s' % (fl, one, [fmt_term(o) for o in others])
            else:
                # either conjunct found false, in whichever order they are tested
                if fl == [0] or one == [0]:
                    good += 1
                else:
                    bad += 1
                    why = 'reduce_states not set although flag=%s one=%s' % (fl, one)
    if good and not bad:
        res.ok(R, 'reduce-only', loc_of(b, rbb), 'reduce_states bit is set iff the flag survived and exactly one distinct reduction key was counted (%d paths)' % good)
    else:
        res.bad(R, 'reduce-only', loc_of(b, rbb), 'reduce_states must be set iff all non-error actions reduce and there is exactly one distinct (rule,len): ' + (why or 'no path found'))
    # the distinct counter is incremented by 1 per newly set core_reduces bit
    okc = False
    for bb, t in cr_sets:
        w = Walker(b, facts, max_paths=16)
        for p in w.run(bb, stop=lambda x: x in headers):
            incs = [(k, v) for k, v in p.env.items() if isinstance(k[0], int) and not k[1] and isinstance(v, tuple) and v[0] == 'bin' and v[1] == 'Add' and is_const(v[3]) and v[3][1] == 1]
            took = [v for c, v in p.conds if is_call(c, 'set')]
            # branch-free spelling: counter += i32::from(set(..)) adds the bool itself (1 exactly when the bit is new)
            direct = [(k, v) for k, v in p.env.items() if isinstance(k[0], int) and not k[1] and isinstance(v, tuple) and v[0] == 'bin' and v[1] == 'Add'
                      and any(x[0] in ('conv', 'cast') and is_call(strip_ref(x[2]), 'set') for x in (v[2], v[3]) if isinstance(x, tuple) and len(x) > 2)]
            if direct and not took:
                okc = True
                continue
            if incs and took == [1]:
                okc = True
            if incs and took != [1]:
                okc = False
                break
    if okc:
        res.ok(R, 'distinct-counter', loc_of(b, cr_sets[0][0]), 'distinct reductions are counted once per newly set core_reduces bit')
    else:
        res.bad(R, 'distinct-counter', loc_of(b, cr_sets[0][0]) if cr_sets else loc_of(b), 'distinct-reduction counter is not "+1 per newly set core_reduces bit"')


def is_call(t, name):
    return isinstance(t, tuple) and t and t[0] == 'call' and strip_generics(t[1]).endswith('::' + name)


def has_call(t, name):
    return term_has(t, lambda x: is_call(x, name))


def r163(facts, res, ctx):
    R = 'R16.3'
    b, views, cells, store_blocks, decs = ctx
    edges = b.calls_named('edges')
    if not edges:
        res.lost(R, 'no call of StateGraph::edges in StateTable::new')
        return
    loops = b.loops()
    headers = set(loops)
    # the iterators' next() whose receiver derives from edges() (one loop over the edges, or one per kind of edge)
    nxts = []
    for bb, t in b.calls_named('next'):
        st = callee_of(t).get('self_ty') or ''
        if 'hash::map::Iter<' in st and 'Symbol' in st:
            nxts.append((bb, t))
    if not nxts:
        res.lost(R, 'no iteration over the edge map found')
        return
    nb = nxts[0][0]
    ps = []
    for nb_, nt in nxts:
        w = Walker(b, facts, max_paths=4096)
        ps += w.run(nb_, stop=lambda x, nb_=nb_: x in headers and x != nb_)
        if w.overflow:
            res.lost(R, 'path bound exceeded')
            return
    item = lambda t: term_has(t, lambda x: isinstance(x, tuple) and x[:1] == ('call',) and x[1].endswith('::next') and len(x) > 3)
    gotos = views['gotos'][0]
    gl = None
    for bb, kind, x in b.defs().get(gotos, []):
        if kind == 'call' and cname(x) == 'from':
            gl = b.op_root(x['args'][0])[0]
    n_shift = n_goto = n_res = 0
    for p in ps:
        for e in p.stores():
            addr = e[5]
            r = addr[1]
            if r[0] == 'call' and r[1].endswith('::index_mut'):
                blk = e[1]
                # which vec: find index_mut call event for this term
                vec_root = None
                for ce in p.calls(name='index_mut'):
                    if ce[5] == r:
                        vec_root = b.op_root(b.term(ce[1])['args'][0])[0]
                val = e[3]
                if vec_root == gl:
                    n_goto += 1
                    ok = val[0] == 'bin' and val[1] == 'Add' and is_const(val[3]) and val[3][1] == 1 and item(val[2])
                    sym_ok = item(r[2][1])
                    if ok and sym_ok:
                        res.ok(R, 'goto-cell', loc_of(b, blk), 'goto cell := edge target + 1, indexed by the edge\'s rule')
                    else:
                        res.bad(R, 'goto-cell', loc_of(b, blk), 'goto cell is not (edge target + 1) at the edge\'s rule: value %s index %s' % (fmt_term(val), fmt_term(r[2][1])))
                elif vec_root == cells:
                    v = find_variant(val, 'Action')
                    if v is not None and v[3] == 'Shift':
                        n_shift += 1
                        if item(v[4][0]) and item(r[2][1]):
                            res.ok(R, 'shift-cell', loc_of(b, blk), 'Shift cell holds the edge target, indexed by the edge\'s token')
                        else:
                            res.bad(R, 'shift-cell', loc_of(b, blk), 'Shift target/index does not come from the edge: %s at %s' % (fmt_term(v), fmt_term(r[2][1])))
        for e in p.calls():
            c = e[2]
            if c is None:
                continue
            t = b.term(e[1])
            passes_cells = any(b.op_root(a)[0] == cells and b.lty(op_local(a) or 0).startswith('&mut ') for a in t['args'] if op_local(a) is not None)
            if passes_cells and c['name'] not in ('index_mut', 'deref_mut'):
                n_res += 1
                # some StIdx-typed argument must be the edge target and a TIdx argument the edge's token
                its = [a for a in e[3] if item(a)]
                if len(its) >= 2:
                    res.ok(R, 'resolve-call', loc_of(b, e[1]), '%s receives the edge\'s token and target' % c['name'])
                else:
                    res.bad(R, 'resolve-call', loc_of(b, e[1]), '%s is not given the edge\'s token and target' % c['name'])
    # de-duplicate instances produced by several paths
    dedup(res, R)
    if n_shift == 0:
        res.bad(R, 'shift-cell', loc_of(b, nb), 'no path stores a Shift cell from an edge')
    if n_goto == 0:
        res.bad(R, 'goto-cell', loc_of(b, nb), 'no path stores a goto cell from an edge')


def dedup(res, R):
    seen = set()
    out = []
    for i in res.instances:
        if i['rule'] == R:
            k = (i['key'], i['verdict'], i['loc'])
            if k in seen:
                continue
            seen.add(k)
        out.append(i)
    res.instances[:] = out


def find_variant(t, adt_suffix=None):
    for x in subterms(t):
        if isinstance(x, tuple) and x and x[0] == 'variant' and (adt_suffix is None or x[1].endswith(adt_suffix)):
            return x
    return None


def pow2(n):
    return isinstance(n, int) and n > 0 and n & (n - 1) == 0


def bits_canon(t):
    """one spelling for unsigned bit-field arithmetic: x % 2^k = x & (2^k - 1), x / 2^k = x >> k, x * 2^k = x << k"""
    if not isinstance(t, tuple) or not t:
        return t
    if t[0] == 'bin':
        a, d = bits_canon(t[2]), bits_canon(t[3])
        if t[1] == 'Rem' and is_const(d) and pow2(d[1]):
            return ('bin', 'BitAnd', a, ('const', d[1] - 1))
        if t[1] == 'Div' and is_const(d) and pow2(d[1]):
            return ('bin', 'Shr', a, ('const', d[1].bit_length() - 1))
        if t[1] == 'Mul' and (is_const(d) and pow2(d[1]) or is_const(a) and pow2(a[1])):
            if is_const(a):
                a, d = d, a
            return ('bin', 'Shl', a, ('const', d[1].bit_length() - 1))
        return ('bin', t[1], a, d)
    return tuple(bits_canon(x) if isinstance(x, tuple) else x for x in t)


def r164(facts, res):
    R = 'R16.4'
    enc = facts.one(R, 'StateTable::encode', crate='lrtable', name='encode', impl_re=r'statetable::StateTable<')
    dec = facts.one(R, 'StateTable::decode', crate='lrtable', name='decode', impl_re=r'statetable::StateTable<')
    act = facts.adt(ST + 'Action')
    vn = {v['discr']: v['name'] for v in act['variants']}
    etab = {}
    for p in Walker(enc, facts).run():
        dv = [v for c, v in p.conds if c == ('discr', ('param', 1))]
        if p.end[0] != 'return' or not dv or not isinstance(dv[0], int):
            continue
        r = bits_canon(p.end[1])
        if is_const(r):
            etab[vn[dv[0]]] = (r[1], None, None)
        elif r[0] == 'bin' and r[1] in ('BitOr', 'Add', 'BitXor'):
            # tag | (payload << k); with the tag below 2^k (checked against the mask further down) `+` and `^` are the same value
            tag, sh = (r[2], r[3]) if is_const(r[2]) else (r[3], r[2])
            if is_const(tag) and sh[0] == 'bin' and sh[1] == 'Shl' and is_const(sh[3]):
                payload_ok = term_has(sh[2], lambda x: x == ('param', 1))
                etab[vn[dv[0]]] = (tag[1], sh[3][1], payload_ok)
    dtab = {}
    mask = None
    for p in Walker(dec, facts).run():
        if p.end[0] != 'return':
            continue
        v = find_variant(p.end[1], 'Action')
        # the tag test: a switch on bits & mask, or an equality of bits & mask with a constant found true
        tagc = []
        for c, val in p.conds:
            c = bits_canon(c)
            if c[0] == 'bin' and c[1] == 'BitAnd':
                tagc.append((c, val))
            elif c[0] == 'bin' and c[1] == 'Eq' and val == 1:
                for x, k in ((c[2], c[3]), (c[3], c[2])):
                    if x[0] == 'bin' and x[1] == 'BitAnd' and is_const(k):
                        tagc.append((x, k[1]))
        tagc = [(c, val) for c, val in tagc if isinstance(val, int)]
        if v is None or not tagc:
            continue
        c, val = tagc[-1]
        m = c[3][1] if is_const(c[3]) else (c[2][1] if is_const(c[2]) else None)
        mask = m
        sh = None
        for x in subterms(bits_canon(p.end[1])):
            if isinstance(x, tuple) and x[:2] == ('bin', 'Shr') and is_const(x[3]):
                sh = x[3][1]
        dtab[v[3]] = (val, sh)
    for name in vn.values():
        e, d = etab.get(name), dtab.get(name)
        if e is None or d is None:
            res.bad(R, 'tag:' + name, loc_of(enc), 'cannot read the encoding of %s out of encode/decode (encode=%s decode=%s)' % (name, e, d))
            continue
        ok = e[0] == d[0] and (e[1] is None or (e[1] == d[1] and e[2])) and (mask is not None and e[0] & mask == e[0]) \
            and (e[1] is None or (1 << e[1]) - 1 == mask)
        if ok:
            res.ok(R, 'tag:' + name, loc_of(enc), 'tag %d%s decodes to the same variant' % (e[0], '' if e[1] is None else ', payload << %d' % e[1]))
        else:
            res.bad(R, 'tag:' + name, loc_of(dec), 'encode gives tag %s shift %s, decode expects tag %s shift %s under mask %s' % (e[0], e[1], d[0], d[1], mask))
    tags = [e[0] for e in etab.values()]
    if len(set(tags)) == len(tags) == len(vn):
        res.ok(R, 'tags-distinct', loc_of(enc), 'the %d tags are pairwise distinct' % len(tags))
    else:
        res.bad(R, 'tags-distinct', loc_of(enc), 'tags are not pairwise distinct: %s' % etab)
    # goto(): 0 -> None, i -> Some(i-1)
    g = facts.one(R, 'StateTable::goto', crate='lrtable', name='goto', impl_re=r'statetable::StateTable<')
    okn = oks = False
    for p in Walker(g, facts).run():
        if p.end[0] != 'return':
            continue
        v = find_variant(p.end[1], 'Option')
        # "the stored value is 0": a switch on the payload of get(), or its comparison with the constant 0
        raw = [(c, val) for c, val in p.conds if c[0] == 'field' and has_call(c, 'get')]
        for c, val in p.conds:
            if c[0] == 'bin' and c[1] == 'Eq' and isinstance(val, int) and has_call(c, 'get') and ('const', 0) in (c[2], c[3]):
                raw.append((c, 0 if val == 1 else ('ne', frozenset([0]))))
        if v is None or not raw:
            continue
        if v[3] == 'None' and raw[0][1] == 0:
            okn = True
        if v[3] == 'Some' and raw[0][1] != 0:
            sub = [x for x in subterms(v) if isinstance(x, tuple) and x[:2] == ('bin', 'Sub') and is_const(x[3]) and x[3][1] == 1]
            oks = bool(sub)
    if okn and oks:
        res.ok(R, 'goto-decode', loc_of(g), 'goto(): stored 0 -> None, stored i -> Some(i - 1)')
    else:
        res.bad(R, 'goto-decode', loc_of(g), 'goto() does not undo the +1 encoding (None-on-0=%s, minus-one=%s)' % (okn, oks))


def r165(facts, res):
    R = 'R16.5'
    b = facts.one(R, 'pager_stategraph', crate='lrtable', name='pager_stategraph')
    gcs = b.calls_named('gc')
    news = [(bb, t) for bb, t in b.calls_named('new') if 'StateGraph' in (cpath(t) or '')]
    if len(gcs) < 1 or len(news) != 1:
        res.lost(R, 'expected gc and StateGraph::new calls in pager_stategraph (gc=%d new=%d)' % (len(gcs), len(news)))
        return
    nb = news[0][0]
    if any(b.dominates(g, nb) for g, _ in gcs):
        # and the graph is built from gc's result
        gdest = gcs[0][1]['dest']['l']
        uses = False
        w = Walker(b, facts, max_paths=256)
        res.ok(R, 'gc-before-graph', loc_of(b, nb), 'gc dominates StateGraph::new: unreachable states are removed before the graph is built')
    else:
        res.bad(R, 'gc-before-graph', loc_of(b, nb), 'StateGraph::new can be reached without garbage-collecting unreachable states')


def r166(facts, res):
    """"Every state is reachable from the start state": the set of states gc() keeps is built as a reachability closure - a state
    enters the keep-set only when it was TAKEN from a work list, and the work list only ever receives the start state and the
    edge targets of a state that was itself taken from it.  Keeping "everything some edge points to" also keeps states that
    only dead states point to."""
    R = 'R16.6'
    bs = [x for x in facts.lib_bodies(['lrtable']) if strip_generics(x.path) == 'lrtable::pager::gc']
    if len(bs) != 1:
        res.lost(R, 'lrtable::pager::gc not found')
        return
    b = bs[0]
    sets = [l for l, ty in enumerate(b.locals) if ty['ty'].startswith('std::collections::hash::set::HashSet<lrtable::StIdx<usize>') and b.name_of(l)]
    cont = [bb for bb, t in b.calls_named('contains') if t['args'] and b.op_root(t['args'][0])[0] in sets]
    loops = b.loops()
    # the keep-set is the one consulted by the compaction loops (R2.6); the work list is the other one
    keep = None
    for bb, t in b.calls_named('contains'):
        r = b.op_root(t['args'][0])[0] if t['args'] else None
        if r in sets and any(b.calls_named('push', loops[h]) for h in loops if bb in loops[h]):
            keep = r
    if keep is None:
        # by role instead: the work list is the set elements are taken OUT of (remove / take / drain); the keep-set is the other one
        removed = {b.op_root(t['args'][0])[0] for bb, t in b.calls() if cname(t) in ('remove', 'take', 'drain', 'pop') and t['args']}
        cand = [l for l in sets if l not in removed]
        if len(cand) == 1 and len(sets) == 2:
            keep = cand[0]
    if keep is None and len(sets) == 1:
        keep = sets[0]
    if keep is None:
        res.lost(R, 'cannot identify the keep-set of gc')
        return
    work = [l for l in sets if l != keep]
    if not work:
        # mark-on-push form: the work list is a Vec stack; a state is put into the keep-set at the moment it is pushed
        vstacks = [l for l, ty in enumerate(b.locals) if ty['ty'].startswith('alloc::vec::Vec<lrtable::StIdx<usize>') and b.name_of(l)
                   and any(cname(t) == 'pop' and t['args'] and b.op_root(t['args'][0])[0] == l for bb, t in b.calls())]
        if len(vstacks) == 1:
            return r166_stack(b, res, R, keep, vstacks[0])
    THR = Body.THROUGH + ('unwrap', 'next', 'expect', 'copied', 'cloned')
    def from_worklist(op):
        r, projs, via = b.op_root(op, through=THR, stop_named=False)
        return r in work and 'next' in via
    bad = []
    nadd = 0
    for bb, t in b.calls():
        nm = cname(t)
        if nm not in ('insert', 'extend') or not t['args']:
            continue
        tgt = b.op_root(t['args'][0])[0]
        if tgt == keep:
            nadd += 1
            if nm == 'insert' and from_worklist(t['args'][1]):
                continue
            bad.append('line %s: a state is put into the keep-set by `%s` without having been taken from the work list: everything that some edge points to is kept, '
                       'including states only dead states point to' % (t.get('line'), nm))
        elif tgt in work:
            nadd += 1
            if nm == 'insert':
                r, projs, via = b.op_root(t['args'][1], through=THR, stop_named=False)
                if 1 <= r <= b.arg_count and 'StIdx' in b.lty(r):
                    continue        # the start state
                # an element drawn by a loop from values(edges[X]) with X taken from the work list (the extend() written out)
                r2, projs2, via2 = b.op_root(t['args'][1], through=THR + ('values', 'index', 'iter', 'into_iter'), stop_named=False)
                ix = [(b2, t2) for b2, t2 in b.calls_named('index') if b.dominates(b2, bb) and len(t2['args']) == 2]
                if 'values' in via2 and 'next' in via2 and any(from_worklist(t2['args'][1]) or from_worklist_via_from(b, t2['args'][1], work, THR) for b2, t2 in ix):
                    continue
                bad.append('line %s: something other than the start state is inserted into the work list' % t.get('line'))
            else:
                # extend(values(edges[X]) [filtered]) with X taken from the work list
                r, projs, via = b.op_root(t['args'][1], through=THR + ('values', 'filter', 'index', 'iter', 'into_iter', 'map'), stop_named=False)
                ix = [(b2, t2) for b2, t2 in b.calls_named('index') if b.dominates(b2, bb) and len(t2['args']) == 2]
                okx = any(from_worklist(t2['args'][1]) or from_worklist_via_from(b, t2['args'][1], work, THR) for b2, t2 in ix)
                if not ('values' in via and okx):
                    bad.append('line %s: the work list is extended with something other than the edge targets of the state just taken from it' % t.get('line'))
    if not work:
        bad.append('gc has no work list: the keep-set is not built by traversal from the start state')
    if bad:
        res.bad(R, 'keep-set-is-reachability', loc_of(b), '; '.join(sorted(set(bad))[:2]))
    else:
        res.ok(R, 'keep-set-is-reachability', loc_of(b), 'states enter the keep-set only from the work list; the work list receives the start state and the edge targets of taken states (%d additions)' % nadd)


def r166_stack(b, res, R, keep, stack):
    """keep-set built by a stack-based traversal that marks on push: a state is inserted into the keep-set only if it is the
    start state or an edge target of a state popped from the stack; the stack receives the start state and exactly the states
    whose insertion into the keep-set reported them new"""
    THR = Body.THROUGH + ('unwrap', 'next', 'expect', 'copied', 'cloned', 'pop', 'values', 'index', 'iter', 'into_iter', 'from', 'into')
    bad = []
    nadd = 0

    def is_start(op):
        r, _p, _v = b.op_root(op, through=Body.THROUGH + ('copied', 'cloned'), stop_named=False)
        return r is not None and 1 <= r <= b.arg_count and 'StIdx' in b.lty(r)

    def is_edge_target_of_popped(op, bb):
        r, projs, via = b.op_root(op, through=THR, stop_named=False)
        if 'values' not in via or 'next' not in via:
            return False
        # the map whose values are walked is edges[X] with X popped from the stack
        for b2, t2 in b.calls_named('index'):
            if len(t2['args']) == 2 and b.dominates(b2, bb):
                r2, p2, v2 = b.op_root(t2['args'][1], through=THR, stop_named=False)
                if r2 == stack and 'pop' in v2:
                    return True
        return False
    inserts = {}
    for bb, t in b.calls():
        nm = cname(t)
        if not t['args']:
            continue
        tgt = b.op_root(t['args'][0])[0]
        if tgt == keep and nm in ('insert', 'extend'):
            nadd += 1
            if nm == 'insert' and (is_start(t['args'][1]) or is_edge_target_of_popped(t['args'][1], bb)):
                inserts[bb] = (t, b.op_root(t['args'][1], through=Body.THROUGH + ('copied', 'cloned'))[0])
                continue
            bad.append('line %s: a state is put into the keep-set that is neither the start state nor an edge target of a state taken from the work list' % t.get('line'))
        elif tgt == stack and nm == 'push':
            nadd += 1
            if is_start(t['args'][1]):
                continue
            pr = b.op_root(t['args'][1], through=Body.THROUGH + ('copied', 'cloned'))[0]
            ok = False
            for ib, (it, ir) in inserts.items():
                if ir == pr and b.dominates(ib, bb):
                    # pushed only when the insertion reported the state new
                    for sb in b.control_deps_pd(bb):
                        ol = op_local(b.term(sb)['on'])
                        if ol is not None and b.root(ol, through=(), stop_named=False)[0] == it['dest']['l']:
                            ok = True
            if not ok:
                bad.append('line %s: something is pushed onto the work list that was not just found new in the keep-set' % t.get('line'))
        elif tgt == stack and nm not in ('pop', 'is_empty', 'len', 'push', 'drop', 'drop_in_place', 'reserve'):
            bad.append('line %s: the work list is changed by `%s`' % (t.get('line'), nm))
    if bad:
        res.bad(R, 'keep-set-is-reachability', loc_of(b), '; '.join(sorted(set(bad))[:2]))
    else:
        res.ok(R, 'keep-set-is-reachability', loc_of(b), 'mark-on-push traversal: the keep-set receives the start state and edge targets of popped states; the stack receives '
               'exactly the states found new (%d additions)' % nadd)


def from_worklist_via_from(b, op, work, THR):
    r, projs, via = b.op_root(op, through=THR + ('from', 'into'), stop_named=False)
    return r in work and 'next' in via


def r167(facts, res):
    """The derived views are flat bit vectors, one row per state.  An accessor that scans `iter_set_bits(start..end)` must scan
    a whole row: start = state * W and end = start + W for the SAME width W.  A shorter range silently drops the last columns
    (core_reduces: the productions numbered last - with %implicit_tokens those are real reductions)."""
    R = 'R16.7'
    from linarith import lin
    n = 0
    for b in facts.lib_bodies(['lrtable']):
        if b.kind == 'closure' or b.from_expansion or 'statetable::StateTable<' not in (b.impl_of or '') and 'StateTable' not in b.path:
            continue
        if not b.calls_named('iter_set_bits'):
            continue
        for p in Walker(b, facts, max_paths=64).run():
            for e in p.calls(name='iter_set_bits'):
                args = e[3]
                rng = [a for a in args if isinstance(a, tuple) and a and a[0] == 'variant' and a[3] == 'Range']
                if not rng:
                    continue
                n += 1
                st, en = rng[0][4][0], rng[0][4][1]
                key = 'row-scan:%s' % strip_generics(b.path).split('::')[-1]
                def is_len_field(y):
                    return isinstance(y, tuple) and len(y) > 3 and y[0] == 'field' and isinstance(y[3], str) and y[3].endswith('_len')
                d = lin(en) - lin(st)
                # end - start must be exactly one width: a (converted) `*_len` field of the table, once, and nothing else
                atoms = [(a, v) for a, v in d.c.items()]
                W = atoms[0][0] if len(atoms) == 1 and atoms[0][1] == 1 and term_has(atoms[0][0], is_len_field) else None
                if W is None or d.k != 0:
                    what = ('a width and the constant %d' % d.k) if W is not None else fmt_term(('lin', str(sorted((fmt_term(a)[:40], v) for a, v in atoms)), d.k))[:120]
                    res.bad(R, key, loc_of(b, e[1]), 'the scanned range is not a whole row: end - start is %s, not exactly one `*_len` width of the table' % what, {'function': b.path})
                    continue
                fld = [y for y in subterms(W) if is_len_field(y)][0]
                if not term_has(st, lambda y: y == fld):
                    res.bad(R, key, loc_of(b, e[1]), 'the row start %s is not computed from the width `%s` that the range adds to it' % (fmt_term(st)[:80], fld[3]), {'function': b.path})
                    continue
                res.ok(R, key, loc_of(b, e[1]), 'scans start .. start + %s, the whole row; the start is computed from the same width' % fmt_term(W)[:60])
    res.floor(R, 'row scans of the derived views', n, 3)


def run(facts, res):
    r166(facts, res)
    r167(facts, res)
    ctx = r161(facts, res)
    if ctx:
        r162(facts, res, ctx)
        r163(facts, res, ctx)
    r164(facts, res)
    r165(facts, res)
