"""C04 A syntax error is reported at the first lexeme that cannot continue a sentence (DESIGN.md §4 C04) - partial.

R4.1 recovery off: the Error arm of Parser::lr pushes exactly one error (state just looked up, lexeme at the unmodified
     input index, no repairs), never calls recover, and returns no value
R4.2 next_lexeme: stored lexeme below the length, otherwise a faulty zero-length EOF lexeme at the end of the last lexeme
R4.3 StateTable::action is a pure lookup of the cell (no default-reduction fallback)
R4.4 work-list discipline of the LR(1) closure (Itemset::close): a pending entry is cleared only when it is the entry just
     taken, every taken entry is cleared, and an entry is scheduled exactly when Itemset::add reports a change
R4.5 in the closure's lookahead computation FIRST(Y) of a symbol behind the dot is merged together with a test of
     nullable(Y) of the same Y (= R17.4's rule applied to lrtable::itemset)
R4.6 recovery on: every path of the Error arm that calls the recoverer pushes exactly one error - the looked-up state, the
     lexeme at the lookup index, the recoverer's repairs - whether or not repairs were found (= R7.1's rule, judged for
     this property's last sentence: an error that is not reported cannot be 'at that same lexeme')
"""
from mirlib import *
from lrstep import *

META = {
    'level': 'other',
    'explanation': 'Decides the driver-side clauses: with recovery off an Error action produces exactly one ParseError carrying '
                   'the state that was looked up and the lexeme at the very input index used for the lookup, with no repairs, '
                   'and the parse returns None without calling the recoverer (R4.1); the lexeme reported at end of input is a '
                   'faulty zero-length EOF lexeme positioned at the end of the last real lexeme (R4.2); action() returns the '
                   'decoded table cell and nothing else (R4.3); with recovery on the arm reports one error at the same state and lexeme on every path, repairs found or not (R4.6). NOT decided: that the state the parser is in rejects exactly '
                   'at the viable-prefix boundary - that is correctness of the table (C01).',
}


def r41(facts, res):
    R = 'R4.1'
    b = find_fn(facts, R, 'lr')
    tab, lookup, lh = arms(facts, R, b)
    errs = tab.get('Error', [])
    if not errs:
        res.lost(R, 'no path handles Action::Error in Parser::lr')
        return
    rk = facts.adt('lrpar::parser::RecoveryKind')
    none_d = [v['discr'] for v in rk['variants'] if v['name'] == 'None']
    if not none_d:
        res.lost(R, 'RecoveryKind::None not found')
        return
    none_d = none_d[0]
    errors_param = [i for i in range(1, b.arg_count + 1) if 'LexParseError' in b.lty(i)]
    if len(errors_param) != 1:
        res.lost(R, 'cannot identify the error list parameter of lr')
        return
    eroot = ('param', errors_param[0])
    stidx_t, tidx_t = lookup[2][1], lookup[2][2]
    la = find_calls(tidx_t, 'next_tidx')
    if not la:
        res.lost(R, 'the lookahead of the action lookup is not next_tidx(laidx)')
        return
    laidx_t = la[0][2][1]
    off = [p for p in errs if any(c[0] == 'discr' and c[1][0] == 'deref' and c[1][1][0] == 'field' and c[1][1][3] == 'rcvry_kind' and v == none_d for c, v in p.conds)
           or any(c[0] == 'discr' and c[1][0] == 'field' and c[1][3] == 'rcvry_kind' and v == none_d for c, v in p.conds)]
    if not off:
        res.bad(R, 'recovery-off-arm', loc_of(b, lh), 'no path of the Error arm is selected by RecoveryKind::None')
        return
    for i, p in enumerate(off):
        probs = []
        pu = pushes_on(p, eroot)
        if len(pu) != 1:
            probs.append('%d errors pushed (must be exactly one)' % len(pu))
        else:
            pe = find_variant(pu[0][3][1], 'ParseError')
            if pe is None:
                probs.append('pushed value is not a ParseError')
            else:
                names = [f['name'] for f in facts.adt(pe[1])['variants'][0]['fields']]
                fv = dict(zip(names, pe[4]))
                if fv.get('stidx') != stidx_t:
                    probs.append('error carries state %s, not the state just looked up' % fmt_term(fv.get('stidx')))
                lx = fv.get('lexeme')
                if not (is_call(lx, 'next_lexeme') and lx[2][1] == laidx_t):
                    probs.append('error lexeme is %s, not next_lexeme at the lookup\'s input index' % fmt_term(lx))
                rp = fv.get('repairs')
                if not (rp is not None and rp[0] == 'call' and (rp[1].endswith('::new') or 'from_elem' in rp[1] or 'into_vec' in rp[1]) and not [a for a in rp[2] if a[0] not in ('const', 'array')]):
                    if not (rp is not None and term_has(rp, lambda x: x == ('array', ()))) and not (rp is not None and rp[0] == 'call' and rp[1].endswith('Vec::<T>::new')):
                        probs.append('repairs of the error are not an empty vector: %s' % fmt_term(rp))
        if p.calls(name='recover'):
            probs.append('recover() is called although recovery is off')
        if not (p.end[0] == 'return' and find_variant(p.end[1], 'None') is not None):
            probs.append('does not return None')
        if probs:
            res.bad(R, 'recovery-off-arm#%d' % i, loc_of(b, p.blocks[-1]), '; '.join(probs), {'blocks': p.blocks})
        else:
            res.ok(R, 'recovery-off-arm#%d' % i, loc_of(b, p.blocks[-1]), 'one error (looked-up state, lexeme at the lookup index, no repairs), no recovery, returns None')


def r42(facts, res):
    R = 'R4.2'
    b = find_fn(facts, R, 'next_lexeme')
    ps = Walker(b, facts).run()
    inr = eof = None
    for p in ps:
        if p.end[0] != 'return':
            continue
        lt = [(c, v) for c, v in p.conds if c[0] == 'bin' and c[1] == 'Lt' and c[2] == ('param', 2) and has_call(c[3], 'len')]
        r = p.end[1]
        if has_call(r, 'new_faulty'):
            nf = find_calls(r, 'new_faulty')[0]
            zero_len = is_const(nf[2][2]) and nf[2][2][1] == 0
            tok_eof = has_call(nf[2][0], 'eof_token_idx')
            st = nf[2][1]
            pos_ok = (is_const(st) and st[1] == 0) or (has_call(st, 'end') and has_call(st, 'span'))
            cond_ok = all(v == 0 for c, v in lt) and lt
            # "there are no lexemes": len == 0 found true, len != 0 found false, or 0 < len found false
            empty = [v if c[1] == 'Eq' else 1 - v for c, v in p.conds if c[0] == 'bin' and c[1] in ('Eq', 'Ne') and (c[2] == ('const', 0) or c[3] == ('const', 0))
                     and isinstance(v, int)]
            empty += [1 - v for c, v in p.conds if c[0] == 'bin' and c[1] == 'Lt' and c[2] == ('const', 0) and has_call(c[3], 'len') and isinstance(v, int)]
            empty += [v for c, v in p.conds if c[0] == 'bin' and c[1] == 'Le' and c[3] == ('const', 0) and has_call(c[2], 'len') and isinstance(v, int)]
            empty += [1 - v for c, v in p.conds if c[0] == 'bin' and c[1] == 'Gt' and c[3] == ('const', 0) and has_call(c[2], 'len') and isinstance(v, int)]
            empty += [v for c, v in p.conds if c[0] == 'bin' and c[1] == 'Ge' and c[2] == ('const', 0) and has_call(c[3], 'len') and isinstance(v, int)]
            # laidx - 1 does not exist (checked_sub answered None): laidx == 0, and with laidx >= len there are no lexemes
            if not empty and cond_ok and any(c[0] == 'discr' and is_call(c[1], 'checked_sub') and strip_ref(c[1][2][0]) == ('param', 2) and c[1][2][1] == ('const', 1) and v == 0
                                               for c, v in p.conds):
                empty = [1]
            empty = sorted(set(empty))
            if is_const(st) and st[1] == 0:
                pos_ok = pos_ok and empty == [1]
            else:
                pos_ok = pos_ok and empty == [0]
            ok = zero_len and tok_eof and pos_ok and cond_ok
            eof = (eof is None or eof) and ok
            if not ok:
                res.bad(R, 'eof-lexeme', loc_of(b, p.blocks[-1]), 'EOF lexeme must be new_faulty(eof token, end of last lexeme or 0, 0) when laidx >= len: zero_len=%s eof_tok=%s pos=%s cond=%s' % (zero_len, tok_eof, pos_ok, bool(cond_ok)))
        else:
            ok = lt and all(v == 1 for c, v in lt) and term_has(r, lambda x: isinstance(x, tuple) and x and x[0] == 'index' and x[2] == ('param', 2))
            if not ok:
                ok = lt and all(v == 1 for c, v in lt) and term_has(r, lambda x: x == ('param', 2))
            inr = (inr is None or inr) and bool(ok)
            if not ok:
                res.bad(R, 'stored-lexeme', loc_of(b, p.blocks[-1]), 'below the length the stored lexeme at laidx must be returned: %s' % fmt_term(r)[:200])
    if inr:
        res.ok(R, 'stored-lexeme', loc_of(b), 'laidx < len: the stored lexeme at laidx')
    elif inr is None:
        res.bad(R, 'stored-lexeme', loc_of(b), 'no path returns a stored lexeme')
    if eof:
        res.ok(R, 'eof-lexeme', loc_of(b), 'laidx >= len: faulty zero-length EOF lexeme at the end of the last lexeme (0 for empty input)')
    elif eof is None:
        res.bad(R, 'eof-lexeme', loc_of(b), 'no path constructs the EOF lexeme')


def r43(facts, res):
    R = 'R4.3'
    b = facts.one(R, 'StateTable::action', crate='lrtable', name='action', impl_re=r'statetable::StateTable<')
    ps = [p for p in Walker(b, facts).run() if p.end[0] == 'return']
    switches = [bb for bb in b.reachable() if b.term(bb)['k'] == 'switch']
    names = [cname(t) for bb, t in b.calls()]
    allowed = {'from', 'get', 'unwrap', 'decode', 'expect', 'into'}
    if len(ps) == 1 and not switches and set(names) <= allowed and 'get' in names and 'decode' in names:
        r = ps[0].end[1]
        if is_call(r, 'decode') and has_call(r, 'get') and term_has(r, lambda x: isinstance(x, tuple) and len(x) > 3 and x[0] == 'field' and x[3] == 'actions'):
            res.ok(R, 'pure-lookup', loc_of(b), 'action(st, tok) = decode(actions.get(st, tok)): one path, no fallback')
            return
    res.bad(R, 'pure-lookup', loc_of(b), 'StateTable::action is no longer a single-path decode of the cell (callees: %s, branches: %d)' % (sorted(set(names)), len(switches)))


def r44(facts, res):
    """Work-list discipline of the LR(1) closure (lrtable Itemset::close): the bit field of pending (production, dot 0) items
    (a) has a bit cleared only for the entry just TAKEN from it, (b) gets a bit set exactly when Itemset::add reports that it
    added/widened that item, (c) every taken entry is cleared.  A pending entry that is cancelled without being expanded, or
    a widened item that is not rescheduled, leaves the state without closure items / lookaheads: the table then lacks
    actions and the parser reports an error at a lexeme that can continue a sentence."""
    R = 'R4.4'
    bs = [x for x in facts.lib_bodies(['lrtable']) if strip_generics(x.path) == 'lrtable::itemset::Itemset::close']
    if len(bs) != 1:
        res.lost(R, 'Itemset::close not found')
        return
    b = bs[0]
    loops = b.loops()
    # the scratch look-ahead set (what Itemset::add is given) is not the pending-work bit field: a debug_assert over it is no anchor
    _adds = [t for _bb, t in b.calls_named('add') if 'Itemset' in (cpath(t) or '') and len(t['args']) >= 4]
    _ctx = b.op_root(_adds[0]['args'][3])[0] if _adds else None
    isb = [(bb, t) for bb, t in b.calls_named('iter_set_bits') if not (t['args'] and _ctx is not None and b.op_root(t['args'][0])[0] == _ctx)]
    if len(isb) != 1 or not loops:
        res.lost(R, 'expected one iter_set_bits call (the take from the pending bit field) in Itemset::close, found %d' % len(isb))
        return
    W = b.op_root(isb[0][1]['args'][0])[0]
    outer = max((h for h in loops if isb[0][0] in loops[h]), key=lambda h: len(loops[h]))
    w = widening_walker(b, facts)
    w.widen_headers = set(loops) - {outer}
    w.widen_assigned = {h: loop_assigned(b, h) for h in w.widen_headers}
    ps = w.run(outer, stop=lambda x: x not in loops[outer])
    if w.overflow or not ps:
        res.lost(R, 'path bound exceeded in Itemset::close')
        return
    def on_w(e):
        t = b.term(e[1])
        return t['k'] == 'call' and t['args'] and b.op_root(t['args'][0])[0] == W
    bad = []
    nclear = nset = ntake = 0
    for p in ps:
        took = any(c[0] == 'discr' and has_call(c, 'iter_set_bits') and v == 1 for c, v in p.conds)
        added = [c for c, v in p.conds if is_call(c, 'add') and 'Itemset' in c[1] and v == 1]
        clears, sets = [], []
        for e in p.calls(name='set'):
            if 'Vob' not in (e[2].get('self_ty') or e[2]['path']) or not on_w(e) or len(e[3]) < 3:
                continue
            if e[3][2] == ('const', 0):
                clears.append(e)
            elif e[3][2] == ('const', 1):
                sets.append(e)
            else:
                bad.append('line %s: the pending bit field is assigned a computed value' % b.term(e[1]).get('line'))
        for e in clears:
            nclear += 1
            if not has_call(e[3][1], 'iter_set_bits'):
                bad.append('line %s: a pending entry is cleared on a path where the item being processed did not come from the pending set '
                           '(index %s): an item queued earlier for expansion is cancelled unexpanded' % (b.term(e[1]).get('line'), fmt_term(e[3][1])[:70]))
        if took:
            ntake += 1
            if not clears and p.end[0] in ('loop', 'stop', 'return'):
                bad.append('an entry taken from the pending set is not cleared on the path through blocks %s' % p.blocks[:12])
        for e in sets:
            nset += 1
            if not added:
                bad.append('line %s: an entry is scheduled on a path where Itemset::add did not report a change' % b.term(e[1]).get('line'))
        if added and not sets:
            bad.append('Itemset::add reported a new/widened item but it is not scheduled for expansion (path through blocks %s)' % p.blocks[-8:])
    if bad:
        res.bad(R, 'closure-worklist', loc_of(b, outer), '; '.join(sorted(set(bad))[:3]), {'function': b.path})
    else:
        res.ok(R, 'closure-worklist', loc_of(b, outer), 'over %d paths: %d clears, each of the entry just taken; %d taken entries all cleared; %d schedulings, each under a reported change and none missing'
               % (len(ps), nclear, ntake, nset))
    res.floor(R, 'paths through the closure loop', len(ps), 10)


def run(facts, res):
    r41(facts, res)
    r42(facts, res)
    r43(facts, res)
    r44(facts, res)
    # with recovery on: the arm that calls the recoverer reports exactly one error, at the looked-up state and lexeme,
    # whether or not repairs were found (the rule is R7.1's, judged here for C04's last sentence)
    import c07
    c07.r71(facts, res, 'R4.6')
    # the closure's work list (R4.4) trusts what Itemset::add reports (= R1.6)
    import c01
    c01.r16(facts, res, 'R4.7')
    # R4.5 = C17's R17.4 applied to the closure's lookahead computation: FIRST(Y) of a symbol behind the dot is merged into the
    # context together with a test of nullable(Y) of the same Y
    import c17
    c17.r174(facts, res, R='R4.5', crates=('lrtable',), prefixes=('lrtable::itemset::',), floor=1)
