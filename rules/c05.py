"""C05 Every reported repair sequence repairs; parsing continues as if it were applied (DESIGN.md §4 C05) - partial.

R5.1 both sites that materialise an inserted token build Lexeme::new_faulty(tok, start of the next real lexeme, 0) and feed it to
     an LR step over exactly [laidx, laidx+1)
R5.2 success criterion: ends_with_parse_at_least_shifts counts against one constant (3); success = that or Accept
R5.3 recover replays element 0 of the very vector it returns, on the real stacks, and returns that replay's index
R5.4 LR-step agreement between lr (driver), lr_upto (replay) and lr_cactus (search)
"""
from mirlib import *
from lrstep import *

META = {
    'level': 'other',
    'explanation': 'Structural necessary conditions of "the parser goes on as if the first repair had been applied": inserted '
                   'tokens appear as zero-length faulty lexemes at the start of the next real lexeme in both the search and the '
                   'replay (R5.1); a search node succeeds iff its last 3 repairs are shifts or the table accepts (R5.2); the '
                   'sequence replayed on the real stacks is element 0 of the vector returned to the caller, and the returned '
                   'input index is the replay\'s (R5.3); the three copies of the LR step (driver, replay, search) use the same '
                   'action lookup key, the same reduction (rule of production, pop |production|, push goto(prior, rule)), the '
                   'same shift (push target, advance by one) and stop on Accept/Error without touching the stack (R5.4). '
                   'NOT decided: validity of every reconstructed sequence and equality of the final value with a re-parse.',
}

PARSE_AT_LEAST = 3


def r51(facts, res, R='R5.1'):
    sites = []
    for b in facts.lib_bodies(['lrpar']):
        if not b.path.startswith('lrpar::cpctplus::') or b.from_expansion:
            continue
        for bb, t in b.calls_named('new_faulty'):
            sites.append((b, bb, t))
    res.floor(R, 'sites materialising an inserted lexeme', len(sites), 2)
    for b, bb, t in sites:
        key = 'insert-site:%s' % strip_generics(b.path).split('::')[-1]
        w = widening_walker(b, facts, max_paths=2048)
        ps = [p for p in w.run(0) if any(e[1] == bb for e in p.calls(name='new_faulty'))]
        if not ps:
            res.bad(R, key, loc_of(b, bb), 'cannot reach the insertion on any path')
            continue
        probs = set()
        for p in ps:
            nf = [e for e in p.calls(name='new_faulty') if e[1] == bb][0]
            tok, st, ln = nf[3]
            if not (is_const(ln) and ln[1] == 0):
                probs.add('inserted lexeme is not zero-length')
            stc = strip_ref(st)
            if not (is_call(stc, 'start') and has_call(stc, 'span') and has_call(stc, 'next_lexeme')):
                probs.add('inserted lexeme does not start at next_lexeme(laidx).span().start(): %s' % fmt_term(st)[:100])
                continue
            nl = find_calls(stc, 'next_lexeme')[0]
            la = nl[2][1]
            steps = [e for e in p.calls() if e[2] is not None and e[2]['name'] in ('lr_cactus', 'lr_upto')]
            fed = [e for e in steps if find_variant(e[3][1], 'Some') is not None and term_has(e[3][1], lambda x: x == nf[5])]
            if not fed:
                probs.add('the inserted lexeme is not fed to an LR step as lexeme_prefix')
                continue
            e = fed[0]
            if e[3][2] != la:
                probs.add('LR step starts at %s but the lexeme was positioned for index %s' % (fmt_term(e[3][2])[:60], fmt_term(la)[:60]))
            end = e[3][3]
            if not (end[0] == 'bin' and end[1] == 'Add' and end[2] == la and end[3] == ('const', 1)):
                probs.add('LR step over the inserted lexeme does not end at laidx + 1')
        if probs:
            res.bad(R, key, loc_of(b, bb), '; '.join(sorted(probs)))
        else:
            res.ok(R, key, loc_of(b, bb), 'new_faulty(tok, next_lexeme(laidx).span().start(), 0) fed to an LR step over [laidx, laidx+1)')


def r52(facts, res, R='R5.2'):
    b = facts.one(R, 'ends_with_parse_at_least_shifts', crate='lrpar', name='ends_with_parse_at_least_shifts')
    takes = b.calls_named('take')
    tk = None
    for bb, t in takes:
        c = t['args'][1].get('const')
        if c and 'int' in c:
            tk = c['int']
    eqs = []
    for p in widening_walker(b, facts).run():
        if p.end[0] == 'return' and p.end[1][0] == 'bin' and p.end[1][1] == 'Eq':
            for s in (p.end[1][2], p.end[1][3]):
                if is_const(s):
                    eqs.append(s[1])
    unit_closure = None
    if tk is None and not eqs:
        # the same test as `(0..N).all(|_| matches!(it.next(), Some(<a shift>)))`: N elements are drawn, all N must be shifts
        for bb, t in b.calls_named('all'):
            rl = b.op_root(t['args'][0], through=('into_iter', 'iter'), stop_named=False)[0] if t['args'] else None
            rng = [rv for _bb, kind, rv in b.defs().get(rl, ()) if kind == 'stmt' and 'agg' in rv and isinstance(rv['agg'], dict) and rv['agg'].get('adt', '').endswith('ops::range::Range')]
            cl = op_local(t['args'][1]) if len(t['args']) > 1 else None
            cbs = [facts.bodies.get(rv['agg']['closure']) for _bb, kind, rv in b.defs().get(cl, ()) if kind == 'stmt' and 'agg' in rv and isinstance(rv['agg'], dict) and 'closure' in rv['agg']]
            if len(rng) == 1 and len(cbs) == 1 and cbs[0] is not None:
                lo, hi = [(o.get('const') or {}).get('int') for o in rng[0]['ops'][:2]]
                cps = Walker(cbs[0], facts, max_paths=64).run()
                one_next = bool(cps) and all(len([e for e in p.calls(name='next')]) == 1 for p in cps if p.end[0] == 'return')
                if lo == 0 and isinstance(hi, int) and one_next and b.lty(0) == 'bool':
                    rps = Walker(b, facts, max_paths=16).run()
                    if rps and all(p.end[0] == 'return' and is_call(p.end[1], 'all') for p in rps):
                        tk, eqs, unit_closure = hi, [hi], cbs[0]
    if tk is None or not eqs:
        res.lost(R, 'cannot read the constants of ends_with_parse_at_least_shifts (take=%s, eq=%s)' % (tk, eqs))
    elif tk == PARSE_AT_LEAST and set(eqs) == {PARSE_AT_LEAST}:
        res.ok(R, 'parse-at-least', loc_of(b), 'looks at the last %d repairs and requires %d shifts' % (tk, eqs[0]))
    else:
        res.bad(R, 'parse-at-least', loc_of(b), 'inspects the last %s repairs but requires %s shifts; the documented criterion is 3 and 3' % (tk, sorted(set(eqs))))
    # what counts as a shift: in both places that count trailing shifts (the success test and the node-compatibility
    # test) an element is counted iff it is Repair(Shift) or Merge(Shift, _) - a merged Insert/Delete is not a shift
    rpa = facts.adt('lrpar::cpctplus::Repair')
    rma = facts.adt('lrpar::cpctplus::RepairMerge')
    shift_d = [v['discr'] for v in rpa['variants'] if v['name'] == 'Shift'][0]
    rmn = {v['discr']: v['name'] for v in rma['variants']}
    counters = [b] if unit_closure is None else []
    if unit_closure is not None:
        # the element predicate: true (the element counts) only for Repair(Shift) / Merge(Shift, _)
        okc = True
        n1 = 0
        for p in Walker(unit_closure, facts, max_paths=64).run():
            if p.end[0] != 'return':
                continue
            if p.end[1] == ('const', 0):
                continue
            n1 += 1
            inner = [(c, v) for c, v in p.conds if c[0] == 'discr' and c[1][0] == 'field' and c[1][1][0] == 'downcast' and term_has(c[1], lambda x: isinstance(x, tuple) and x and x[0] == 'call' and x[1].endswith('::next'))
                     and not (c[1][1][1][0] == 'call')]
            if p.end[1] != ('const', 1) or not any(v == shift_d for c, v in inner):
                okc = False
        key = 'shift-count:ends_with_parse_at_least_shifts'
        if okc and n1:
            res.ok(R, key, loc_of(unit_closure), 'an element is counted iff it is Repair(Shift) or Merge(Shift, _)')
        else:
            res.bad(R, key, loc_of(unit_closure), 'an element is counted as a shift without checking that its repair IS a shift (a merged Insert/Delete would count)')
    for eqb in facts.lib_bodies(['lrpar']):
        if eqb.kind == 'closure' and 'PathFNode' in (eqb.parent or '') and eqb.loops():
            counters.append(eqb)
    for cb in counters:
        loops = cb.loops()
        if len(loops) != 1:
            res.lost(R, '%s: expected one counting loop' % cb.path)
            continue
        h = list(loops)[0]
        w2 = Walker(cb, facts, max_paths=64)
        ps2 = [p for p in w2.run(h, stop=lambda x: x == h or x not in loops[h]) if p.end in (('loop', h), ('stop', h))]
        okc = bool(ps2)
        seenv = set()
        for p in ps2:
            incs = [(k, v) for k, v in p.env.items() if isinstance(k[0], int) and not k[1] and isinstance(v, tuple) and v[0] == 'bin' and v[1] == 'Add' and v[3] == ('const', 1)]
            if not incs:
                continue  # a cycle that does not count (none expected)
            outer = [v for c, v in p.conds if c[0] == 'discr' and c[1][0] in ('deref', 'field', 'call', 'uninit') and not term_has(c[1], lambda x: isinstance(x, tuple) and x[0] == 'downcast' and x[1][0] != 'call')]
            inner = [(c, v) for c, v in p.conds if c[0] == 'discr' and c[1][0] == 'field' and c[1][1][0] == 'downcast' and c[1][1][1][0] != 'call']
            ov = [v for c, v in p.conds if c[0] == 'discr' and isinstance(v, int) and v in rmn and not (c[1][0] == 'field' and c[1][1][0] == 'downcast' and c[1][1][1][0] != 'call')
                  and not (c[1][0] == 'call')]
            kind = rmn.get(ov[-1]) if ov else None
            seenv.add(kind)
            if not any(v == shift_d for c, v in inner):
                okc = False
                res.bad(R, 'shift-count:%s' % strip_generics(cb.path).split('::')[-2 if cb.kind == 'closure' else -1], loc_of(cb, h),
                        'an element of kind %s is counted as a shift without checking that its repair IS a shift (a merged Insert/Delete would count)' % (kind or '?'))
                break
        if okc and ps2:
            res.ok(R, 'shift-count:%s' % strip_generics(cb.path).split('::')[-2 if cb.kind == 'closure' else -1], loc_of(cb, h),
                   'an element is counted iff it is Repair(Shift) or Merge(Shift, _)')
    # the success closure
    rec = [x for x in facts.lib_bodies(['lrpar']) if x.name == 'recover' and 'CPCTPlus' in (x.impl_of or '')]
    if len(rec) != 1:
        res.lost(R, 'CPCTPlus::recover not found')
        return
    succ = [c for c in facts.closures_of(rec[0]) if c.calls_named('ends_with_parse_at_least_shifts')]
    if len(succ) != 1:
        res.lost(R, 'success closure not found')
        return
    c = succ[0]
    act = facts.adt('lrtable::statetable::Action')
    acc = [v['discr'] for v in act['variants'] if v['name'] == 'Accept'][0]
    ok = True
    why = ''
    n = 0
    for p in Walker(c, facts).run():
        if p.end[0] != 'return':
            continue
        n += 1
        e = [v for cd, v in p.conds if is_call(cd, 'ends_with_parse_at_least_shifts')]
        a = [(cd, v) for cd, v in p.conds if cd[0] == 'discr' and is_call(cd[1], 'action')]
        r = p.end[1]
        if e == [1]:
            if r != ('const', 1):
                ok, why = False, 'three trailing shifts must be a success'
        elif e == [0]:
            # `action(..) == Action::Accept` returned as a value instead of a match on the action
            eqf = None
            if r[0] == 'bin' and r[1] == 'Eq':
                for x, y in ((r[2], r[3]), (r[3], r[2])):
                    if is_call(strip_ref(x), 'action') and find_variant(y, 'Accept', adt_suffix='Action') is not None:
                        eqf = strip_ref(x)
            if eqf is not None:
                if not (has_call(eqf[2][2], 'next_tidx') and term_has(eqf[2][1], lambda x: isinstance(x, tuple) and len(x) > 3 and x[0] == 'field' and x[3] == 'pstack')):
                    ok, why = False, 'Accept test does not look up (top of the node\'s stack, next_tidx(node.laidx))'
            elif not a:
                ok, why = False, 'without three trailing shifts the table action must decide'
            else:
                cd, v = a[0]
                is_acc = (v == acc)
                if r != ('const', int(is_acc)):
                    ok, why = False, 'success must be exactly "action is Accept" (got %s for discriminant %s)' % (fmt_term(r), v)
                lk = cd[1]
                if not (has_call(lk[2][2], 'next_tidx') and term_has(lk[2][1], lambda x: isinstance(x, tuple) and len(x) > 3 and x[0] == 'field' and x[3] == 'pstack')):
                    ok, why = False, 'Accept test does not look up (top of the node\'s stack, next_tidx(node.laidx))'
    if ok and n >= 2:
        res.ok(R, 'success-criterion', loc_of(c), 'success = last three repairs are shifts, or action(top, next_tidx(laidx)) is Accept')
    else:
        res.bad(R, 'success-criterion', loc_of(c), why or 'could not read the success closure')


def r53(facts, res):
    R = 'R5.3'
    rec = [x for x in facts.lib_bodies(['lrpar']) if x.name == 'recover' and 'CPCTPlus' in (x.impl_of or '')]
    if len(rec) != 1:
        res.lost(R, 'CPCTPlus::recover not found')
        return
    b = rec[0]
    ar = b.calls_named('apply_repairs')
    if len(ar) != 1:
        res.lost(R, 'expected one apply_repairs call in recover')
        return
    bb, t = ar[0]
    # last argument: &vec[0]; the same vec is moved into the returned tuple
    r, projs, via = b.op_root(t['args'][-1], through=Body.THROUGH + ('index',))
    idx_ok = False
    for d in b.defs().get(op_local(t['args'][-1]) or -1, []):
        pass
    # find the index call feeding the last argument
    chain_l = op_local(t['args'][-1])
    zero = False
    seen = set()
    while chain_l is not None and chain_l not in seen:
        seen.add(chain_l)
        ds = b.defs().get(chain_l, [])
        if len(ds) != 1:
            break
        if ds[0][1] == 'call' and cname(ds[0][2]) == 'index':
            ia = ds[0][2]['args'][1]
            c = ia.get('const')
            if c is None and op_local(ia) is not None:
                for d2 in b.defs().get(op_local(ia), []):
                    if d2[1] == 'stmt' and 'use' in d2[2]:
                        c = d2[2]['use'].get('const')
            zero = bool(c and c.get('int') == 0)
            break
        x = ds[0][2]
        if ds[0][1] == 'stmt':
            pl = op_place(x['use']) if 'use' in x else x.get('ref')
            chain_l = pl['l'] if pl else None
        elif cname(x) in Body.THROUGH and x['args']:
            chain_l = op_local(x['args'][0])
        else:
            break
    ret_vec = None
    for b2, i, st in b.stmts():
        if st['k'] == 'assign' and st['lhs']['l'] == 0 and not st['lhs']['p'] and st['rv'].get('agg') == 'tuple':
            ops = st['rv']['ops']
            if op_local(ops[0]) == t['dest']['l'] or b.op_root(ops[0])[0] == t['dest']['l']:
                ret_vec = b.op_root(ops[1])[0]
    real = 0
    for a in t['args']:
        l = op_local(a)
        if l is None:
            continue
        # &mut Some(astack) / &mut Some(spans): an Option wrapped around one of recover's own parameters
        rr, pj, vv = b.op_root(a)
        if b.lty(l).startswith('&mut core::option::Option<&mut alloc::vec::Vec<') and 1 <= rr <= b.arg_count:
            real += 1
    probs = []
    if not zero:
        probs.append('the replayed sequence is not element 0')
    if ret_vec is None or ret_vec != r:
        probs.append('the replayed sequence is not taken from the vector that is returned to the caller')
    if real != 2:
        probs.append('replay does not run on the real value and span stacks (Some(astack), Some(spans))')
    if probs:
        res.bad(R, 'replay-first', loc_of(b, bb), '; '.join(probs))
    else:
        res.ok(R, 'replay-first', loc_of(b, bb), 'apply_repairs(.., Some(astack), Some(spans), &rnk_rprs[0]) and (its index, rnk_rprs) is returned')


def step_signature(facts, R, b):
    tab, lookup, lh = arms(facts, R, b)
    sig = {}
    # lookup key
    tid = lookup[2][2]
    sig['lookup'] = ('tok_id-or-next_tidx' if (has_call(tid, 'next_tidx') or has_call(tid, 'tok_id')) else fmt_term(tid)[:60])
    sig['lookup_top'] = bool(has_call(lookup[2][1], 'last') or has_call(lookup[2][1], 'val'))
    red = tab.get('Reduce', [])
    s = set()
    for p in red:
        if p.end[0] == 'diverge':
            continue
        ptr = [e for e in p.calls(name='prod_to_rule')]
        pr = [e for e in p.calls(name='prod')]
        gt = [e for e in p.calls(name='goto')]
        ok = bool(ptr and pr and gt)
        if ok:
            pidx = ptr[0][3][1]
            same_p = pr[0][3][1] == pidx and pidx[0] == 'field' and is_call(strip_proj(pidx), 'action')
            goto_rule = gt[0][3][2] == ptr[0][5]
            pushes = [e for e in p.calls() if e[2] is not None and e[2]['name'] in ('push', 'child') and has_call(e[3][-1], 'goto') and has_call(e[3][-1], 'unwrap')]
            pops = [e for e in p.calls() if e[2] is not None and e[2]['name'] in ('drain', 'parent', 'truncate') and (has_call(e[3][-1], 'prod') or e[2]['name'] == 'parent')]
            s.add((same_p, goto_rule, bool(pushes), bool(pops)))
        else:
            s.add(('missing', bool(ptr), bool(pr), bool(gt)))
    sig['reduce'] = sorted(s, key=str)
    # a reduction may pop inside a loop (`for _ in 0..|prod|`): accept an arm that runs through such a loop
    loops = b.loops()
    pop_loops = {h for h in loops if any(cname(t) == 'parent' for bb, t in b.calls(blocks=loops[h])) and h != lh}
    if pop_loops:
        s2 = set()
        for p in red:
            if p.end[0] == 'diverge':
                continue
        sig['reduce'] = sorted({(a, g, pu, po or bool(pop_loops)) if a != 'missing' else (a, g, pu, po) for (a, g, pu, po) in s}, key=str)
    sh = tab.get('Shift', [])
    s = set()
    for p in sh:
        pushes = [e for e in p.calls() if e[2] is not None and e[2]['name'] in ('push', 'child')
                  and e[3][-1][0] == 'field' and is_call(strip_proj(e[3][-1]), 'action')]
        adv = False
        for (l, pj), v in p.env.items():
            if isinstance(l, int) and not pj and b.lty(l) == 'usize' and isinstance(v, tuple) and v[0] == 'bin' and v[1] == 'Add' and v[3] == ('const', 1) \
                    and v[2] in (('param', l), ('uninit', l)):
                adv = True
        s.add((bool(pushes), adv))
    sig['shift'] = sorted(s, key=str)
    for k in ('Accept', 'Error'):
        s = set()
        for p in tab.get(k, []):
            if p.end[0] == 'diverge':
                continue
            stack_ops = [e for e in p.calls() if e[2] is not None and e[2]['name'] in ('child', 'parent') or
                         (e[2] is not None and e[2]['name'] in ('push', 'drain', 'pop') and e[3] and 'StIdx' in ' '.join(e[2].get('args', [])))]
            if k == 'Error' and p.calls(name='recover'):
                continue
            s.add(bool(stack_ops))
        sig[k.lower() + '_touches_stack'] = sorted(s)
    return sig


def strip_proj(t):
    while isinstance(t, tuple) and t and t[0] in ('field', 'downcast', 'deref', 'ref'):
        t = t[1]
    return t


def r54(facts, res):
    R = 'R5.4'
    sigs = {}
    for name in ('lr', 'lr_upto', 'lr_cactus'):
        b = find_fn(facts, R, name)
        sigs[name] = (step_signature(facts, R, b), b)
    want_reduce = [(True, True, True, True)]
    want_shift = [(True, True)]
    for name, (sg, b) in sigs.items():
        probs = []
        if sg['lookup'] != 'tok_id-or-next_tidx' or not sg['lookup_top']:
            probs.append('action lookup key is not (top of stack, lexeme_prefix.tok_id() / next_tidx(laidx))')
        if sg['reduce'] != want_reduce:
            probs.append('reduce is not: rule=prod_to_rule(p), pop |prod(p)|, push goto(prior, rule).unwrap() (observed %s)' % sg['reduce'])
        if sg['shift'] != want_shift:
            probs.append('shift is not: push the target state and advance the input by one (observed %s)' % sg['shift'])
        if sg['accept_touches_stack'] not in ([False], []):
            probs.append('Accept modifies the parse stack')
        if sg['error_touches_stack'] not in ([False], []):
            probs.append('Error modifies the parse stack')
        if probs:
            res.bad(R, 'lr-step:' + name, loc_of(b), '; '.join(probs))
        else:
            res.ok(R, 'lr-step:' + name, loc_of(b), 'same LR step as its siblings (lookup key, reduce, shift, accept/error)')


def r55(facts, res):
    """reported repairs name the lexemes they consume: Delete and Shift each consume one input lexeme, Insert none"""
    R = 'R5.5'
    fs = [x for x in facts.lib_bodies(['lrpar']) if x.name == 'repair_to_parse_repair']
    if len(fs) != 1:
        res.lost(R, 'repair_to_parse_repair not found')
        return
    allc = facts.closures_of(fs[0])
    clos = [c for c in allc if c.calls_named('next_lexeme')]
    # a helper closure that hands out the lexeme under the cursor and steps the cursor (`|| { let l = next_lexeme(i); i += 1; l }`),
    # called from the mapping closure
    consumer = None
    mapping = [c for c in allc if 'ParseRepair' in c.lty(0) and not c.calls_named('next_lexeme')]
    if len(clos) == 1 and len(mapping) == 1 and 'ParseRepair' not in clos[0].lty(0):
        cps = [p for p in Walker(clos[0], facts, max_paths=16).run() if p.end[0] == 'return']
        if len(cps) == 1 and is_call(strip_ref(cps[0].end[1]), 'next_lexeme'):
            adv = [e for e in cps[0].stores() if isinstance(e[3], tuple) and e[3][0] == 'bin' and e[3][1] == 'Add' and e[3][3] == ('const', 1)]
            nl = strip_ref(cps[0].end[1])
            if len(adv) == 1 and nl[2][1] == adv[0][3][2]:
                consumer = clos[0]
                clos = mapping
    rp = facts.adt('lrpar::cpctplus::Repair')
    vn = {v['discr']: v['name'] for v in rp['variants']}
    want = {'InsertTerm': ('Insert', False), 'Delete': ('Delete', True), 'Shift': ('Shift', True)}
    seen = {}

    def kind_of(conds, is_elem):
        """the one Repair variant the path's tests of the element leave possible"""
        poss = set(vn)
        hit = False
        for cd, v in conds:
            if cd[0] != 'discr' or not is_elem(cd[1]):
                continue
            hit = True
            if isinstance(v, int):
                poss &= {v}
            elif isinstance(v, tuple) and v[0] == 'ne':
                poss -= set(v[1])
        return vn[next(iter(poss))] if hit and len(poss) == 1 else None

    if len(clos) == 1:
        # form A: from.iter().map(|y| ..).collect() - one call of the closure is one element
        c = clos[0]
        for p in Walker(c, facts, max_paths=64).run():
            if p.end[0] != 'return':
                continue
            kind = kind_of(p.conds, lambda t: term_has(t, lambda x: x == ('param', 2)))
            if kind is None:
                continue
            out = p.end[1][3] if p.end[1][0] == 'variant' else '?'
            adv = [e for e in p.stores() if isinstance(e[3], tuple) and e[3][0] == 'bin' and e[3][1] == 'Add' and e[3][3] == ('const', 1)]
            lex_ok = True
            if consumer is not None:
                # the consuming helper is called exactly when a lexeme is consumed, and its result is the lexeme reported
                cc = [e for e in p.calls() if e[2] and (e[2].get('resolved') or e[2].get('path')) == consumer.path]
                adv = cc
                if kind in ('Delete', 'Shift'):
                    pay = p.end[1][4][0] if p.end[1][0] == 'variant' and p.end[1][4] else None
                    lex_ok = len(cc) == 1 and pay is not None and term_has(pay, lambda x: isinstance(x, tuple) and x and x[0] == 'call' and x[1] == (cc[0][2].get('resolved') or cc[0][2].get('path')) or x == cc[0][5] if len(cc[0]) > 5 else False)
                    lex_ok = lex_ok or (len(cc) == 1 and pay is not None and any(is_call(x, 'call_mut') or is_call(x, 'call') or is_call(x, 'call_once') for x in subterms(pay)))
            elif kind in ('Delete', 'Shift'):
                nl = find_calls(p.end[1], 'next_lexeme')
                lex_ok = bool(nl) and bool(adv) and nl[0][2][1] == adv[0][3][2]
            seen[kind] = (out, bool(adv), lex_ok)
    elif not clos:
        # form B: an explicit loop over the repairs that pushes one reported repair per element
        c = fs[0]
        loops = c.loops()
        hs = [h for h in loops if any('Repair' in (callee_of(t).get('self_ty') or '') for bb, t in c.calls_named('next', loops[h]))]
        if len(hs) != 1:
            res.lost(R, 'repair_to_parse_repair has neither one mapping closure nor one loop over the repairs')
            return
        h = hs[0]
        from lrstep import widening_walker, loop_assigned
        w = widening_walker(c, facts, max_paths=256)
        w.widen_headers = set(loops) - {h}
        w.widen_assigned = {x: loop_assigned(c, x) for x in w.widen_headers}
        for p in w.run(h, stop=lambda x: x not in loops[h]):
            if p.end != ('loop', h):
                continue
            kind = kind_of(p.conds, lambda t: not is_call(strip_ref(t), 'next') and term_has(t, lambda x: is_call(x, 'next')))
            if kind is None:
                continue
            pushes = [e for e in p.calls(name='push') if find_variant(e[3][1], adt_suffix='ParseRepair') is not None]
            if len(pushes) != 1:
                seen[kind] = ('%d values pushed' % len(pushes), False, False)
                continue
            pv = find_variant(pushes[0][3][1], adt_suffix='ParseRepair')
            out = pv[3]
            # the running index: a usize local that ends the round one higher than it began
            advl = [(k, v) for k, v in p.env.items() if isinstance(k[0], int) and not k[1] and c.lty(k[0]) == 'usize' and isinstance(v, tuple) and v[0] == 'bin' and v[1] == 'Add'
                    and v[3] == ('const', 1) and v[2] in (('param', k[0]), ('uninit', k[0]))]
            lex_ok = True
            if kind in ('Delete', 'Shift'):
                nl = find_calls(pv, 'next_lexeme')
                lex_ok = bool(nl) and bool(advl) and nl[0][2][1] == advl[0][1][2]
            seen[kind] = (out, bool(advl), lex_ok)
    else:
        res.lost(R, 'expected one mapping closure in repair_to_parse_repair, found %d' % len(clos))
        return
    for kind, (wout, wadv) in want.items():
        got = seen.get(kind)
        key = 'repair-map:' + kind
        if got is None:
            res.bad(R, key, loc_of(c), 'no path maps Repair::%s' % kind)
        elif got[0] == wout and got[1] == wadv and got[2]:
            res.ok(R, key, loc_of(c), '%s -> %s%s' % (kind, wout, '(next_lexeme(laidx)), laidx += 1' if wadv else ', input index unchanged'))
        else:
            res.bad(R, key, loc_of(c), 'Repair::%s is reported as %s, input index %s%s: every Delete and Shift consumes exactly one input lexeme (the one it names), an Insert none'
                    % (kind, got[0], 'advanced' if got[1] else 'NOT advanced', '' if got[2] else ', lexeme not taken at the running index'))


def r56(facts, res, R='R5.6'):
    """Replaying a reported sequence on the real stacks does what the sequence says: Insert parses one synthesised (faulty)
    lexeme over [i, i+1) and leaves the input index alone, Delete moves the index on by one and parses nothing, Shift parses
    the real input over exactly [i, i+1) and continues from the index that parse returns."""
    fs = [x for x in facts.lib_bodies(['lrpar']) if x.name == 'apply_repairs' and x.kind != 'closure']
    if len(fs) != 1:
        return res.lost(R, 'apply_repairs not found')
    c = fs[0]
    pr = facts.adt('lrpar::parser::ParseRepair')
    vn = {v['discr']: v['name'] for v in pr['variants']}
    from lrstep import widening_walker, loop_assigned
    seen = {}

    def judge(kind, p, is_before, after):
        def is_plus1(t):
            return isinstance(t, tuple) and t[0] == 'bin' and t[1] == 'Add' and is_before(t[2]) and t[3] == ('const', 1)

        def show(t):
            return 'index' if is_before(t) else 'index + 1' if is_plus1(t) else fmt_term(t)[:40]
        ups = p.calls(name='lr_upto')
        probs = []
        if kind == 'Delete':
            if ups:
                probs.append('a Delete parses something')
            if not is_plus1(after):
                probs.append('the input index is not moved on by exactly one')
        else:
            if len(ups) != 1:
                probs.append('%d parse calls instead of one' % len(ups))
            else:
                a = ups[0][3]
                lex, st, en = a[1], a[2], a[3]
                if not is_before(st) or not is_plus1(en):
                    probs.append('the parse does not run over exactly [index, index + 1) (it runs over [%s, %s))' % (show(st), show(en)))
                if kind == 'Insert':
                    if find_variant(lex, vname='Some') is None or not find_calls(lex, 'new_faulty'):
                        probs.append('the lexeme parsed is not Some(a new faulty lexeme)')
                    if not is_before(after):
                        probs.append('an Insert moves the input index')
                else:
                    if find_variant(lex, vname='None') is None:
                        probs.append('a Shift parses a synthesised lexeme instead of the input')
                    if not (is_call(after, 'lr_upto')):
                        probs.append('the input index does not continue from where the parse of the shifted lexeme ended')
        old = seen.get(kind)
        seen[kind] = '; '.join(probs) if not old else old

    def kind_of(conds, is_elem):
        poss = set(vn)
        hit = False
        for cd, v in conds:
            if cd[0] != 'discr' or not is_elem(cd[1]):
                continue
            hit = True
            if isinstance(v, int):
                poss &= {v}
            elif isinstance(v, tuple) and v[0] == 'ne':
                poss -= set(v[1])
        return [vn[x] for x in sorted(poss)] if hit else []

    loops = c.loops()
    hs = [h for h in loops if any('ParseRepair' in ((callee_of(t).get('self_ty') or '') + str(callee_of(t).get('args') or '')) for bb, t in c.calls_named('next', loops[h]))]
    folds = [cb for cb in facts.closures_of(c, recursive=False) if cb.arg_count == 3 and cb.lty(2) == 'usize' and 'ParseRepair' in cb.lty(3) and cb.calls_named('lr_upto')]
    where = loc_of(c)
    if len(hs) == 1:
        h = hs[0]
        where = loc_of(c, h)
        w = widening_walker(c, facts, max_paths=256)
        w.widen_headers = set(loops)
        w.widen_assigned = {x: loop_assigned(c, x) for x in w.widen_headers}
        for p in w.run(h, stop=lambda x: x not in loops[h]):
            if p.end != ('loop', h):
                continue
            ks = kind_of(p.conds, lambda t: not is_call(strip_ref(t), 'next') and term_has(t, lambda x: is_call(x, 'next')))
            if len(ks) != 1:
                continue
            idx = [(k, v) for k, v in p.env.items() if isinstance(k[0], int) and not k[1] and c.lty(k[0]) == 'usize' and 1 <= k[0] <= c.arg_count]
            if len(idx) != 1:
                seen[ks[0]] = 'cannot identify the running input index'
                continue
            (ik, after) = idx[0]
            judge(ks[0], p, lambda t, ik=ik: isinstance(t, tuple) and t[0] == 'widen' and t[3] == ik[0], after)
    elif not hs and len(folds) == 1 and c.calls_named('fold'):
        # repairs.iter().fold(index, |index, repair| next index): one call of the closure is one round
        cb = folds[0]
        where = loc_of(cb)
        for p in Walker(cb, facts, max_paths=256).run():
            if p.end[0] != 'return':
                continue
            ks = kind_of(p.conds, lambda t: term_has(t, lambda x: x == ('param', 3)))
            # a path may cover several kinds only if it treats them alike
            for k in ks if len(ks) < len(vn) else []:
                judge(k, p, lambda t: t == ('param', 2), p.end[1])
    else:
        return res.lost(R, 'apply_repairs has neither one loop over the repairs nor one fold over them (loops: %d, fold closures: %d)' % (len(hs), len(folds)))
    for kind in ('Insert', 'Delete', 'Shift'):
        key = 'replay:' + kind
        if kind not in seen:
            res.bad(R, key, where, 'no round of the replay handles ParseRepair::%s' % kind)
        elif seen[kind]:
            res.bad(R, key, where, 'replaying a %s: %s' % (kind, seen[kind]))
        else:
            res.ok(R, key, where, {'Insert': 'parses Some(new faulty lexeme) over [i, i+1), index unchanged', 'Delete': 'index + 1, nothing parsed',
                                   'Shift': 'parses the input over [i, i+1), index := where that parse ended'}[kind])


def r57(facts, res, R='R5.7'):
    """lr_upto(.., laidx, end_laidx, ..) parses the lexemes in [laidx, end_laidx): `end_laidx` is exclusive.  Every round that
    looks an action up has established that the running index differs from (is below) `end_laidx`.  With an inclusive bound
    the replay of an Insert goes round once more with the inserted lexeme still as lookahead and a replayed Shift takes two
    lexemes: the real stack ends up where the search never was."""
    b = find_fn(facts, R, 'lr_upto')
    tab, lookup, lh = arms(facts, R, b)
    n = 0
    bad = 0
    for kind, ps in tab.items():
        for p in ps:
            n += 1
            ok = False
            for c, v in p.conds:
                if not (isinstance(c, tuple) and c and c[0] == 'bin' and isinstance(v, int)):
                    continue
                ends = [x for x in (c[2], c[3]) if strip_ref(x) == ('param', 4)]
                if not ends:
                    continue
                if (c[1] == 'Eq' and v == 0) or (c[1] == 'Ne' and v == 1):
                    ok = True
                if c[1] == 'Lt' and v == 1 and strip_ref(c[3]) == ('param', 4):
                    ok = True
                if c[1] == 'Le' and v == 0 and strip_ref(c[2]) == ('param', 4):
                    ok = True          # !(end <= i)
            if not ok:
                bad += 1
    if not n:
        return res.lost(R, 'no round of lr_upto looks an action up')
    if bad:
        res.bad(R, 'end-exclusive', loc_of(b, lh), '%d of the %d ways through a round of lr_upto look an action up without having established that the running index is not `end_laidx`: the '
                'bound is inclusive, one lexeme position too many is parsed' % (bad, n))
    else:
        res.ok(R, 'end-exclusive', loc_of(b, lh), 'every round that looks an action up has established index != end_laidx (%d ways)' % n)


def run(facts, res):
    r57(facts, res)
    r56(facts, res)
    r55(facts, res)
    r51(facts, res)
    r52(facts, res)
    r53(facts, res)
    r54(facts, res)
