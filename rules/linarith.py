"""A10: a small linear-integer bounds domain over walker terms (DESIGN.md §3 A10).

Terms of one symbolic path are turned into linear forms over opaque atoms (everything that is not +, -, a constant or a
transparent wrapper is an atom).  Facts are inequalities `L >= 0` and disequalities `L != 0`; an obligation `L >= 0` is
proved by refuting `facts and -L-1 >= 0` with Fourier-Motzkin elimination over the rationals (sound for the integers;
the one integer step that matters here - `L >= 0 and L != 0  =>  L >= 1` - is applied by saturation beforehand).
Nothing is executed and no external solver is involved; a failure to prove is reported, never assumed away."""
from fractions import Fraction
from mirlib import *


class Lin:
    __slots__ = ('c', 'k')

    def __init__(self, c=None, k=0):
        self.c = {a: v for a, v in (c or {}).items() if v != 0}
        self.k = k

    def __add__(self, o):
        c = dict(self.c)
        for a, v in o.c.items():
            c[a] = c.get(a, 0) + v
        return Lin(c, self.k + o.k)

    def __neg__(self):
        return Lin({a: -v for a, v in self.c.items()}, -self.k)

    def __sub__(self, o):
        return self + (-o)

    def plus(self, n):
        return Lin(self.c, self.k + n)

    def scale(self, f):
        return Lin({a: v * f for a, v in self.c.items()}, self.k * f)

    def is_const(self):
        return not self.c

    def key(self):
        return (tuple(sorted((repr(a), v) for a, v in self.c.items())), self.k)

    def show(self, names=None):
        parts = []
        for a, v in sorted(self.c.items(), key=lambda x: repr(x[0])):
            nm = (names or {}).get(a) or fmt_term(a)[:60]
            parts.append(('%+d*' % v if abs(v) != 1 else ('+' if v > 0 else '-')) + nm)
        if self.k or not parts:
            parts.append('%+d' % self.k)
        return ' '.join(parts).lstrip('+')


TRANSPARENT_CALLS = ('deref', 'deref_mut', 'clone', 'borrow', 'as_ref', 'into', 'from', 'as_slice')


def canon_atom(t):
    """strip references so that `&v`, `*&v`, `v` are one atom"""
    while isinstance(t, tuple) and t and t[0] in ('ref', 'deref', 'mref', 'sref'):
        t = t[1]
    return t


def length_of(t):
    """linear form of the length of a slice-like term: V[a..] -> len(V) - a ; V[a..b] -> b - a ; V -> LEN(V)"""
    t = canon_atom(t)
    if isinstance(t, tuple) and t and t[0] == 'call' and strip_generics(t[1]).split('::')[-1] in ('index', 'index_mut') and len(t[2]) == 2:
        base, ix = t[2]
        v = ix if isinstance(ix, tuple) and ix and ix[0] == 'variant' else None
        if v is not None:
            nm = v[3]
            if nm == 'RangeFrom':
                return length_of(base) - lin(v[4][0])
            if nm == 'Range':
                return lin(v[4][1]) - lin(v[4][0])
            if nm == 'RangeTo':
                return lin(v[4][0])
            if nm == 'RangeFull':
                return length_of(base)
    if isinstance(t, tuple) and t and t[0] == 'call' and strip_generics(t[1]).split('::')[-1] in TRANSPARENT_CALLS and len(t[2]) == 1:
        return length_of(t[2][0])
    return Lin({('LEN', t): 1})


def lin(t):
    t = canon_atom(t)
    if not isinstance(t, tuple) or not t:
        return Lin({('?', repr(t)): 1})
    k = t[0]
    if k == 'const' and isinstance(t[1], int) and not isinstance(t[1], bool):
        return Lin(k=t[1])
    if k == 'bin' and t[1] in ('Add', 'AddUnchecked', 'AddWithOverflow'):
        return lin(t[2]) + lin(t[3])
    if k == 'bin' and t[1] in ('Sub', 'SubUnchecked', 'SubWithOverflow'):
        return lin(t[2]) - lin(t[3])
    if k == 'bin' and t[1] == 'Mul':
        for a, b in ((t[2], t[3]), (t[3], t[2])):
            if is_const(a) and isinstance(a[1], int):
                return lin(b).scale(a[1])
    if k == 'cast':
        return lin(t[2])
    if k == 'call':
        nm = strip_generics(t[1]).split('::')[-1]
        if nm == 'add' and len(t[2]) == 2 and 'core::ops::arith::Add' in t[1]:
            return lin(t[2][0]) + lin(t[2][1])
        if nm == 'sub' and len(t[2]) == 2 and 'core::ops::arith::Sub' in t[1]:
            return lin(t[2][0]) - lin(t[2][1])
        if nm == 'len' and len(t[2]) == 1:
            return length_of(t[2][0])
        if nm in TRANSPARENT_CALLS and len(t[2]) == 1:
            return lin(t[2][0])
    return Lin({t: 1})


def subs_of(t):
    """(a, b) for every subtraction a - b occurring in t (usize: each needs a - b >= 0)"""
    out = []
    for x in subterms(t):
        if isinstance(x, tuple) and x and x[0] == 'bin' and x[1] in ('Sub', 'SubWithOverflow'):
            out.append((x[2], x[3]))
    return out


# ---- Fourier-Motzkin refutation

def _infeasible(cons, limit=4000):
    """cons: list of Lin meaning L >= 0.  True iff the system has no rational solution (then none over the integers)."""
    cs = []
    seen = set()
    for L in cons:
        if L.key() not in seen:
            seen.add(L.key())
            cs.append(({a: Fraction(v) for a, v in L.c.items()}, Fraction(L.k)))
    while True:
        for c, k in cs:
            if not c and k < 0:
                return True
        vars_ = {}
        for c, k in cs:
            for a in c:
                vars_[a] = vars_.get(a, 0) + 1
        if not vars_:
            return False
        # eliminate the variable producing the fewest new constraints
        def cost(a):
            pos = sum(1 for c, k in cs if c.get(a, 0) > 0)
            neg = sum(1 for c, k in cs if c.get(a, 0) < 0)
            return pos * neg - pos - neg
        x = min(vars_, key=cost)
        pos = [(c, k) for c, k in cs if c.get(x, 0) > 0]
        neg = [(c, k) for c, k in cs if c.get(x, 0) < 0]
        rest = [(c, k) for c, k in cs if c.get(x, 0) == 0]
        new = []
        for cp, kp in pos:
            for cn, kn in neg:
                fp, fn = -cn[x], cp[x]           # fp*pos + fn*neg eliminates x, both factors positive
                c = {}
                for a, v in cp.items():
                    c[a] = c.get(a, 0) + v * fp
                for a, v in cn.items():
                    c[a] = c.get(a, 0) + v * fn
                c = {a: v for a, v in c.items() if v != 0}
                new.append((c, kp * fp + kn * fn))
        cs = rest + new
        if len(cs) > limit:
            return False        # give up: not proven
        # drop duplicates
        uniq = {}
        for c, k in cs:
            key = tuple(sorted((repr(a), v) for a, v in c.items()))
            if key not in uniq or uniq[key][1] > k:
                uniq[key] = (c, k)
        cs = list(uniq.values())


class Ctx:
    """facts of one path"""

    def __init__(self):
        self.ge = []        # Lin >= 0
        self.ne = []        # Lin != 0
        self.why = []       # human-readable provenance

    def add_ge(self, L, why=''):
        self.ge.append(L)
        if why:
            self.why.append(why)

    def add_ne(self, L, why=''):
        self.ne.append(L)
        if why:
            self.why.append(why)

    def add_eq(self, L, why=''):
        self.ge.append(L)
        self.ge.append(-L)
        if why:
            self.why.append(why)

    def nonneg_atoms(self, forms):
        seen = set()
        for L in forms:
            for a in L.c:
                if a not in seen:
                    seen.add(a)
                    self.ge.append(Lin({a: 1}))

    def saturate(self):
        """L >= 0 and L != 0  =>  L - 1 >= 0 (integers)"""
        for _ in range(4):
            changed = False
            for G in list(self.ne):
                for H in (G, -G):
                    if self.proves_basic(H) and not self.proves_basic(H.plus(-1)):
                        self.ge.append(H.plus(-1))
                        changed = True
            if not changed:
                break

    def proves_basic(self, L):
        return _infeasible(self.ge + [(-L).plus(-1)])

    def proves(self, L):
        return self.proves_basic(L)


# ---- library postconditions usable as facts (each is a documented property of the std / regex API; listed in DESIGN.md A10)

TRIMS = ('trim', 'trim_start', 'trim_end', 'trim_matches', 'trim_start_matches', 'trim_end_matches', 'strip_prefix', 'strip_suffix')


def lib_facts(ctx, terms):
    """adds, for every recognised sub-term of `terms`:
       * c = a char read by chars().next() from S[x..]      : x + len_utf8(c) <= len(S), len_utf8(c) >= 1
       * t = S.trim*(..)                                     : len(t) <= len(S)
       * m = Regex::find(re, H) (its Some payload)           : m.start() <= m.end() <= len(H)"""
    seen = set()
    for root in terms:
        for x in subterms(root):
            if not (isinstance(x, tuple) and x and x[0] == 'call') or x in seen:
                continue
            seen.add(x)
            nm = strip_generics(x[1]).split('::')[-1]
            if nm == 'len_utf8' and x[2]:
                c = canon_atom(x[2][0])
                ctx.add_ge(Lin({x: 1}).plus(-1), 'len_utf8(c) >= 1')
                # peel unwrap / Some payload down to next(chars(index(S, RangeFrom(k))))
                y = c
                while isinstance(y, tuple) and y and (y[0] in ('field', 'downcast') or (y[0] == 'call' and strip_generics(y[1]).split('::')[-1] in ('unwrap', 'expect'))):
                    y = canon_atom(y[1] if y[0] != 'call' else y[2][0])
                if isinstance(y, tuple) and y and y[0] == 'call' and strip_generics(y[1]).split('::')[-1] == 'next':
                    it = canon_atom(y[2][0])
                    if isinstance(it, tuple) and it and it[0] == 'call' and strip_generics(it[1]).split('::')[-1] == 'chars':
                        ctx.add_ge(length_of(it[2][0]) - Lin({x: 1}), 'a char read from S[k..] lies inside S: k + len_utf8(c) <= len(S)')
            elif nm == 'len' and x[2]:
                t = canon_atom(x[2][0])
                if isinstance(t, tuple) and t and t[0] == 'call' and strip_generics(t[1]).split('::')[-1] in TRIMS and t[2]:
                    ctx.add_ge(length_of(t[2][0]) - Lin({('LEN', t): 1}), 'len(S.trim*(..)) <= len(S)')
            elif nm in ('end', 'start') and x[2]:
                m = canon_atom(x[2][0])
                y = m
                while isinstance(y, tuple) and y and y[0] in ('field', 'downcast'):
                    y = canon_atom(y[1])
                while isinstance(y, tuple) and y and y[0] == 'call' and strip_generics(y[1]).split('::')[-1] in ('unwrap', 'expect') and y[2]:
                    y = canon_atom(y[2][0])
                if isinstance(y, tuple) and y and y[0] == 'call' and strip_generics(y[1]).split('::')[-1] == 'find' and 'regex' in y[1].lower() and len(y[2]) == 2:
                    H = y[2][1]
                    if nm == 'end':
                        ctx.add_ge(length_of(H) - Lin({x: 1}), 'Match::end() <= len(haystack)')
                        st = ('call', x[1][:-3] + 'start', x[2])
                        ctx.add_ge(Lin({x: 1}) - Lin({st: 1}), 'Match::start() <= Match::end()')
