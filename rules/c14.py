"""C14 Serialised grammars and tables come back observationally identical (DESIGN.md §4 C14).

R14.1 codec closure: every workspace type reachable from YaccGrammar / StateTable has BOTH derived codec impls; no hand-written one
R14.2 no schema-altering attribute on any field/variant of the closure
R14.3 write side and read side select the same wincode configuration per SerialisationFormat variant
R14.4 (thorough) type-level witnesses: codec bounds hold for every storage width and both configurations; fields are private
"""
import os
import re
import shutil
import subprocess
from mirlib import *
from lrstep import has_call, find_variant

THOROUGH_WORKSPACE = True

META = {
    'level': 'proof',
    'exhaustive': True,
    'explanation': 'Argument: both objects are (de)serialised by DERIVED SchemaWrite/SchemaRead implementations generated from the same '
                   'struct definition; a derived pair writes and reads every field in declaration order with the field type\'s own '
                   'codec, so by induction over the type closure the round trip is the identity on every field, hence on every '
                   'public query (all of which are functions of the fields). The obligations that make the induction go through '
                   'are checked on the type-checked program: the closure of workspace types reachable from the two roots each have '
                   'both impls and each impl stems from the expansion of the derive macro of the same name (R14.1); no field or '
                   'variant carries a schema-altering attribute (R14.2); the same wincode configuration type is selected for '
                   'writing and reading per SerialisationFormat variant, for grammar and table alike (R14.3); in the thorough '
                   'tier the read side is taken from the MIR of every generated parser of the repository, and the compiler itself '
                   'witnesses the codec bounds for u8/u16/u32 x both configurations and the privacy of the fields (R14.4).',
    'trusted_base': ['wincode derive macros and its primitive / Box<[T]> / Option / String / tuple codecs',
                     'the codecs shipped by vob, sparsevec, packedvec'],
}

ROOTS = ['cfgrammar::yacc::grammar::YaccGrammar', 'lrtable::statetable::StateTable']
WS = ('cfgrammar::', 'lrtable::', 'lrpar::', 'lrlex::')
TRAITS = {'wincode::schema::SchemaWrite': 'SchemaWrite', 'wincode::schema::SchemaRead': 'SchemaRead'}


def adts_in(ty, facts):
    out = set()
    for m in re.finditer(r'(?:cfgrammar|lrtable|lrpar|lrlex)(?:::[A-Za-z_][A-Za-z0-9_]*)+', ty):
        if m.group(0) in facts.adts:
            out.add(m.group(0))
    return out


def closure(facts):
    seen, todo = set(), list(ROOTS)
    while todo:
        a = todo.pop()
        if a in seen or a not in facts.adts:
            continue
        seen.add(a)
        for v in facts.adts[a]['variants']:
            for f in v['fields']:
                todo.extend(adts_in(f['ty'], facts))
    return sorted(seen)


def r141_142(facts, res):
    R = 'R14.1'
    cl = closure(facts)
    for r in ROOTS:
        if r not in facts.adts:
            res.lost(R, 'root type %s not found' % r)
            return
    res.floor(R, 'workspace types in the codec closure', len(cl), 9)
    impls = {}
    for i in facts.impls:
        if i['trait'] in TRAITS and i.get('self_adt'):
            impls.setdefault(i['self_adt'], []).append(i)
    for a in cl:
        mine = impls.get(a, [])
        have = {TRAITS[i['trait']] for i in mine}
        key = 'type:' + a
        loc = '%s:%s' % (facts.adts[a]['file'], facts.adts[a]['lo'])
        if have != {'SchemaWrite', 'SchemaRead'}:
            res.bad(R, key, loc, 'reachable from a serialised root but implements only %s of SchemaWrite/SchemaRead under the build\'s feature set' % (sorted(have) or 'none'))
            continue
        hand = [i for i in mine if i['derive_of'] != TRAITS[i['trait']]]
        if hand:
            res.bad(R, key, '%s:%s' % (hand[0]['file'], hand[0]['lo']),
                    'has a hand-written (or foreign-macro) impl of %s: the write/read symmetry of a derived pair is no longer guaranteed' % TRAITS[hand[0]['trait']])
        elif len(mine) != 2:
            res.bad(R, key, loc, '%d codec impls found, expected exactly one derived pair' % len(mine))
        else:
            res.ok(R, key, loc, 'derived SchemaWrite + SchemaRead')
    # no hand-written impl for any workspace type at all
    for a, lst in sorted(impls.items()):
        for i in lst:
            if a.startswith(WS) and i['derive_of'] != TRAITS[i['trait']] and a not in cl:
                res.bad(R, 'handwritten:' + a, '%s:%s' % (i['file'], i['lo']), 'hand-written %s impl for a workspace type' % TRAITS[i['trait']])
    R2 = 'R14.2'
    n = 0
    for a in cl:
        ad = facts.adts[a]
        for v in ad['variants']:
            for at in v.get('attrs', []):
                if 'wincode' in at or ('serde' in at and 'skip' in at):
                    res.bad(R2, 'attr:%s::%s' % (a, v['name']), '%s:%s' % (ad['file'], ad['lo']), 'variant carries a schema-altering attribute: %s' % at)
            for f in v['fields']:
                n += 1
                for at in f.get('attrs', []):
                    if 'CfgTrace' in at or at.lstrip('#[ ').startswith('cfg'):
                        # a field that exists in this build configuration only: the derived schema is positional, so a writer and a reader
                        # compiled under different configurations (a build script and the program it generates code for) disagree on the layout
                        res.bad(R2, 'cfg-field:%s.%s' % (a, f['name']), '%s:%s' % (ad['file'], ad['lo']),
                                'field exists only under a #[cfg(..)] that holds in this build: the serialised layout depends on the build configuration '
                                '(build scripts and the programs they generate for need not agree on it)')
                    if 'wincode' in at or ('serde' in at and 'skip' in at):
                        res.bad(R2, 'attr:%s.%s' % (a, f['name']), '%s:%s' % (ad['file'], ad['lo']),
                                'field carries a schema-altering attribute (%s): it is written/read differently from its declared type or not at all' % at)
    # derive helper attributes do not survive into the HIR on this toolchain, so additionally read what the derived
    # writer actually does: every field of every closure type must be written, with the codec of its own type
    nw = 0
    for a in cl:
        ad = facts.adts[a]
        wr = [bd for bd in facts.lib_bodies(['cfgrammar', 'lrtable', 'lrpar']) if bd.name == 'write' and bd.trait == 'wincode::schema::SchemaWrite'
              and (bd.impl_of or '').split('<')[0] == a]
        if len(wr) != 1:
            res.bad(R2, 'writer:' + a, '%s:%s' % (ad['file'], ad['lo']), 'expected one derived write() for %s, found %d' % (a, len(wr)))
            continue
        wb = wr[0]
        written = {}
        for bb, t in wb.calls_named('write'):
            c = callee_of(t)
            if (c.get('trait') or '') != 'wincode::schema::SchemaWrite' or len(t['args']) < 2:
                continue
            r, projs, via = wb.op_root(t['args'][1], through=(), stop_named=False)
            names = []
            for pl in projs:
                for q in pl:
                    if isinstance(q, dict) and 'f' in q:
                        names.append((q.get('name'), q['f']))
            dc = [q.get('name') for pl in projs for q in pl if isinstance(q, dict) and 'downcast' in q]
            if names:
                written[(dc[0] if dc else None, names[-1][0] if names[-1][0] not in (None,) else str(names[-1][1]))] = c.get('self_ty') or (c['args'][0] if c['args'] else '')
        for v in ad['variants']:
            for fi, f in enumerate(v['fields']):
                nw += 1
                vkey = v['name'] if ad['kind'] == 'enum' else None
                got = written.get((vkey, f['name']))
                if got is None:
                    got = written.get((vkey, str(fi)))
                key = 'writer:%s%s.%s' % (a, '::' + v['name'] if vkey else '', f['name'])
                if got is None:
                    res.bad(R2, key, loc_of(wb), 'the derived writer never writes this field (skipped): after a round trip it holds a default, not the original value')
                elif norm_ty(got) != norm_ty(f['ty']):
                    res.bad(R2, key, loc_of(wb), 'field of type %s is written with the codec of %s' % (f['ty'][:80], got[:80]))
    res.count('R14.2 fields checked against the derived writer', nw)
    enum_tags(facts, res, cl, R2)
    if not any(i['rule'] == R2 for i in res.instances):
        res.ok(R2, 'no-schema-attrs', '', 'none of the %d fields of the %d closure types carries a wincode(..)/serde(skip..) attribute' % (n, len(cl)))
    res.floor(R2, 'fields examined', n, 35)


def enum_tags(facts, res, cl, R):
    """every enum of the closure: the derived writer gives each variant its own wire tag, and the derived reader maps each
    tag back to the variant the writer uses it for"""
    ne = 0
    for a in cl:
        ad = facts.adts[a]
        if ad['kind'] != 'enum':
            continue
        ne += 1
        key = 'tags:' + a
        loc = '%s:%s' % (ad['file'], ad['lo'])
        def one(name, trait):
            bs = [bd for bd in facts.lib_bodies(['cfgrammar', 'lrtable', 'lrpar']) if bd.name == name and bd.trait == trait
                  and (bd.impl_of or '').split('<')[0] == a]
            return bs[0] if len(bs) == 1 else None
        wb = one('write', 'wincode::schema::SchemaWrite')
        rb = one('read', 'wincode::schema::SchemaRead')
        if wb is None or rb is None:
            res.bad(R, key, loc, 'derived write()/read() of the enum not found')
            continue
        vnames = [v['name'] for v in ad['variants']]
        wtag = {}
        bad = []
        for p in Walker(wb, facts, max_paths=4096).run(0):
            vi = p.cond_on(lambda t: t[0] == 'discr' and term_has(t, lambda x: x == ('param', 2)))
            if not isinstance(vi, int):
                continue
            tags = [e for e in p.calls() if e[2] and 'tag_encoding' in (e[2].get('resolved') or e[2]['path']).lower().replace('tagencoding', 'tag_encoding')]
            if not tags:
                continue
            consts = [x[1] for x in tags[0][3] if is_const(x) and isinstance(x[1], int)]
            if len(consts) != 1:
                bad.append('cannot read the tag written for variant %s' % vnames[vi])
                continue
            wtag.setdefault(vi, set()).add(consts[0])
        for vi, nm in enumerate(vnames):
            if len(wtag.get(vi, ())) != 1:
                bad.append('variant %s: %d different tags written' % (nm, len(wtag.get(vi, ()))))
        if not bad:
            by = {}
            for vi, ts in wtag.items():
                by.setdefault(next(iter(ts)), []).append(vnames[vi])
            for t, vs in sorted(by.items()):
                if len(vs) > 1:
                    bad.append('variants %s are all written with tag %d: after a round trip they cannot be told apart' % (' and '.join(sorted(vs)), t))
        # reader: tag -> variant constructed
        rtag = {}
        for p in Walker(rb, facts, max_paths=8192).run(0):
            if p.end[0] != 'return':
                continue
            tv = [v for t, v in p.conds if isinstance(v, int) and has_call(t, 'try_into_u32') and t[0] != 'discr']
            if len(tv) != 1:
                continue
            made = set()
            for e in p.events:
                terms = list(e[3]) if e[0] == 'call' else [e[3]]
                for x in terms:
                    fv = find_variant(x) if isinstance(x, tuple) else None
                    if fv is not None and fv[1].split('<')[0] == a:
                        made.add(fv[3])
            for c, v in p.conds:
                pass
            if len(made) == 1:
                rtag.setdefault(tv[0], set()).add(next(iter(made)))
        for t, vs in sorted(rtag.items()):
            for vn in vs:
                vi = vnames.index(vn) if vn in vnames else None
                if vi is not None and wtag.get(vi) and t not in wtag[vi]:
                    bad.append('tag %d is read back as %s but %s is written with tag %s' % (t, vn, vn, sorted(wtag[vi])))
        if bad:
            res.bad(R, key, loc_of(wb), '; '.join(bad[:3]))
        else:
            res.ok(R, key, loc, '%d variants written with pairwise distinct tags %s; reader agrees on %d of them' % (
                len(vnames), sorted(next(iter(ts)) for ts in wtag.values()), len(rtag)))
    res.floor(R, 'enums in the codec closure', ne, 2)


def norm_ty(t):
    return t.replace(' ', '')


def write_side(facts, res, R):
    b = facts.one(R, 'CTParserBuilder::gen_parse_function', crate='lrpar', name='gen_parse_function', impl_re=r'^lrpar::ctbuilder::CTParserBuilder<')
    sf = facts.adt('lrpar::ctbuilder::SerialisationFormat')
    vn = {v['discr']: v['name'] for v in sf['variants']}
    sers = [(bb, t, None) for bb, t in b.calls_named('serialize')]
    if not sers:
        # both buffers written by one local helper that is generic in the configuration: the configuration is the helper call's
        # Configuration<..> type argument, and the helper must serialise exactly twice with its own configuration parameter
        for bb, t in b.calls():
            hb = facts.bodies.get(cpath(t) or '')
            if hb is None or hb.crate != 'lrpar' or hb.kind not in ('fn', 'assoc_fn'):
                continue
            hs = hb.calls_named('serialize')
            cfgs = {callee_of(x)['args'][-1] if callee_of(x)['args'] else '?' for _b, x in hs}
            targs = [a for a in (callee_of(t).get('args') or []) if a.startswith('wincode::config::Configuration<')]
            if len(hs) == 2 and len(cfgs) == 1 and not next(iter(cfgs)).startswith('wincode::') and len(targs) == 1:
                sers += [(bb, t, targs[0]), (bb, t, targs[0])]
    out = {}
    for bb, t, cfg_override in sers:
        cfg = cfg_override or (callee_of(t)['args'][-1] if callee_of(t)['args'] else '?')
        # which variant arm? the switch successor that dominates this call
        arm = None
        for sb in b.reachable():
            tt = b.term(sb)
            if tt['k'] != 'switch':
                continue
            l = op_local(tt['on'])
            ds = b.defs().get(l, []) if l is not None else []
            if not (len(ds) == 1 and ds[0][1] == 'stmt' and 'discr' in ds[0][2] and ds[0][2].get('adt', '').endswith('SerialisationFormat')):
                continue
            for v, tgt in tt['targets']:
                if b.dominates(tgt, bb):
                    arm = vn.get(v)
            if arm is None and b.dominates(tt['otherwise'], bb):
                rest = set(vn) - {v for v, _ in tt['targets']}
                if len(rest) == 1:
                    arm = vn[rest.pop()]
        out.setdefault(arm, []).append((cfg, bb))
    return b, out, vn


def r143(facts, res, thorough=False):
    R = 'R14.3'
    b, w, vn = write_side(facts, res, R)
    wmap = {}
    for arm, lst in w.items():
        cfgs = {c for c, _ in lst}
        if arm is None:
            res.bad(R, 'write:unattributed', loc_of(b, lst[0][1]), 'a serialize call is not under a SerialisationFormat arm')
            continue
        if len(lst) != 2 or len(cfgs) != 1:
            res.bad(R, 'write:' + arm, loc_of(b, lst[0][1]), 'grammar and table are not both written with one configuration in this arm (%d calls, configs %s)' % (len(lst), sorted(cfgs)))
        else:
            wmap[arm] = cfgs.pop()
            res.ok(R, 'write:' + arm, loc_of(b, lst[0][1]), 'grammar and table written with %s' % short_cfg(wmap[arm]))
    for v in vn.values():
        if v not in w:
            res.bad(R, 'write:' + v, loc_of(b), 'no serialisation for format variant %s' % v)
    if len(set(wmap.values())) != len(wmap):
        res.bad(R, 'write:distinct', loc_of(b), 'different format variants select the same configuration')
    # _reconstitute uses one configuration for both buffers
    rc = facts.one(R, '_reconstitute', crate='lrpar', name='_reconstitute')
    des = rc.calls_named('deserialize_from')
    okd = len(des) == 2 and all(op_local(t['args'][-1]) is not None and rc.op_root(t['args'][-1])[0] <= rc.arg_count for bb, t in des) \
        and len({callee_of(t)['args'][-1] if callee_of(t)['args'] else None for bb, t in des}) == 1
    if okd:
        res.ok(R, 'read:reconstitute', loc_of(rc), 'grammar and table are both read with the configuration passed in')
    else:
        res.bad(R, 'read:reconstitute', loc_of(rc), '_reconstitute does not read both buffers with its configuration parameter')
    if not thorough:
        return wmap
    # thorough: generated parsers
    n = 0
    for gb in sorted(facts.bodies.values(), key=lambda x: x.path):
        if 'lrpar_parser_data' not in gb.path:
            continue
        recs = gb.calls_named('_reconstitute')
        if not recs:
            continue
        n += 1
        sfl = facts.adt('lrpar::ctbuilder::SerialisationFormat')
        rmap = {}
        for bb, t in recs:
            cfg = callee_of(t)['args'][0] if callee_of(t)['args'] else '?'
            arm = None
            for sb in gb.reachable():
                tt = gb.term(sb)
                if tt['k'] != 'switch':
                    continue
                for v, tgt in tt['targets']:
                    if gb.dominates(tgt, bb) and v in vn:
                        arm = vn[v]
                if arm is None and gb.dominates(tt['otherwise'], bb):
                    rest = set(vn) - {v for v, _ in tt['targets']}
                    if len(rest) == 1:
                        arm = vn[rest.pop()]
            rmap[arm] = cfg
        key = 'generated:' + strip_generics(gb.path)
        bad = [(a, c) for a, c in rmap.items() if a in wmap and wmap[a] != c]
        if bad or None in rmap:
            res.bad(R, key, loc_of(gb), 'generated reader selects %s but the builder writes %s' % (rmap, wmap))
        else:
            res.ok(R, key, loc_of(gb), 'reads each format with the configuration the builder writes it with')
    res.floor(R, 'generated parsers examined', n, 20)
    return wmap


def short_cfg(c):
    return c.replace('wincode::config::', '').replace('wincode::int_encoding::', '').replace('wincode::len::', '')[:120]


WITNESS_LIB = r'''//! Type-level witnesses for C14 / C15 (DESIGN.md §2.3).  Every `compile_fail` block has a compiling twin that
//! differs only in the offending line.
//!
//! Codec bounds hold for all storage widths and both configurations:
//! ```
//! use lrpar::ctbuilder::wincode::{SchemaWrite, SchemaReadOwned, config::{Config, Configuration}};
//! use cfgrammar::yacc::YaccGrammar;
//! use lrtable::StateTable;
//! fn codec<C: Config, T: SchemaWrite<C, Src = T> + SchemaReadOwned<C, Dst = T>>(_c: C) {}
//! macro_rules! both { ($t:ty) => {
//!     codec::<_, YaccGrammar<$t>>(Configuration::default().with_fixint_encoding());
//!     codec::<_, YaccGrammar<$t>>(Configuration::default().with_varint_encoding());
//!     codec::<_, StateTable<$t>>(Configuration::default().with_fixint_encoding());
//!     codec::<_, StateTable<$t>>(Configuration::default().with_varint_encoding());
//! } }
//! both!(u8); both!(u16); both!(u32);
//! ```
//!
//! A grammar's fields are private (twin: the accessor compiles):
//! ```
//! fn f(g: &cfgrammar::yacc::YaccGrammar<u16>) -> cfgrammar::PIdx<u16> { g.prods_len() }
//! ```
//! ```compile_fail,E0616
//! fn f(g: &cfgrammar::yacc::YaccGrammar<u16>) -> cfgrammar::PIdx<u16> { g.prods_len }
//! ```
//!
//! A state table's fields are private (twin: the accessor compiles):
//! ```
//! fn f(t: &lrtable::StateTable<u16>) -> lrtable::StIdx<u16> { t.start_state() }
//! ```
//! ```compile_fail,E0616
//! fn f(t: &lrtable::StateTable<u16>) -> lrtable::StIdx<u16> { t.start_state }
//! ```
//!
//! Parser data shared by all threads of a generated parser is Send + Sync (C15, precondition of `static OnceLock`):
//! ```
//! fn ss<T: Send + Sync>() {}
//! ss::<lrpar::ParserData<u8>>(); ss::<lrpar::ParserData<u16>>(); ss::<lrpar::ParserData<u32>>();
//! ```
//! ```compile_fail,E0277
//! fn ss<T: Send + Sync>() {}
//! ss::<std::rc::Rc<lrpar::ParserData<u8>>>();
//! ```
'''


def run_witness(res, repo, R):
    import harness
    wdir = os.path.join(harness.CACHE, 'witness')
    os.makedirs(os.path.join(wdir, 'src'), exist_ok=True)
    with open(os.path.join(wdir, 'Cargo.toml'), 'w') as fh:
        fh.write('[package]\nname = "grmwitness"\nversion = "0.1.0"\nedition = "2021"\n\n[workspace]\n\n[lib]\npath = "src/lib.rs"\n\n'
                 '[dependencies]\ncfgrammar = { path = "%s/cfgrammar", features = ["wincode"] }\nlrtable = { path = "%s/lrtable", features = ["wincode"] }\n'
                 'lrpar = { path = "%s/lrpar" }\n' % (repo, repo, repo))
    with open(os.path.join(wdir, 'src', 'lib.rs'), 'w') as fh:
        fh.write(WITNESS_LIB)
    shutil.copyfile(os.path.join(repo, 'Cargo.lock'), os.path.join(wdir, 'Cargo.lock'))
    env = dict(os.environ, CARGO_NET_OFFLINE='true', CARGO_TARGET_DIR=os.path.join(harness.CACHE, 'witness-target'))
    r = subprocess.run(['cargo', '+nightly', 'test', '--doc', '--offline', '-j', '16'], cwd=wdir, env=env, capture_output=True, text=True)
    out = r.stdout + r.stderr
    m = re.search(r'test result: (\w+)\. (\d+) passed; (\d+) failed', out)
    nblocks = sum(1 for ln in WITNESS_LIB.splitlines() if ln.startswith('//! ```')) // 2
    if r.returncode == 0 and m and m.group(1) == 'ok' and int(m.group(2)) == nblocks and int(m.group(3)) == 0:
        res.ok(R, 'witness-doctests', 'rules/c14.py', '%s compile-time witnesses hold (codec bounds x 3 widths x 2 configurations; private fields; ParserData: Send + Sync), each compile_fail with a compiling twin' % m.group(2))
    else:
        tail = '\n'.join(out.splitlines()[-25:])
        res.bad(R, 'witness-doctests', 'rules/c14.py', 'type-level witnesses failed (exit %d)' % r.returncode, tail)


def run(facts, res):
    r141_142(facts, res)
    if res.tier != 'thorough':
        r143(facts, res, thorough=False)


def run_thorough(facts, res):
    r143(facts, res, thorough=True)
    run_witness(res, res.repo, 'R14.4')
