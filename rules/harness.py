"""CLI harness: fact extraction + cache, rule dispatch, known findings, evidence (DESIGN.md §2)."""
import fcntl
import hashlib
import importlib
import json
import os
import shutil
import subprocess
import sys
import tempfile
import time

VERIF = os.path.dirname(os.path.dirname(os.path.abspath(__file__)))
REPO = os.path.abspath(os.environ.get('VERIF_REPO', '/repo'))
CACHE = os.environ.get('VERIF_CACHE') or os.path.join(VERIF, '.cache')     # selftest workers use private caches (own cargo target dir)
DRIVER_DIR = os.path.join(VERIF, 'driver')
DRIVER_BIN = os.path.join(DRIVER_DIR, 'target', 'release', 'grmfacts')
EVIDENCE = os.path.join(VERIF, 'evidence')
KNOWN = os.path.join(VERIF, 'known_findings.txt')

LIB_CRATES = ['cfgrammar', 'lrtable', 'lrpar', 'lrlex']

OFFLINE_ENV = {'CARGO_NET_OFFLINE': 'true'}


def log(*a):
    print(*a, flush=True)


def sh(cmd, **kw):
    return subprocess.run(cmd, **kw)


def nightly_sysroot():
    r = sh(['rustc', '+nightly', '--print', 'sysroot'], capture_output=True, text=True)
    if r.returncode != 0:
        raise SystemExit('cannot find nightly toolchain: ' + r.stderr)
    return r.stdout.strip()


def driver_src_hash():
    h = hashlib.sha256()
    for root, dirs, files in os.walk(DRIVER_DIR):
        dirs[:] = sorted(d for d in dirs if d not in ('target',))
        for f in sorted(files):
            if f.endswith(('.rs', '.toml')):
                p = os.path.join(root, f)
                h.update(p.encode())
                h.update(open(p, 'rb').read())
    return h.hexdigest()[:16]


def setup():
    os.makedirs(CACHE, exist_ok=True)
    os.makedirs(EVIDENCE, exist_ok=True)
    stamp = os.path.join(CACHE, 'driver.stamp')
    want = driver_src_hash()
    if os.path.exists(DRIVER_BIN) and os.path.exists(stamp) and open(stamp).read() == want:
        return
    with open(os.path.join(CACHE, 'lock.driver'), 'w') as lk:
        fcntl.flock(lk, fcntl.LOCK_EX)
        if os.path.exists(DRIVER_BIN) and os.path.exists(stamp) and open(stamp).read() == want:
            return
        env = dict(os.environ, **OFFLINE_ENV)
        log('[setup] building grmfacts driver (nightly, offline)')
        r = sh(['cargo', '+nightly', 'build', '--release', '--offline'], cwd=DRIVER_DIR, env=env,
               capture_output=True, text=True)
        if r.returncode != 0:
            sys.stderr.write(r.stdout + r.stderr)
            raise SystemExit('driver build failed')
        open(stamp, 'w').write(want)


def tree_hash(repo):
    """Content hash of every file of the work tree outside target/ and .git/."""
    h = hashlib.sha256()
    n = 0
    for root, dirs, files in os.walk(repo):
        dirs[:] = sorted(d for d in dirs if d not in ('target', '.git'))
        for f in sorted(files):
            p = os.path.join(root, f)
            if os.path.islink(p) or not os.path.isfile(p):
                continue
            h.update(os.path.relpath(p, repo).encode())
            h.update(b'\0')
            with open(p, 'rb') as fh:
                h.update(fh.read())
            h.update(b'\0')
            n += 1
    return h.hexdigest()[:20], n


def workspace_members(repo):
    env = dict(os.environ, **OFFLINE_ENV)
    r = sh(['cargo', 'metadata', '--offline', '--no-deps', '--format-version', '1'], cwd=repo, env=env,
           capture_output=True, text=True)
    if r.returncode != 0:
        raise SystemExit('cargo metadata failed: ' + r.stderr)
    md = json.loads(r.stdout)
    return sorted({p['name'] for p in md['packages']})


def extract(repo, scope):
    """Run the driver over `repo`; returns the directory holding this tree's fact files.
    scope: 'libs' (4 library crates) or 'workspace'."""
    setup()
    th, nfiles = tree_hash(repo)
    key = '%s-%s-%s' % (scope, th, driver_src_hash())
    fdir = os.path.join(CACHE, 'facts', key)
    if os.path.exists(os.path.join(fdir, 'COMPLETE')):
        try:
            os.utime(fdir, None)        # least-recently-USED pruning: a tree that is being checked now stays
        except OSError:
            pass
        return fdir, {'cached': True, 'tree_hash': th, 'files_hashed': nfiles}
    os.makedirs(os.path.join(CACHE, 'facts'), exist_ok=True)
    with open(os.path.join(CACHE, 'lock.extract'), 'w') as lk:
        fcntl.flock(lk, fcntl.LOCK_EX)
        if os.path.exists(os.path.join(fdir, 'COMPLETE')):
            return fdir, {'cached': True, 'tree_hash': th, 'files_hashed': nfiles}
        t0 = time.time()
        if os.path.exists(fdir):
            shutil.rmtree(fdir)
        os.makedirs(fdir)
        target = os.path.join(CACHE, 'target')
        members = workspace_members(repo)
        fp = os.path.join(target, 'debug', '.fingerprint')
        if os.path.isdir(fp):
            for d in os.listdir(fp):
                stem = d.rsplit('-', 1)[0]
                if stem in members:
                    shutil.rmtree(os.path.join(fp, d), ignore_errors=True)
        nonce = '%s-%d-%d' % (th, os.getpid(), int(t0))
        env = dict(os.environ, **OFFLINE_ENV)
        env.update({
            'LD_LIBRARY_PATH': nightly_sysroot() + '/lib',
            'RUSTFLAGS': '-Zmir-opt-level=0 -Awarnings',
            'RUSTC_WORKSPACE_WRAPPER': DRIVER_BIN,
            'GRMFACTS_OUT': fdir,
            'GRMFACTS_NONCE': nonce,
            'CARGO_TARGET_DIR': target,
        })
        env.pop('RUSTC_WRAPPER', None)
        cmd = ['cargo', '+nightly', 'check', '--offline', '-j', '16']
        if scope == 'libs':
            for c in LIB_CRATES:
                cmd += ['-p', c]
        else:
            cmd += ['--workspace']
        log('[extract] %s (scope=%s, tree=%s)' % (' '.join(cmd), scope, th))
        r = sh(cmd, cwd=repo, env=env, capture_output=True, text=True)
        if r.returncode != 0:
            sys.stderr.write(r.stdout[-4000:] + r.stderr[-8000:])
            raise SystemExit('[extract] cargo check failed on %s (exit %d): cannot analyse a tree that does not build'
                             % (repo, r.returncode))
        # every expected crate must have a fact file written by *this* run
        seen = {}
        for f in os.listdir(fdir):
            if not f.endswith('.json'):
                continue
            with open(os.path.join(fdir, f)) as fh:
                head = fh.read(400)
            if ('"nonce":"%s"' % nonce) not in head:
                raise SystemExit('[extract] stale fact file %s' % f)
            seen.setdefault(f.rsplit('-', 1)[0], []).append(f)
        for c in LIB_CRATES:
            if c not in seen:
                raise SystemExit('[extract] no fact file for crate %s (cargo skipped the driver?)' % c)
        if scope == 'workspace' and 'lrpar_tests' not in seen:
            raise SystemExit('[extract] no fact file for lrpar_tests')
        with open(os.path.join(fdir, 'COMPLETE'), 'w') as fh:
            json.dump({'nonce': nonce, 'wall_s': time.time() - t0, 'repo': repo, 'scope': scope}, fh)
        prune_fact_cache(keep=fdir)
        return fdir, {'cached': False, 'tree_hash': th, 'files_hashed': nfiles, 'extract_wall_s': round(time.time() - t0, 1)}


def prune_fact_cache(keep, maxn=60):
    base = os.path.join(CACHE, 'facts')
    ds = [os.path.join(base, d) for d in os.listdir(base)]
    ds = [d for d in ds if os.path.isdir(d) and d != keep]
    ds.sort(key=lambda d: os.path.getmtime(d))
    while len(ds) >= maxn:
        shutil.rmtree(ds.pop(0), ignore_errors=True)


# ------------------------------------------------------------------------------------------------
# Result collection


class Results:
    def __init__(self, prop, tier):
        self.prop = prop
        self.tier = tier
        self.instances = []
        self.notes = []
        self.counters = {}
        self.exhaustive = True

    def _add(self, rule, key, loc, verdict, msg, detail=None):
        self.instances.append({'rule': rule, 'key': '%s:%s' % (rule, key), 'loc': loc or '', 'verdict': verdict,
                               'msg': msg, 'detail': detail})

    def ok(self, rule, key, loc, msg):
        self._add(rule, key, loc, 'pass', msg)

    def bad(self, rule, key, loc, msg, detail=None):
        self._add(rule, key, loc, 'violation', msg, detail)

    def lost(self, rule, what):
        """fail closed: the anchor of a rule could not be located / floor not met"""
        self._add(rule, 'anchor-lost', '', 'anchor-lost', what)

    def floor(self, rule, what, n, minimum):
        if n < minimum:
            self.lost(rule, 'floor not met: %s = %d < %d (floors: DESIGN.md section 6)' % (what, n, minimum))
        else:
            self.count(rule + ' ' + what, n)

    def count(self, k, n=1):
        self.counters[k] = self.counters.get(k, 0) + n

    def note(self, s):
        self.notes.append(s)


def load_known():
    known, fixed = {}, []
    if os.path.exists(KNOWN):
        for line in open(KNOWN):
            line = line.strip()
            if not line or line.startswith('#'):
                continue
            parts = line.split(None, 3)
            if parts[0] == 'known:':
                prop = parts[1].split('=', 1)[1]
                key = parts[2].split('=', 1)[1]
                known[(prop, key)] = parts[3] if len(parts) > 3 else ''
            elif parts[0] == 'fixed:':
                fixed.append(line)
    return known, fixed


def loc_of(body, bb=None, line=None):
    if line is None and bb is not None:
        line = body.blocks[bb]['term'].get('line')
    if line is None:
        line = body.lo
    return '%s:%s' % (body.file, line)


PROP_META = {}


def run_property(prop, tier, seed):
    t0 = time.time()
    mod = importlib.import_module(prop.lower())
    scope = 'workspace' if (tier == 'thorough' and getattr(mod, 'THOROUGH_WORKSPACE', False)) else 'libs'
    fdir, exinfo = extract(REPO, scope)
    import mirlib
    facts = mirlib.Facts(fdir)
    res = Results(prop, tier)
    res.repo = REPO
    res.facts_dir = fdir
    def guarded(fn):
        # fail closed: a rule that cannot digest the current tree (an anchor is gone, or the code has taken a shape the rule
        # never met and it trips over it) reports that as a lost anchor - exit 1 with a diagnosis, never a bare crash
        try:
            fn(facts, res)
        except mirlib.AnchorLost as e:
            res.lost(e.rule, str(e))
        except Exception as e:        # noqa
            import traceback
            tb = traceback.extract_tb(e.__traceback__)
            where = next((f for f in reversed(tb) if os.path.basename(f.filename).startswith('c') and f.filename.endswith('.py')), tb[-1])
            res.lost('internal', 'the checker could not analyse this tree: %s: %s at %s:%s (%s) - the code at the rule\'s anchor has a shape the rule does not understand'
                     % (type(e).__name__, str(e)[:120], os.path.basename(where.filename), where.lineno, where.name))
    guarded(mod.run)
    if tier == 'thorough' and hasattr(mod, 'run_thorough'):
        guarded(mod.run_thorough)
    known0, _f0 = load_known()
    if any(i['verdict'] != 'pass' and (prop, i['key']) not in known0 and i['rule'] not in getattr(mod, 'NO_INLINE_VIEW', ()) for i in res.instances) \
            and not os.environ.get('VERIF_NO_INLINE_VIEW'):
        # Second chance on a semantics-preserving normal form of the program: private helper functions inlined into their callers
        # (a block moved into a helper is the same program).  A rule counts as decided by whichever of the two views it is clean on;
        # if it is clean on neither, the findings on the program as written are reported.
        res_a, facts_a = res, facts

        def clean(insts):
            return bool(insts) and all(i['verdict'] == 'pass' or (prop, i['key']) in known0 for i in insts)

        def strip_g(path):
            return mirlib.strip_generics(path)
        taken = []
        # helpers with one call site (a block moved out), then up to three (a shared block factored out), then every private helper
        try:
            singles = facts_a.inline_candidates(max_sites=3)
            # helpers defined in a file that this property's findings point into come first (an unlocated lost anchor points into the
            # files of the property's other instances)
            files = {i['loc'].rsplit(':', 1)[0] for i in res_a.instances if i.get('loc') and i['verdict'] != 'pass'}
            if any(i['verdict'] != 'pass' and not i.get('loc') for i in res_a.instances) or not files:
                files |= {i['loc'].rsplit(':', 1)[0] for i in res_a.instances if i.get('loc')}
            near = [h for h in singles if facts_a.bodies[h].file in files]
            singles = near if files else singles
        except Exception:      # noqa
            singles = []
        # one helper at a time (what a single "extract function" refactoring undoes), then all helpers with one call site, up to
        # three, and finally every private same-file helper
        # ... and the private methods of one type together (a small helper type usually gets its constructor and its mutators at once)
        by_type = {}
        for h in singles:
            it = facts_a.bodies[h].impl_of
            if it:
                by_type.setdefault(it, set()).add(h)
        groups = [(g, 1000) for g in by_type.values() if len(g) > 1]
        # ... and, first of all groups, the helpers that the functions holding the findings call (directly or through one another):
        # what "extract two helpers from this function" undoes, without dissolving the function itself into ITS caller
        try:
            import mirlib as _ml
            holders = set()
            for i in res_a.instances:
                if i['verdict'] == 'pass' or not i.get('loc') or ':' not in i['loc']:
                    continue
                fl, ln = i['loc'].rsplit(':', 1)
                if not ln.isdigit():
                    continue
                for bd in facts_a.bodies.values():
                    if bd.file == fl and bd.lo <= int(ln) <= bd.hi and bd.kind != 'closure':
                        holders.add(bd.path)
            sset = set(singles)
            callees, todo_ = set(), list(holders)
            seen_ = set()
            while todo_:
                hp = todo_.pop()
                if hp in seen_ or hp not in facts_a.bodies:
                    continue
                seen_.add(hp)
                bd = facts_a.bodies[hp]
                for bb_ in bd.reachable():
                    t_ = bd.term(bb_)
                    if t_['k'] == 'call':
                        c_ = _ml.callee_of(t_)
                        cp_ = (c_.get('resolved') or c_['path']) if c_ else None
                        if cp_ in sset and cp_ not in holders:
                            callees.add(cp_)
                            todo_.append(cp_)
                for cb_ in facts_a.closures_of(bd):
                    todo_.append(cb_.path)
            if len(callees) > 1:
                groups = [(callees, 1000)] + groups
        except Exception:      # noqa
            pass
        for only, max_sites in [({h}, 1000) for h in singles] + groups + [(None, 1), (None, 3), (None, 1000)]:
            if not any(i['verdict'] != 'pass' and (prop, i['key']) not in known0 for i in res_a.instances):
                break
            try:
                facts_b = facts_a.inlined_view(max_sites=max_sites, only=only)
                facts = facts_b
                res = Results(prop, tier)
                res.repo, res.facts_dir = REPO, fdir
                guarded(mod.run)
                if tier == 'thorough' and hasattr(mod, 'run_thorough'):
                    guarded(mod.run_thorough)
                res_b = res
            except Exception as e:     # the normal form could not be built: keep the first answer
                res_b = None
                res_a.note('inlined view not available: %s' % str(e)[:100])
            res, facts = res_a, facts_a
            if res_b is None:
                break
            rules_a = [r for r in dict.fromkeys(i['rule'] for i in res_a.instances)]
            rules_b = [r for r in dict.fromkeys(i['rule'] for i in res_b.instances)]
            a_internal = any(i['rule'] == 'internal' for i in res_a.instances)
            b_internal = any(i['rule'] == 'internal' for i in res_b.instances)
            merged = []
            for r in rules_a:
                ia = [i for i in res_a.instances if i['rule'] == r]
                ib = [i for i in res_b.instances if i['rule'] == r]
                if r == 'internal':
                    if b_internal:
                        merged += ia
                    continue
                # the other view may answer for the rule only if it lost nothing on the way: it has at least as many located instances
                # (an instance that merely disappears - its function was inlined away - would otherwise hide a finding), and every
                # located finding of this view is either present and passing there, or sat in a function that view has dissolved
                na = [i for i in ia if i['verdict'] != 'anchor-lost']
                nb_ = [i for i in ib if i['verdict'] != 'anchor-lost']
                gone = set(facts_a.bodies) - set(facts_b.bodies)
                bkeys = {i['key'] for i in ib if i['verdict'] == 'pass'}
                explained = all(i['verdict'] in ('pass', 'anchor-lost') or (prop, i['key']) in known0 or i['key'] in bkeys
                                or any(strip_g(h) in i['key'] or (':' + strip_g(h).rsplit('::', 1)[-1]) in i['key'] for h in gone) for i in ia)
                if os.environ.get('VERIF_DEBUG_VIEWS') and not clean(ia):
                    log('  [views] %s only=%s max=%s: clean_b=%s na=%d nb=%d explained=%s' % (r, sorted(only)[:2] if only else None, max_sites, clean(ib), len(na), len(nb_), explained))
                # fewer instances are tolerable only when the findings that sat in a dissolved helper demonstrably came back under
                # their callers: the view has at least as many NEW keys as there were such findings, and keeps every other key
                def in_gone(i):
                    return any(strip_g(h) in i['key'] or (':' + strip_g(h).rsplit('::', 1)[-1]) in i['key'] for h in gone)
                akeys = {i['key'] for i in na}
                moved = [i for i in na if i['verdict'] != 'pass' and (prop, i['key']) not in known0 and in_gone(i)]
                newkeys = {i['key'] for i in nb_} - akeys
                kept = {i['key'] for i in na if not in_gone(i)} <= {i['key'] for i in nb_}
                # a rule whose instances ARE functions (it finds "every function that renders an enum") loses an instance when such a
                # function is inlined away: its module lists it in NO_INLINE_VIEW and it is never decided on a view
                enough = (len(nb_) >= len(na) or (moved and kept)) and r not in getattr(mod, 'NO_INLINE_VIEW', ())
                if os.environ.get('VERIF_DEBUG_VIEWS') and not clean(ia) and clean(ib):
                    log('  [views2] moved=%s newkeys=%s kept=%s missing=%s' % ([i['key'] for i in moved], sorted(newkeys)[:3], kept,
                                                                             sorted({i['key'] for i in na if not in_gone(i)} - {i['key'] for i in nb_})[:3]))
                if clean(ia) or not clean(ib) or not enough or not explained:
                    merged += ia
                else:
                    for i in ib:
                        i['msg'] += '  [decided on the program with private helper functions inlined into their callers]'
                    merged += ib
                    taken.append(r)
            for r in rules_b:
                if r not in rules_a and r != 'internal' and a_internal:
                    merged += [i for i in res_b.instances if i['rule'] == r]     # rules the first run never reached
                    taken.append(r)
            res_a.instances = merged
            for k, n in res_b.counters.items():
                res_a.counters.setdefault(k, n)
        res, facts = res_a, facts_a
        if taken:
            res.note('rules decided on the inlined normal form: %s' % ', '.join(sorted(set(taken))))
    if tier == 'thorough' and not os.environ.get('VERIF_SELFTEST'):
        # liveness controls (DESIGN.md §7): up to three of this property's own mutants must be reported on a
        # scratch copy of THIS tree; a control whose edit no longer applies is skipped, never failed
        import selftest
        for m in selftest.controls_for(prop):
            st, msg = selftest.run_one(m)
            if st in ('caught', 'caught-other'):
                res.ok('control', m['id'], '', 'liveness control: seeded change "%s" is reported (%s)' % (m['desc'], msg[:100]))
            elif st == 'skipped':
                res.note('control %s skipped: %s' % (m['id'], msg))
            else:
                res.bad('control', m['id'], '', 'rule-dead: the seeded change "%s" applies to the current tree but is NOT reported (%s)' % (m['desc'], msg))
    known, _fixed = load_known()
    viols, knowns = [], []
    for inst in res.instances:
        tag = {'pass': 'ok  ', 'violation': 'FAIL', 'anchor-lost': 'LOST'}[inst['verdict']]
        if inst['verdict'] != 'pass' and (prop, inst['key']) in known:
            knowns.append(inst)
            inst['verdict'] = 'known-finding'
            tag = 'KNWN'
        elif inst['verdict'] != 'pass':
            viols.append(inst)
        log('  [%s] %-7s %s  %s  %s' % (tag, inst['rule'], inst['key'].split(':', 1)[1], inst['loc'], inst['msg']))
    for n in res.notes:
        log('  note: ' + n)
    for inst in knowns:
        log('KNOWN-FINDING: property=%s %s %s' % (prop, inst['key'], known[(prop, inst['key'])] or inst['msg']))
    os.makedirs(EVIDENCE, exist_ok=True)
    vpath = os.path.join(EVIDENCE, '%s.violations.json' % prop)
    if viols:
        with open(vpath, 'w') as fh:
            json.dump({'property': prop, 'repo': REPO, 'tier': tier, 'violations': viols}, fh, indent=1)
    elif os.path.exists(vpath):
        os.remove(vpath)
    npass = sum(1 for i in res.instances if i['verdict'] == 'pass')
    meta = getattr(mod, 'META', {})
    level = meta.get('level', 'other')
    cov = {
        'obligations': len(res.instances),
        'discharged': npass,
        'known_findings': len(knowns),
        'checker_cmd': './check %s --tier %s' % (prop, tier),
        'trusted_base': meta.get('trusted_base', []) + [
            'rustc nightly front-end + MIR construction (facts are read from the compiler, opt-level 0)',
            'grmfacts driver (/verif/driver) and rules/mirlib.py'],
        'explanation': meta.get('explanation', ''),
        'rule': meta.get('rule', 'one obligation per rule instance found in the MIR of the current tree (a call site, loop, field, table row, '
                                 'path set ...); distinct = distinct instance keys; non-trivial = anchored at a source location of /repo '
                                 '(summary instances such as "none of the N sites ..." and liveness controls are evaluated but not counted)'),
        'evaluations': len(res.instances),
        'distinct_nontrivial': len({i['key'] for i in res.instances if i.get('loc') and i['rule'] != 'control'}),
        'samples': [{'rule': i['rule'], 'key': i['key'], 'loc': i['loc'], 'verdict': i['verdict'], 'msg': i['msg']}
                    for i in res.instances][:400],
        'crates_analysed': sorted(facts.crates_loaded()),
        'functions_analysed': facts.n_bodies(),
        'counters': res.counters,
        'fact_extraction': exinfo,
        'exhaustive': bool(meta.get('exhaustive', False)) and not viols,
        'notes': res.notes,
    }
    ev = {
        'property_id': prop, 'tier': tier, 'seed': seed, 'level': level, 'coverage': cov,
        'assumptions': meta.get('assumptions', []),
        'wall_s': round(time.time() - t0, 2),
        'violations': len(viols),
    }
    with open(os.path.join(EVIDENCE, '%s.json' % prop), 'w') as fh:
        json.dump(ev, fh, indent=1)
    log('%s: %d rule instances, %d pass, %d known findings, %d violations (%.1fs, tier=%s, facts %s)'
        % (prop, len(res.instances), npass, len(knowns), len(viols), time.time() - t0, tier,
           'cached' if exinfo.get('cached') else 'extracted'))
    if viols:
        log('VIOLATION property=%s replay=%s' % (prop, vpath))
        return 1
    return 0


def explain(path):
    d = json.load(open(path))
    log('property %s  (tree: %s, tier %s)' % (d['property'], d['repo'], d['tier']))
    for v in d['violations']:
        log('-' * 100)
        log('rule      : %s' % v['rule'])
        log('instance  : %s' % v['key'])
        log('location  : %s' % v['loc'])
        log('verdict   : %s' % v['verdict'])
        log('diagnosis : %s' % v['msg'])
        if v.get('detail'):
            log('detail    :')
            det = v['detail']
            if isinstance(det, str):
                log('   ' + det.replace('\n', '\n   '))
            else:
                log('   ' + json.dumps(det, indent=1).replace('\n', '\n   '))
    return 0


def all_props():
    man = json.load(open(os.path.join(VERIF, 'MANIFEST.json')))
    return [c['property_id'] for c in man['checks']]


def main(argv):
    if not argv:
        print(__doc__)
        return 2
    if argv[0] == '--setup':
        setup()
        log('[setup] ok: %s' % DRIVER_BIN)
        return 0
    if argv[0] == '--explain':
        return explain(argv[1])
    if argv[0] == '--selftest':
        import selftest
        return selftest.main(argv[1:])
    tier = os.environ.get('VERIF_TIER', 'quick')
    seed = int(os.environ.get('VERIF_SEED', '0') or 0)
    props = []
    i = 0
    while i < len(argv):
        a = argv[i]
        if a == '--tier':
            tier = argv[i + 1]
            i += 2
            continue
        if a == '--explain':
            return explain(argv[i + 1])
        if a == '--no-evidence':
            global EVIDENCE
            EVIDENCE = os.path.join(CACHE, 'selftest-evidence')
            i += 1
            continue
        if a == '--all':
            props += all_props()
        else:
            props.append(a)
        i += 1
    if tier not in ('quick', 'thorough'):
        raise SystemExit('bad tier')
    rc = 0
    for p in props:
        rc |= run_property(p, tier, seed)
    return rc
