#!/bin/sh
# usage: tools/try_seed.sh <seeded/id> [properties...]   - applies the patch to /repo, runs the checks, reverts
set -e
d=$1; shift
props="$@"
[ -z "$props" ] && props=$(python3 -c "import json;print(' '.join(c['property_id'] for c in json.load(open('/verif/MANIFEST.json'))['checks']))")
cd /verif
git -C /repo diff --quiet || { echo "/repo is dirty"; exit 2; }
git -C /repo apply "$(realpath $d/patch.diff)"
trap 'git -C /repo checkout -- .' EXIT
for p in $props; do
  ./check $p --no-evidence 2>&1 | grep -E "FAIL|LOST|violations|Traceback|cargo check failed" | cut -c1-260 || true
done
